/-
C08 — node-level preservation of the stored-parent invariant for EVERY call of the model:
all list-protocol calls (plain values wrapped by any member schema, Element arguments, `set`,
`set_default`, `*=`, `clear`) and all dict-protocol calls, and the history theorem over any
mixture of them on any elements of a tree of any depth.
-/
import Proofs.C08Build
namespace Flatland.C08.Proofs
open Flatland.Tree Flatland.PyList Flatland.C08 Flatland.C08.Spec

/-- every Element argument of the call is internally well-parented (plain values are unrestricted) -/
def SeqArgsWP : SeqOp → Prop
  | .append a | .insert _ a | .setitem _ a => ArgWP a
  | .extend as | .iadd as | .setslice _ as => ∀ a ∈ as, ArgWP a
  | _ => True

theorem extendArgs_wp' (m : Schema) (as : List Arg) (ha : ∀ a ∈ as, ArgWP a) :
    ∀ (n : Node) (next : Nat), KidsWP n.id n.kids →
      KidsWP (extendArgs m n as next).1.id (extendArgs m n as next).1.kids := by
  induction as with
  | nil => intro n next h; exact h
  | cons a as ih =>
    intro n next h
    rw [extendArgs]
    split
    · exact h
    · rename_i w n1 hw
      have := appendEl_wp n w h (wrap_wp m a (ha a (by simp)) next w n1 hw) n1
      exact ih (fun x hx => ha x (by simp [hx])) _ _ this.1

theorem imulLoop_wp (m : Schema) (vals : List Arg) (hv : ∀ a ∈ vals, ArgWP a) (k : Nat) :
    ∀ (n : Node) (next : Nat), KidsWP n.id n.kids →
      KidsWP (imulLoop m vals k n next).1.id (imulLoop m vals k n next).1.kids := by
  induction k with
  | zero => intro n next h; exact h
  | succ k ih =>
    intro n next h
    rw [imulLoop]
    have he := extendArgs_wp' m vals hv n next h
    split
    · rename_i hx; rw [hx] at he; exact he
    · rename_i hx; rw [hx] at he; exact ih _ _ he

theorem setitem_slot_wp (slot el' : Node) (hs : slot.kids ≠ [] ∨ True) (hp : el'.parent = some slot.id) (hw : wp el' = true) :
    wp (slot.withKids [el']) = true := by
  cases slot with
  | mk si ss sk =>
    simp only [Node.withKids, wp, wpL, Bool.and_eq_true, beq_iff_eq, and_true, Node.ni, Node.sch]
    exact ⟨hp, hw⟩

/-- **node-level preservation, sequences, every call.** -/
theorem seqStep_wp_all (n : Node) (hw : wp n = true) (op : SeqOp) (hop : SeqArgsWP op) (next : Nat) :
    wp (seqStep n op next).node = true := by
  have hK : KidsWP n.id n.kids := (wp_iff n).mp hw
  have fin : ∀ ks, KidsWP n.id ks → wp (n.withKids (if n.kind = .list then renumber ks else ks)) = true :=
    fun ks h => finish_wp n ks h
  unfold seqStep
  split
  · exact hw
  · rename_i m hm
    cases op with
    | append a =>
      dsimp only
      split
      · exact hw
      · rename_i w n1 hwr
        exact (wp_iff _).mpr (appendEl_wp n w hK (wrap_wp m a hop next w n1 hwr) n1).1
    | extend as =>
      have := extendArgs_wp' m as hop n next hK
      dsimp only; split <;> exact (wp_iff _).mpr this
    | iadd as =>
      have := extendArgs_wp' m as hop n next hK
      dsimp only; split <;> exact (wp_iff _).mpr this
    | insert i a =>
      dsimp only
      split
      · exact hw
      · rename_i w n1 hwr
        have hww := wrap_wp m a hop next w n1 hwr
        split
        · rw [wp_withKids]
          apply kw_renumber
          intro x hx
          rcases mem_insertAt hx with h1 | h1
          · exact hK x h1
          · rw [h1]; exact wp_mkSlot _ _ _ w hww
        · rw [wp_withKids]
          intro x hx
          rcases mem_insertAt hx with h1 | h1
          · exact hK x h1
          · rw [h1, parent_withParent, wp_withParent]; exact ⟨rfl, hww⟩
    | setitem i a =>
      dsimp only
      split
      · cases a with
        | elem e =>
          dsimp only
          split
          · exact hw
          · rename_i slot hg
            split
            · exact hw
            · rw [wp_withKids]
              intro x hx
              rcases List.mem_or_eq_of_mem_set hx with h1 | h1
              · exact hK x h1
              · have hs := hK slot (mem_getItem hg)
                rw [h1, parent_withKids]
                exact ⟨hs.1, setitem_slot_wp slot _ (.inr trivial) (parent_withParent _ _) (by rw [wp_withParent]; exact hop)⟩
        | plain r =>
          dsimp only
          split
          · rename_i slot k hg hk
            have hs := hK slot (mem_getItem hg)
            split
            · exact hw
            · rename_i el hel
              have helm : el ∈ slot.kids := by
                unfold slotElement at hel
                exact List.mem_of_mem_head? hel
              have hel' := (wp_iff slot).mp hs.2 el helm
              have hnew : wp (slot.withKids [(setNode el r none next).node]) = true :=
                setitem_slot_wp slot _ (.inr trivial)
                  (by rw [(parent_of_hdr (setNode_hdr el r none next)).1]; exact hel'.1)
                  (setNode_wp r el none next hel'.2)
              have hks : KidsWP n.id (n.kids.set k (slot.withKids [(setNode el r none next).node])) := by
                intro x hx
                rcases List.mem_or_eq_of_mem_set hx with h1 | h1
                · exact hK x h1
                · rw [h1, parent_withKids]; exact ⟨hs.1, hnew⟩
              split <;> (try rw [excOut]) <;> rw [wp_withKids] <;> exact hks
          · exact hw
      · split
        · exact hw
        · rename_i w n1 hwr
          have hww := wrap_wp m a hop next w n1 hwr
          split
          · exact hw
          · rw [wp_withKids]
            intro x hx
            rcases List.mem_or_eq_of_mem_set hx with h1 | h1
            · exact hK x h1
            · rw [h1, parent_withParent, wp_withParent]; exact ⟨rfl, hww⟩
    | setslice sl as =>
      dsimp only
      split
      · exact hw
      · rename_i ws n1 hws
        have hww := wrapAll_wp m as hop next ws n1 hws
        split
        · have hns := newSlots_wp n.id n.kids.length ws hww n1
          split
          · exact hw
          · rename_i ks hss
            rw [wp_withKids]
            apply kw_renumber
            intro x hx
            rcases mem_setSlice hss hx with h1 | h1
            · exact hK x h1
            · exact hns x h1
        · split
          · exact hw
          · rename_i ks hss
            rw [wp_withKids]
            intro x hx
            rcases mem_setSlice hss hx with h1 | h1
            · exact hK x h1
            · obtain ⟨w, hwm, rfl⟩ := List.mem_map.mp h1
              rw [parent_withParent, wp_withParent]; exact ⟨rfl, hww w hwm⟩
    | delitem i =>
      dsimp only
      split
      · rename_i ks k hd _
        exact fin ks (kw_sub hK (fun x hx => mem_delItem hd hx))
      · exact hw
    | delslice sl =>
      dsimp only
      split
      · exact hw
      · rename_i ks hd
        exact fin ks (kw_sub hK (fun x hx => mem_delSlice hd hx))
    | pop i =>
      dsimp only
      split
      · exact hw
      · rename_i x ks hp
        have hm := mem_popAt hp
        split
        · rw [wp_withKids]; exact kw_renumber _ _ (kw_sub hK hm.2)
        · rw [wp_withKids]; exact kw_sub hK hm.2
    | remove a =>
      dsimp only
      split
      · exact hw
      · split
        · exact hw
        · exact fin _ (kw_sub hK (fun x hx => List.mem_of_mem_eraseIdx hx))
    | reverse => exact fin _ (kw_sub hK (fun x hx => List.mem_reverse.mp hx))
    | clear => rw [wp_withKids]; intro x hx; cases hx
    | imul c =>
      dsimp only
      split
      · rw [wp_withKids]; split <;> (intro x hx; simp [renumber, renumberFrom] at hx)
      · have := imulLoop_wp m ((members n).map (fun x => Arg.plain (imulValue x)))
          (by intro a ha; obtain ⟨x, _, rfl⟩ := List.mem_map.mp ha; trivial) (c.toNat - 1) n next hK
        split <;> exact (wp_iff _).mpr this
    | sort k r =>
      dsimp only
      split
      · split <;> first | exact hw | (split <;> exact hw)
      · split
        · exact fin _ (kw_sub hK (fun x hx => mem_sortBy.mp hx))
        · exact hw
    | set r => dsimp only; split <;> exact setNode_wp r n none next hw
    | setDefault => dsimp only; split <;> exact setDefault_wp n next hw
    | len => exact hw
    | getitem i => dsimp only; split <;> first | exact hw | (split <;> first | exact hw | (split <;> exact hw))
    | getslice s => dsimp only; split <;> exact hw
    | contains a => dsimp only; split <;> exact hw
    | index a => dsimp only; split <;> first | exact hw | (split <;> exact hw)
    | count a => dsimp only; split <;> exact hw


/-! ### mappings -/

def MapArgsWP : MapOp → Prop
  | .setitem _ a => ArgWP a
  | .updateArgs kvs => ∀ p ∈ kvs, ArgWP p.2
  | _ => True

theorem wp_withScalar (x : Node) (v : Val) (u : Str) : wp (x.withScalar v u) = wp x := by cases x; rfl
theorem parent_withScalar (x : Node) (v : Val) (u : Str) : (x.withScalar v u).parent = x.parent := by cases x; rfl

theorem setChild_ok (child : Node) (a : Arg) (next : Nat) (hw : wp child = true) :
    (setChild child a next).node.parent = child.parent ∧ wp (setChild child a next).node = true := by
  unfold setChild
  split
  · exact ⟨(parent_of_hdr (setNode_hdr _ _ _ _)).1, setNode_wp _ _ _ _ hw⟩
  · split
    · exact ⟨parent_withScalar _ _ _, by rw [wp_withScalar]; exact hw⟩
    · exact ⟨rfl, hw⟩

theorem kw_replace {p : Nat} {kids : List Node} (h : KidsWP p kids) (k : Str) (new : Node)
    (hn : new.parent = some p ∧ wp new = true) : KidsWP p (replaceKid kids k new) := by
  intro x hx
  rcases mem_replaceKid' hx with h1 | h1
  · exact h x h1
  · rw [h1]; exact hn

theorem kw_append {p : Nat} {kids : List Node} (h : KidsWP p kids) (new : Node)
    (hn : new.parent = some p ∧ wp new = true) : KidsWP p (kids ++ [new]) := by
  intro x hx
  rcases List.mem_append.mp hx with h1 | h1
  · exact h x h1
  · simp only [List.mem_singleton] at h1; rw [h1]; exact hn

theorem placed_ok (e : Node) (p : Nat) (key : Str) (he : wp e = true) :
    ((e.withParent (some p)).withKey key).parent = some p ∧ wp ((e.withParent (some p)).withKey key) = true := by
  rw [parent_withKey, parent_withParent, wp_withKey, wp_withParent]; exact ⟨rfl, he⟩

theorem kids_withKids' (n : Node) (ks : List Node) : (n.withKids ks).kids = ks := by cases n; rfl

theorem mapSetItem_wp (n : Node) (hw : wp n = true) (key : Str) (a : Arg) (ha : ArgWP a) (next : Nat) :
    (mapSetItem n key a next).node.hdr = n.hdr ∧ wp (mapSetItem n key a next).node = true := by
  have hK : KidsWP n.id n.kids := (wp_iff n).mp hw
  have hset : ∀ child, findKid n.kids key = some child →
      KidsWP n.id (replaceKid n.kids key (setChild child a next).node) := by
    intro child hc
    have hcm := findKid_mem hc
    have := setChild_ok child a next (hK child hcm).2
    exact kw_replace hK key _ ⟨by rw [this.1]; exact (hK child hcm).1, this.2⟩
  unfold mapSetItem
  split
  · dsimp only
    split
    · split
      · exact ⟨rfl, hw⟩
      · rename_i f hf
        split
        · rename_i e
          split
          · exact ⟨rfl, by rw [wp_withKids]; exact kw_append hK _ (placed_ok e n.id key ha)⟩
          · split
            · refine ⟨rfl, ?_⟩
              rw [wp_withKids]
              apply kw_append hK
              rw [parent_withScalar, wp_withScalar]
              exact ⟨(hdr_id_parent (blank_hdr f (some n.id) key next)).2, blank_wp _ _ _ _⟩
            · exact ⟨rfl, hw⟩
        · rename_i r
          split
          · exact ⟨rfl, hw⟩
          · rename_i el n1 hcon
            refine ⟨rfl, ?_⟩
            rw [wp_withKids]
            apply kw_append hK
            exact ⟨(hdr_id_parent (construct_hdr f r (some n.id) key next el (by rw [hcon]))).2,
              construct_wp f r (some n.id) key next el n1 hcon⟩
    · rename_i child hc
      split
      · exact ⟨rfl, hw⟩
      · rename_i f e _
        split
        · exact ⟨rfl, by rw [wp_withKids]; exact kw_replace hK key _ (placed_ok e n.id key ha)⟩
        · split <;> refine ⟨rfl, ?_⟩ <;> (try rw [excOut]) <;> rw [wp_withKids] <;> exact hset child hc
      · split <;> refine ⟨rfl, ?_⟩ <;> (try rw [excOut]) <;> rw [wp_withKids] <;> exact hset child hc
  · split
    · exact ⟨rfl, hw⟩
    · rename_i child hc
      dsimp only
      split <;> refine ⟨rfl, ?_⟩ <;> (try rw [excOut]) <;> rw [wp_withKids] <;> exact hset child hc

theorem wp_of_hdr_eq {r n : Node} (h : r.hdr = n.hdr) : r.id = n.id := (parent_of_hdr h).2

theorem mapUpdatePairs_wp (kvs : List (Str × Raw)) : ∀ (n : Node) (next : Nat), wp n = true →
    (mapUpdatePairs n kvs next).node.hdr = n.hdr ∧ wp (mapUpdatePairs n kvs next).node = true := by
  induction kvs with
  | nil => intro n next h; exact ⟨rfl, h⟩
  | cons kv rest ih =>
    intro n next h
    obtain ⟨k, v⟩ := kv
    have hs := mapSetItem_wp n h k (.plain v) trivial next
    rw [mapUpdatePairs]
    split
    · exact hs
    · have := ih _ (mapSetItem n k (.plain v) next).next hs.2
      exact ⟨this.1.trans hs.1, this.2⟩

theorem mapUpdateArgs_wp (kvs : List (Str × Arg)) (ha : ∀ p ∈ kvs, ArgWP p.2) : ∀ (n : Node) (next : Nat), wp n = true →
    (mapUpdateArgs n kvs next).node.hdr = n.hdr ∧ wp (mapUpdateArgs n kvs next).node = true := by
  induction kvs with
  | nil => intro n next h; exact ⟨rfl, h⟩
  | cons kv rest ih =>
    intro n next h
    obtain ⟨k, a⟩ := kv
    have hs := mapSetItem_wp n h k a (ha (k, a) (by simp)) next
    rw [mapUpdateArgs]
    split
    · exact hs
    · have := ih (fun p hp => ha p (by simp [hp])) _ (mapSetItem n k a next).next hs.2
      exact ⟨this.1.trans hs.1, this.2⟩

theorem kw_erase {p : Nat} {kids : List Node} (h : KidsWP p kids) (k : Str) : KidsWP p (eraseKey kids k) := by
  intro x hx
  unfold eraseKey at hx
  exact h x (List.mem_filter.mp hx).1

theorem mapReset_wp (n : Node) (next : Nat) : (mapReset n next).1.hdr = n.hdr ∧ wp (mapReset n next).1 = true := by
  unfold mapReset
  split
  · exact ⟨rfl, by rw [wp_withKids]; exact blankFields_wp _ _ _ _⟩
  · split
    · exact ⟨rfl, by rw [wp_withKids]; exact blankFields_wp _ _ _ _⟩
    · exact ⟨rfl, by rw [wp_withKids]; intro x hx; cases hx⟩

/-- **node-level preservation, mappings, every call.** -/
theorem mapStep_wp (n : Node) (hw : wp n = true) (op : MapOp) (hop : MapArgsWP op) (next : Nat) :
    (mapStep n op next).node.hdr = n.hdr ∧ wp (mapStep n op next).node = true := by
  have hK : KidsWP n.id n.kids := (wp_iff n).mp hw
  unfold mapStep
  cases op with
  | setitem k a => exact mapSetItem_wp n hw k a hop next
  | delitem k =>
    dsimp only
    split
    · split <;> exact ⟨rfl, hw⟩
    · split
      · split
        · exact ⟨rfl, by rw [wp_withKids]; exact kw_erase hK k⟩
        · split <;> exact ⟨rfl, hw⟩
      · split
        · exact ⟨rfl, hw⟩
        · exact ⟨rfl, hw⟩
        · split
          · exact ⟨rfl, by rw [wp_withKids]; exact kw_erase hK k⟩
          · exact ⟨rfl, hw⟩
  | pop k =>
    dsimp only
    split
    · exact ⟨rfl, hw⟩
    · split
      · exact ⟨rfl, hw⟩
      · split
        · exact ⟨rfl, hw⟩
        · split
          · exact ⟨rfl, by rw [wp_withKids]; exact kw_erase hK k⟩
          · exact ⟨rfl, hw⟩
  | popitem => dsimp only; split <;> exact ⟨rfl, hw⟩
  | clear =>
    dsimp only
    split
    · exact mapReset_wp n next
    · exact ⟨rfl, hw⟩
  | update pos kw =>
    dsimp only
    split
    · exact mapUpdatePairs_wp kw n next hw
    · split
      · exact ⟨rfl, hw⟩
      · exact ⟨rfl, hw⟩
      · rename_i kvs _
        have h1 := mapUpdatePairs_wp kvs n next hw
        split
        · exact h1
        · have h2 := mapUpdatePairs_wp kw _ (mapUpdatePairs n kvs next).next h1.2
          exact ⟨h2.1.trans h1.1, h2.2⟩
  | updateArgs kvs => exact mapUpdateArgs_wp kvs hop n next hw
  | ior raw =>
    dsimp only
    split
    · exact ⟨rfl, hw⟩
    · exact ⟨rfl, hw⟩
    · exact mapUpdatePairs_wp _ n next hw
  | setdefault k d =>
    dsimp only
    split
    · exact ⟨rfl, hw⟩
    · split
      · exact ⟨rfl, hw⟩
      · split
        · rename_i child hc
          have hcm := findKid_mem hc
          split
          · exact ⟨rfl, hw⟩
          · have hr : KidsWP n.id (replaceKid n.kids k (setNode child d none next).node) :=
              kw_replace hK k _ ⟨by rw [(parent_of_hdr (setNode_hdr child d none next)).1]; exact (hK child hcm).1,
                setNode_wp d child none next (hK child hcm).2⟩
            split <;> refine ⟨rfl, ?_⟩ <;> (try rw [excOut]) <;> rw [wp_withKids] <;> exact hr
        · split
          · exact ⟨rfl, hw⟩
          · rename_i f hf
            have hel : wp ((blank f none k next).1.withParent (some n.id)) = true := by
              rw [wp_withParent]; exact blank_wp _ _ _ _
            have hr := kw_append hK (setNode ((blank f none k next).1.withParent (some n.id)) d none (blank f none k next).2).node
              ⟨by rw [(parent_of_hdr (setNode_hdr _ d none _)).1, parent_withParent], setNode_wp d _ none _ hel⟩
            split <;> refine ⟨rfl, ?_⟩ <;> (try rw [excOut]) <;> rw [wp_withKids] <;> exact hr
  | get k => dsimp only; split <;> exact ⟨rfl, hw⟩
  | set raw pol =>
    dsimp only
    split
    · split <;> exact ⟨setNode_hdr _ _ _ _, setNode_wp _ n _ _ hw⟩
    · split <;> exact ⟨setNode_hdr _ _ _ _, setNode_wp _ n _ _ hw⟩
    · split <;> exact ⟨setNode_hdr _ _ _ _, setNode_wp _ n _ _ hw⟩
  | setDefault => dsimp only; split <;> exact ⟨setDefault_hdr _ _, setDefault_wp n next hw⟩
  | contains k => exact ⟨rfl, hw⟩
  | len => exact ⟨rfl, hw⟩


/-! ### the history theorem, for every call -/

theorem good_all (op : Op) (hop : OpArgsWP op) : Good op := by
  intro n next hw
  cases op with
  | seq o =>
    have ho : SeqArgsWP o := by
      cases o <;> first | exact hop | trivial
    have h1 := seqStep_hdr n o next
    have h2 := seqStep_wp_all n hw o ho next
    unfold nodeStep
    cases hk : n.kind <;> simp only [] <;> first | exact ⟨h1, h2⟩ | exact ⟨rfl, hw⟩
  | map o =>
    have ho : MapArgsWP o := by
      cases o <;> first | exact hop | trivial
    have h := mapStep_wp n hw o ho next
    unfold nodeStep
    cases hk : n.kind <;> simp only [] <;> first | exact h | exact ⟨rfl, hw⟩

/-- **C08_Full holds** (stored-pointer clause, every call of the model, trees of any depth). -/
theorem c08_full : C08_Full := by
  intro s hs hw hr hargs
  exact hrun_treeinv hs s (fun h hh => good_all h.op (hargs h hh)) hw hr

/-! ### navigation: `parents`, `root`, `path` — derived from the stored-pointer invariant under unique ids -/

mutual
theorem mem_nodes_trans : ∀ (r p c : Node), p ∈ nodes r → c ∈ nodes p → c ∈ nodes r
  | .mk i s kids, p, c, hp, hc => by
    rw [nodes] at hp ⊢
    rcases List.mem_cons.mp hp with h | h
    · rw [h, nodes] at hc; exact hc
    · exact List.mem_cons_of_mem _ (mem_nodesL_trans kids p c h hc)
theorem mem_nodesL_trans : ∀ (ks : List Node) (p c : Node), p ∈ nodesL ks → c ∈ nodes p → c ∈ nodesL ks
  | [], _, _, hp, _ => by simp [nodesL] at hp
  | k :: ks, p, c, hp, hc => by
    rw [nodesL] at hp ⊢
    rcases List.mem_append.mp hp with h | h
    · exact List.mem_append.mpr (.inl (mem_nodes_trans k p c h hc))
    · exact List.mem_append.mpr (.inr (mem_nodesL_trans ks p c h hc))
end

theorem self_mem_nodes (n : Node) : n ∈ nodes n := by cases n; rw [nodes]; simp

theorem mem_nodesL_of_mem {ks : List Node} {c : Node} (h : c ∈ ks) : c ∈ nodesL ks := by
  induction ks with
  | nil => cases h
  | cons k ks ih =>
    rw [nodesL]
    rcases List.mem_cons.mp h with h1 | h1
    · rw [h1]; exact List.mem_append.mpr (.inl (self_mem_nodes k))
    · exact List.mem_append.mpr (.inr (ih h1))

theorem kid_mem_nodes {p c : Node} (h : c ∈ p.kids) : c ∈ nodes p := by
  cases p with
  | mk i s kids => rw [nodes]; exact List.mem_cons_of_mem _ (mem_nodesL_of_mem h)

theorem anc_mem_nodes {root x : Node} {as : List Node} (h : Anc root x as) : x ∈ nodes root := by
  induction h with
  | root => exact self_mem_nodes root
  | kid _ hc ih => exact mem_nodes_trans _ _ _ ih (kid_mem_nodes hc)

theorem eq_of_nodup_map_id {l : List Node} (hn : (l.map Node.id).Nodup) {a b : Node} (ha : a ∈ l) (hb : b ∈ l)
    (h : a.id = b.id) : a = b := by
  induction l with
  | nil => cases ha
  | cons x xs ih =>
    simp only [List.map_cons, List.nodup_cons, List.mem_map, not_exists, not_and] at hn
    rcases List.mem_cons.mp ha with ha | ha <;> rcases List.mem_cons.mp hb with hb | hb
    · rw [ha, hb]
    · exact absurd (ha ▸ h).symm (hn.1 b hb)
    · exact absurd (hb ▸ h) (hn.1 a ha)
    · exact ih hn.2 ha hb

/-- with unique ids a stored pointer designates exactly one object of the tree -/
theorem deref_eq {root p : Node} (hu : UniqueIds root) (hp : p ∈ nodes root) : deref [root] p.id = some p := by
  unfold deref
  simp only [List.flatMap_cons, List.flatMap_nil, List.append_nil]
  cases hf : (nodes root).find? (fun n => n.id == p.id) with
  | none =>
    have := List.find?_eq_none.mp hf p hp
    simp at this
  | some q =>
    have hq := List.mem_of_find?_eq_some hf
    have hid : q.id = p.id := by simpa using List.find?_some hf
    rw [eq_of_nodup_map_id hu hq hp hid]

theorem parentsOf_eq {root : Node} (hw : wp root = true) (hr : root.parent = none) (hu : UniqueIds root)
    {x : Node} {as : List Node} (h : Anc root x as) : ∀ fuel, as.length ≤ fuel → parentsOf [root] fuel x = as := by
  induction h with
  | root =>
    intro fuel _
    cases fuel with
    | zero => rfl
    | succ f => simp [parentsOf, hr]
  | @kid p c as' hp hc ih =>
    intro fuel hf
    cases fuel with
    | zero => simp at hf
    | succ f =>
      have hcp : c.parent = some p.id := ((wp_iff _).mp (wp_of_anc hp hw) c hc).1
      rw [parentsOf]
      simp only [hcp, deref_eq hu (anc_mem_nodes hp)]
      rw [ih f (by simpa using hf)]

/-- **navinv_of_wp.**  In a well-parented tree with unique ids whose root has no parent,
    `parents`, `root` and `path` of every node are what the shape of the tree says. -/
theorem navinv_of_wp {root : Node} (hw : wp root = true) (hr : root.parent = none) (hu : UniqueIds root) :
    NavInv root := by
  intro x as h fuel hf
  have hp := parentsOf_eq hw hr hu h fuel hf
  refine ⟨hp, ?_, by rw [pathOf, hp]⟩
  rw [rootOf, hp]
  rcases anc_last h with ⟨h1, h2⟩ | h1
  · rw [h1, h2]; rfl
  · rw [h1]; rfl


/-! ### construction routes -/

/-- **inv_init.**  Every construction route of the model yields a well-parented tree whose root
    has no parent: `schema()`, `schema(value)` (when it does not raise), `schema.from_defaults()`,
    and `set(value)` / `set_default()` on such a tree. -/
theorem inv_init (s : Schema) (key : Str) (next : Nat) :
    (wp (blank s none key next).1 = true ∧ (blank s none key next).1.parent = none) ∧
    (∀ raw e n1, construct s raw none key next = (.ok e, n1) → wp e = true ∧ e.parent = none) ∧
    (wp (fromDefaults s none key next).node = true ∧ (fromDefaults s none key next).node.parent = none) ∧
    (∀ (n : Node) raw pol nx, wp n = true → n.parent = none →
        wp (setNode n raw pol nx).node = true ∧ (setNode n raw pol nx).node.parent = none) ∧
    (∀ (n : Node) nx, wp n = true → n.parent = none →
        wp (setDefault n nx).node = true ∧ (setDefault n nx).node.parent = none) := by
  refine ⟨⟨blank_wp _ _ _ _, (hdr_id_parent (blank_hdr s none key next)).2⟩, ?_, ?_, ?_, ?_⟩
  · intro raw e n1 h
    exact ⟨construct_wp s raw none key next e n1 h, (hdr_id_parent (construct_hdr s raw none key next e (by rw [h]))).2⟩
  · exact ⟨fromDefaults_wp _ _ _ _, (hdr_id_parent (fromDefaults_hdr s none key next)).2⟩
  · intro n raw pol nx hw hp
    exact ⟨setNode_wp raw n pol nx hw, by rw [(parent_of_hdr (setNode_hdr n raw pol nx)).1]; exact hp⟩
  · intro n nx hw hp
    exact ⟨setDefault_wp n nx hw, by rw [(parent_of_hdr (setDefault_hdr n nx)).1]; exact hp⟩

/-! ### non-vacuity -/

def exDictS2 : Schema := .mk { cid := 10, kind := .dict, name := some ['d'] } .none
  [.mk { cid := 11, kind := .integer, name := some ['x'] } .none [], .mk { cid := 12, kind := .list, name := some ['y'] } .none [exI]]
def exLoD : Schema := .mk { cid := 13, kind := .list } .none [exDictS2]
/-- `List.of(Dict.of(Integer.named('x'), List.named('y').of(Integer)))()` -/
def exRoot : Node := (blank exLoD none [] 1).1

/-- plain values wrapped by a Dict member schema, a nested target, a dict-protocol call, `*=`, `set` -/
def exHist2 : List HOp :=
  [⟨1, .seq (.append (.plain (.dict [(['x'], .int 1), (['y'], .list [.int 2, .int 3])])))⟩,
   ⟨1, .seq (.imul 2)⟩,
   ⟨3, .map (.setitem ['y'] (.plain (.list [.int 7])))⟩,
   ⟨3, .map (.ior (.dict [(['x'], .str ['9'])]))⟩,
   ⟨1, .seq (.insert 0 (.elem (.mk { id := 900, parent := some 77 } exDictS2 [])))⟩,
   ⟨1, .seq (.set (.list [.dict [(['x'], .int 5), (['y'], .list [])]]))⟩]

example : TreeInv (hrun ⟨exRoot, 2⟩ exHist2).root :=
  c08_full ⟨exRoot, 2⟩ exHist2 (blank_wp _ _ _ _) rfl (by
    intro h hh
    simp only [exHist2, List.mem_cons, List.not_mem_nil, or_false] at hh
    rcases hh with rfl | rfl | rfl | rfl | rfl | rfl <;> first | trivial | (show wp _ = true; decide))

example : (ids (hrun ⟨exRoot, 2⟩ exHist2).root).length = 5 := by decide

end Flatland.C08.Proofs
