/-
C07 on the tree model — everything the constructors and element-level mutators build is deep
positional (`dps`): `schema(parent=…)` (in the base file), `element.set(raw)`, `schema(value)`,
`from_defaults`, `set_default`.  Mirror of `Proofs/C08Build.lean`.
-/
import Proofs.C07TreeInvBase
namespace Flatland.C07Tree.Proofs.Inv
open Flatland.Tree Flatland.PyList Flatland.C08 Flatland.C07Tree
open Flatland.C09.Proofs (WellNumbered wn_nil wn_renumber wn_append wn_set wn_attachAll wn_appendEl
  wn_extendArgs wn_setNode wn_defaultSlots wn_setDefault wn_imulLoop positional_step)
open Flatland.C08.Proofs (mem_replaceKid' findKid_mem)

theorem dictPrep_error_dps (i : NInfo) (s : Schema) (kvs pol next) (r : SetR) (hm : s.kind ≠ .list)
    (hr : dictPrep i s kvs pol next = .error r) : dps r.node = true := by
  simp only [dictPrep] at hr
  cases hp : policyCheck (pol.getD s.info.policy) s.subs kvs with
  | ok u => simp [hp] at hr
  | error e =>
    simp [hp] at hr; subst hr
    rw [dps_mk_notList _ _ _ hm]
    split
    · exact blankFields_dps _ _ _ _
    · split
      · exact blankFields_dps _ _ _ _
      · intro x hx; cases hx

theorem dictPrep_ok_dps (i : NInfo) (s : Schema) (kvs pol next) (fresh : List Node) (n1 : Nat)
    (hr : dictPrep i s kvs pol next = .ok (fresh, n1)) : ∀ k ∈ fresh, dps k = true := by
  simp only [dictPrep] at hr
  cases hp : policyCheck (pol.getD s.info.policy) s.subs kvs with
  | error e => simp [hp] at hr
  | ok u =>
    simp [hp] at hr
    have h2 := congrArg Prod.fst hr
    simp only at h2
    rw [← h2]
    split
    · exact blankFields_dps _ _ _ _
    · split
      · exact blankFields_dps _ _ _ _
      · intro x hx; cases hx

theorem forall_replaceKid {kids : List Node} (h : ∀ k ∈ kids, dps k = true) (k : Str) (new : Node)
    (hn : dps new = true) : ∀ x ∈ replaceKid kids k new, dps x = true := by
  intro x hx
  rcases mem_replaceKid' hx with h1 | h1
  · exact h x h1
  · rw [h1]; exact hn

theorem forall_append {kids : List Node} (h : ∀ k ∈ kids, dps k = true) (new : Node)
    (hn : dps new = true) : ∀ x ∈ kids ++ [new], dps x = true := by
  intro x hx
  rcases List.mem_append.mp hx with h1 | h1
  · exact h x h1
  · simp only [List.mem_singleton] at h1; rw [h1]; exact hn

mutual
/-- `element.set(raw)` keeps a deep-positional element deep positional -/
theorem setNode_dps : ∀ (raw : Raw) (n : Node) (pol : Option Policy) (next : Nat), dps n = true →
    dps (setNode n raw pol next).node = true
  | raw, .mk i s kids, pol, next, hw => by
    have hsc : ∀ (i' : NInfo), dps (.mk i' s kids) = true := fun i' => (dps_ni i' i s kids).trans hw
    have hfresh : ∀ kvs, s.kind ≠ .list → dps (match dictPrep i s kvs pol next with
        | .error r => r
        | .ok (fresh, next1) => (⟨.mk i s fresh, next1, .ok true⟩ : SetR)).node = true := by
      intro kvs hm
      split
      · rename_i r hr; exact dictPrep_error_dps _ _ _ _ _ r hm hr
      · rename_i fresh n1 hr; rw [dps_mk_notList _ _ _ hm]; exact dictPrep_ok_dps _ _ _ _ _ fresh n1 hr
    have hseq : ∀ (xs : List Raw) (m : Schema), (∀ v ∈ (buildItems m xs next).1, dps v = true) →
        dps (attachAll (Node.mk i s []) (buildItems m xs next).1 (buildItems m xs next).2.1).1 = true := by
      intro xs m hb
      exact attachAll_dps _ _ _ (dps_mk_nil i s) hb
    cases raw with
    | none =>
      unfold setNode
      split
      · split <;> first | exact hsc _ | exact hw
      · split <;> first | exact hsc _ | exact hw
      · exact hw
      · split <;> exact dps_mk_nil _ _
      · split <;> exact dps_mk_nil _ _
      · split <;> exact dps_mk_nil _ _
      · exact hw
      · exact hw
    | int v =>
      unfold setNode
      split
      · split <;> first | exact hsc _ | exact hw
      · split <;> first | exact hsc _ | exact hw
      · exact hw
      · split <;> exact dps_mk_nil _ _
      · split <;> exact dps_mk_nil _ _
      · split <;> exact dps_mk_nil _ _
      · exact hw
      · exact hw
    | str v =>
      unfold setNode
      split
      · split <;> first | exact hsc _ | exact hw
      · split <;> first | exact hsc _ | exact hw
      · exact hw
      · split <;> exact dps_mk_nil _ _
      · split <;> exact dps_mk_nil _ _
      · split <;> exact dps_mk_nil _ _
      · rename_i hk
        cases v with
        | nil => exact hfresh [] (by rw [hk]; decide)
        | cons c cs => exact hw
      · rename_i hk
        cases v with
        | nil => exact hfresh [] (by rw [hk]; decide)
        | cons c cs => exact hw
    | list xs =>
      unfold setNode
      split
      · split <;> first | exact hsc _ | exact hw
      · split <;> first | exact hsc _ | exact hw
      · exact hw
      · split
        · exact dps_mk_nil _ _
        · dsimp only
          split
          · exact hseq xs _ (buildItems_dps xs _ next)
          · exact dps_mk_nil _ _
          · exact dps_mk_nil _ _
      · split
        · exact dps_mk_nil _ _
        · dsimp only
          split
          · exact hseq xs _ (buildItems_dps xs _ next)
          · exact dps_mk_nil _ _
          · exact dps_mk_nil _ _
      · split
        · exact dps_mk_nil _ _
        · dsimp only
          split
          · exact hseq xs _ (buildItems_dps xs _ next)
          · exact dps_mk_nil _ _
          · exact dps_mk_nil _ _
      · rename_i hk
        cases xs with
        | nil => exact hfresh [] (by rw [hk]; decide)
        | cons c cs => exact hw
      · rename_i hk
        cases xs with
        | nil => exact hfresh [] (by rw [hk]; decide)
        | cons c cs => exact hw
    | dict kvs =>
      unfold setNode
      split
      · split <;> first | exact hsc _ | exact hw
      · split <;> first | exact hsc _ | exact hw
      · exact hw
      · split <;> exact dps_mk_nil _ _
      · split <;> exact dps_mk_nil _ _
      · split <;> exact dps_mk_nil _ _
      · rename_i hk
        have hm : s.kind ≠ .list := by rw [hk]; decide
        dsimp only
        split
        · rename_i r hr; exact dictPrep_error_dps _ _ _ _ _ r hm hr
        · rename_i fresh n1 hr
          rw [dps_mk_notList _ _ _ hm]
          exact setPairs_dps kvs i.id s.subs fresh n1 (dictPrep_ok_dps _ _ _ _ _ fresh n1 hr)
      · rename_i hk
        have hm : s.kind ≠ .list := by rw [hk]; decide
        dsimp only
        split
        · rename_i r hr; exact dictPrep_error_dps _ _ _ _ _ r hm hr
        · rename_i fresh n1 hr
          rw [dps_mk_notList _ _ _ hm]
          exact setPairs_dps kvs i.id s.subs fresh n1 (dictPrep_ok_dps _ _ _ _ _ fresh n1 hr)
    | pairs kvs =>
      unfold setNode
      split
      · split <;> first | exact hsc _ | exact hw
      · split <;> first | exact hsc _ | exact hw
      · exact hw
      · split <;> exact dps_mk_nil _ _
      · split <;> exact dps_mk_nil _ _
      · split <;> exact dps_mk_nil _ _
      · rename_i hk
        have hm : s.kind ≠ .list := by rw [hk]; decide
        dsimp only
        split
        · rename_i r hr; exact dictPrep_error_dps _ _ _ _ _ r hm hr
        · rename_i fresh n1 hr
          rw [dps_mk_notList _ _ _ hm]
          exact setPairs_dps kvs i.id s.subs fresh n1 (dictPrep_ok_dps _ _ _ _ _ fresh n1 hr)
      · rename_i hk
        have hm : s.kind ≠ .list := by rw [hk]; decide
        dsimp only
        split
        · rename_i r hr; exact dictPrep_error_dps _ _ _ _ _ r hm hr
        · rename_i fresh n1 hr
          rw [dps_mk_notList _ _ _ hm]
          exact setPairs_dps kvs i.id s.subs fresh n1 (dictPrep_ok_dps _ _ _ _ _ fresh n1 hr)
theorem buildItems_dps : ∀ (xs : List Raw) (m : Schema) (next : Nat), ∀ v ∈ (buildItems m xs next).1, dps v = true
  | [], _, _ => by intro v hv; simp [buildItems] at hv
  | x :: xs, m, next => by
    rw [buildItems]
    dsimp only
    split
    · intro v hv; cases hv
    · split
      · intro v hv; cases hv
      · intro v hv
        rcases List.mem_cons.mp hv with h | h
        · rw [h]; exact setNode_dps x _ none _ (blank_dps m none [] next)
        · exact buildItems_dps xs m _ v h
theorem setPairs_dps : ∀ (kvs : List (Str × Raw)) (pid : Nat) (subs : List Schema) (kids : List Node) (next : Nat),
    (∀ k ∈ kids, dps k = true) → ∀ k ∈ (setPairs pid subs kids kvs next).1, dps k = true
  | [], _, _, _, _, h => by simpa [setPairs] using h
  | (k, v) :: rest, pid, subs, kids, next, h => by
    rw [setPairs]
    split
    · exact setPairs_dps rest pid subs kids next h
    · split
      · rename_i child hc
        have hcm := findKid_mem hc
        have hrep := forall_replaceKid h k _ (setNode_dps v child none next (h child hcm))
        dsimp only
        split
        · exact hrep
        · exact setPairs_dps rest pid subs _ _ hrep
      · rename_i f _ _ _
        have hel : dps ((blank f none k next).1.withParent (some pid)) = true := by
          rw [dps_withParent]; exact blank_dps f none k next
        have happ := forall_append h _ (setNode_dps v _ none (blank f none k next).2 hel)
        dsimp only
        split
        · exact happ
        · exact setPairs_dps rest pid subs _ _ happ
end

/-- `schema(value)`: what the constructor returns is deep positional -/
theorem construct_dps (s : Schema) (raw : Raw) (parent : Option Nat) (key : Str) (next : Nat) (e : Node) (n1 : Nat)
    (h : construct s raw parent key next = (.ok e, n1)) : dps e = true := by
  unfold construct at h
  dsimp only at h
  split at h
  · cases h; exact setNode_dps raw _ none _ (blank_dps s parent key next)
  · cases h

/-- Element arguments handed to a call are deep-positional subtrees -/
def ArgDP : Arg → Prop
  | .plain _ => True
  | .elem e => dps e = true

/-- a plain value is wrapped into a deep-positional element; an Element argument is one by hypothesis -/
theorem wrap_dps (m : Schema) (a : Arg) (ha : ArgDP a) (next : Nat) (w : Node) (n1 : Nat)
    (h : wrap m a next = (.ok w, n1)) : dps w = true := by
  cases a with
  | elem e => simp only [wrap] at h; cases h; exact ha
  | plain r => exact construct_dps m r none [] next w n1 h

theorem wrapAll_dps (m : Schema) (as : List Arg) (ha : ∀ a ∈ as, ArgDP a) : ∀ (next : Nat) (ws : List Node) (n1 : Nat),
    wrapAll m as next = (.ok ws, n1) → ∀ w ∈ ws, dps w = true := by
  induction as with
  | nil => intro next ws n1 h; simp [wrapAll] at h; rw [h.1]; simp
  | cons a as ih =>
    intro next ws n1 h
    rw [wrapAll] at h
    split at h
    · cases h
    · rename_i w n2 hw
      split at h
      · cases h
      · rename_i ws' n3 hws
        cases h
        intro x hx
        rcases List.mem_cons.mp hx with h1 | h1
        · rw [h1]; exact wrap_dps m a (ha a (by simp)) next w n2 hw
        · exact ih (fun y hy => ha y (by simp [hy])) n2 ws' _ hws x h1

theorem defaultSlotsWith_dps (L : Prop) (mk : Nat → SetR) (hmk : ∀ nx, dps (mk nx).node = true) (lst : Nat) :
    ∀ (k idx next : Nat), KidsDP L (defaultSlotsWith mk lst k idx next).1 := by
  intro k
  induction k with
  | zero => intro idx next x hx; simp [defaultSlotsWith] at hx
  | succ k ih =>
    intro idx next
    rw [defaultSlotsWith]
    dsimp only
    split
    · intro x hx
      simp only [List.mem_singleton] at hx
      rw [hx]; exact item_mkSlot _ _ _ _ _ (hmk _)
    · intro x hx
      rcases List.mem_cons.mp hx with h | h
      · rw [h]; exact item_mkSlot _ _ _ _ _ (hmk _)
      · exact ih _ _ x h

theorem wn_defaultSlots' (mk : Nat → SetR) (lst : Nat) (k next : Nat) :
    WellNumbered (defaultSlotsWith mk lst k 0 next).1 := by
  unfold WellNumbered
  rw [wn_defaultSlots, List.range_eq_range']

mutual
theorem fromDefaults_dps : ∀ (s : Schema) (parent : Option Nat) (key : Str) (next : Nat),
    dps (fromDefaults s parent key next).node = true
  | .mk info dflt subs, parent, key, next => by
    have hb := blank_dps (.mk info dflt subs) parent key next
    have hbk : (blank (.mk info dflt subs) parent key next).1.kind = info.kind :=
      kind_of_hdr (b := .mk { id := next, parent := parent, key := key } (.mk info dflt subs) [])
        (blank_hdr (.mk info dflt subs) parent key next)
    unfold fromDefaults
    dsimp only
    split
    · exact setNode_dps _ _ _ _ hb
    · exact setNode_dps _ _ _ _ hb
    · exact hb
    · split
      · exact hb
      · split
        · rename_i m ms
          rw [dps_withKids]
          exact ⟨fun _ => wn_defaultSlots' _ _ _ _,
            defaultSlotsWith_dps _ _ (fun nx => fromDefaults_dps m none [] nx) _ _ _ _⟩
        · exact hb
      · exact setNode_dps _ _ _ _ hb
    · split
      · exact hb
      · split
        · split
          · exact attachAll_dps _ _ _ hb (buildItems_dps _ _ _)
          · exact hb
        · exact hb
      · exact hb
    · split
      · exact hb
      · split
        · split
          · exact attachAll_dps _ _ _ hb (buildItems_dps _ _ _)
          · exact hb
        · exact hb
      · exact hb
    · rename_i hk
      split
      · rw [dps_withKids_notList _ _ (by rw [hbk, hk]; decide)]
        exact defaultFields_dps subs _ false _
      · exact setNode_dps _ _ _ _ hb
    · rename_i hk
      split
      · split
        · rw [dps_withKids_notList _ _ (by rw [hbk, hk]; decide)]
          exact defaultFields_dps subs _ true _
        · exact dps_withKids_nil _
      · exact setNode_dps _ _ _ _ hb
theorem defaultFields_dps : ∀ (subs : List Schema) (pid : Nat) (b : Bool) (next : Nat),
    ∀ k ∈ (defaultFields subs pid b next).1, dps k = true
  | [], _, _, _ => by intro x hx; simp [defaultFields] at hx
  | f :: fs, pid, b, next => by
    rw [defaultFields]
    split
    · exact defaultFields_dps fs pid b next
    · have hfd := fromDefaults_dps f (some pid) f.key next
      dsimp only
      split
      · intro x hx
        rcases List.mem_cons.mp hx with h | h
        · rw [h]
          split
          · exact blank_dps _ _ _ _
          · exact hfd
        · exact blankFields_dps fs pid b _ x h
      · intro x hx
        rcases List.mem_cons.mp hx with h | h
        · rw [h]; exact hfd
        · exact defaultFields_dps fs pid b _ x h
end

mutual
theorem setDefault_dps : ∀ (n : Node) (next : Nat), dps n = true → dps (setDefault n next).node = true
  | .mk i s kids, next, hw => by
    unfold setDefault
    split
    · exact setNode_dps _ _ _ _ hw
    · exact setNode_dps _ _ _ _ hw
    · exact hw
    · rename_i hk
      split
      · exact hw
      · split
        · rw [dps_mk_iff]
          exact ⟨fun _ => wn_defaultSlots' _ _ _ _,
            defaultSlotsWith_dps _ _ (fun nx => fromDefaults_dps _ none [] nx) _ _ _ _⟩
        · exact hw
      · exact setNode_dps _ _ _ _ hw
    · split
      · exact hw
      · split
        · dsimp only
          split
          · exact attachAll_dps _ (.mk i s []) _ (dps_mk_nil i s) (buildItems_dps _ _ _)
          · exact dps_mk_nil _ _
        · exact hw
      · exact hw
    · split
      · exact hw
      · split
        · dsimp only
          split
          · exact attachAll_dps _ (.mk i s []) _ (dps_mk_nil i s) (buildItems_dps _ _ _)
          · exact dps_mk_nil _ _
        · exact hw
      · exact hw
    · rename_i hk
      have hm : s.kind ≠ .list := by rw [hk]; decide
      split
      · rw [dps_mk_notList _ _ _ hm]
        exact setDefaultKids_dps kids next ((dps_mk_notList _ _ _ hm).mp hw)
      · exact setNode_dps _ _ _ _ hw
    · rename_i hk
      have hm : s.kind ≠ .list := by rw [hk]; decide
      split
      · split
        · rw [dps_mk_notList _ _ _ hm]; exact defaultFields_dps _ _ _ _
        · exact dps_mk_nil _ _
      · exact setNode_dps _ _ _ _ hw
theorem setDefaultKids_dps : ∀ (kids : List Node) (next : Nat), (∀ k ∈ kids, dps k = true) →
    ∀ k ∈ (setDefaultKids kids next).1, dps k = true
  | [], _, _ => by intro x hx; simp [setDefaultKids] at hx
  | k :: ks, next, h => by
    rw [setDefaultKids]
    have hk := setDefault_dps k next (h k (by simp))
    dsimp only
    split
    · intro x hx
      rcases List.mem_cons.mp hx with h1 | h1
      · rw [h1]; exact hk
      · exact h x (by simp [h1])
    · intro x hx
      rcases List.mem_cons.mp hx with h1 | h1
      · rw [h1]; exact hk
      · exact setDefaultKids_dps ks _ (fun y hy => h y (by simp [hy])) x h1
end

end Flatland.C07Tree.Proofs.Inv
