/-
C08 — non-vacuity of the tree theorems on a concrete tree of depth 3 (a List of Dicts, each with
an Integer and a List of Integers), built and changed by a history with plain values, a detached
populated Element argument, an in-place `set` two levels down, and removals.
-/
import Proofs.C08Tree
import Proofs.C08Detached
namespace Flatland.C08.Proofs
open Flatland.Tree Flatland.PyList Flatland.C08 Flatland.C08.Spec

/-! ### non-vacuity: a List of Dicts, each with an Integer and a List of Integers (depth 3) -/

/-- the empty `List.of(Dict.of(Integer.named('x'), List.named('y').of(Integer)))()`, counter at 1000 -/
def exS0 : HState := ⟨exRoot, 1000⟩

/-- a detached, populated Dict element (stale parent pointer 77), identities 900 / 901 -/
def exArg : Node := .mk { id := 900, parent := some 77 } exDictS2
  [.mk { id := 901, parent := some 900, key := ['x'] } (.mk { cid := 11, kind := .integer, name := some ['x'] } .none []) []]

def exHist3 : List HOp :=
  [⟨1, .seq (.append (.plain (.dict [(['x'], .int 1), (['y'], .list [.int 2, .int 3])])))⟩,
   ⟨1, .seq (.append (.plain (.dict [(['x'], .int 4), (['y'], .list [.int 5])])))⟩,
   ⟨1, .seq (.insert 0 (.elem exArg))⟩,
   ⟨1004, .seq (.setitem 0 (.plain (.int 9)))⟩,
   ⟨1000, .map (.set (.dict [(['x'], .int 6), (['y'], .list [.int 7])]) none)⟩]

theorem exS0_ok : TreeOK exS0 :=
  ⟨by decide, rfl, ⟨by unfold UniqueIds; decide, by decide, by decide⟩⟩

theorem exHist3_ok : HistOK exS0 exHist3 := by
  refine ⟨?_, ?_⟩
  · intro h hh
    simp only [exHist3, List.mem_cons, List.not_mem_nil, or_false] at hh
    rcases hh with rfl | rfl | rfl | rfl | rfl <;> first | trivial | (show wp _ = true; decide)
  · exact ⟨⟨by decide, by decide, by decide⟩, ⟨by decide, by decide, by decide⟩, ⟨by decide, by decide, by decide⟩,
      ⟨by decide, by decide, by decide⟩, ⟨by decide, by decide, by decide⟩, trivial⟩

/-- the state after the history -/
def exS3 : HState := hrun exS0 exHist3

example : (ids exS3.root).length = 16 := by decide
example : (children exS3.root).map Node.id = [900, 1000, 1010] := by decide

/-- root (1) → slot 1009 → Dict 1000 → List 'y' 1020 → slot 1022 → Integer 1021 -/
def exSlot1 : Node := exS3.root.kids[1]'(by decide)
def exDict : Node := exSlot1.kids[0]'(by decide)
def exY : Node := exDict.kids[1]'(by decide)
def exYSlot : Node := exY.kids[0]'(by decide)
def exInt : Node := exYSlot.kids[0]'(by decide)

example : (exDict.id, exY.id, exInt.id) = (1000, 1020, 1021) := by decide

theorem exDict_child : exDict ∈ children exS3.root := by
  rw [children_list (by decide)]
  exact List.mem_flatMap.mpr ⟨exSlot1, List.getElem_mem _, List.getElem_mem _⟩
theorem exY_child : exY ∈ children exDict := by
  rw [children_kids (.inr (.inr (.inl (by decide))))]; exact List.getElem_mem _
theorem exInt_child : exInt ∈ children exY := by
  rw [children_list (by decide)]
  exact List.mem_flatMap.mpr ⟨exYSlot, List.getElem_mem _, List.getElem_mem _⟩
theorem exY_mem : exY ∈ nodes exS3.root :=
  mem_nodes_trans _ _ _ (mem_nodes_trans _ _ _ (kid_mem_nodes (List.getElem_mem _)) (kid_mem_nodes (List.getElem_mem _)))
    (kid_mem_nodes (List.getElem_mem _))

/-- `c08_tree_inv`: the hypotheses hold for the history above -/
theorem exS3_ok : TreeOK exS3 := c08_tree_inv exHist3 exS0 exS0_ok exHist3_ok

/-- `hrun_idinv`, `navinv_hrun`, `allChildren_hrun` on that history -/
example : IdInv exS3 := hrun_idinv exHist3 exS0 exS0_ok.ids exHist3_ok.2
example : NavInv exS3.root := navinv_hrun exS0 exHist3 exS0_ok exHist3_ok
example : AllChildrenSpec exS3.root := allChildren_hrun exS0 exHist3 exS0_ok exHist3_ok

/-- `all_children` of the root lists the Integer three levels down (identity 1021, built by the
    last `set`): it is reachable and is not the root -/
example : exInt ∈ allChildren exS3.root :=
  ((allChildren_hrun exS0 exHist3 exS0_ok exHist3_ok).2.2.2.1 exInt).mpr
    ⟨exY, .child (.child .root exDict_child) exY_child, exInt_child⟩

/-- `hstep_idinv`: one more call with a fresh Element argument -/
example : IdInv (hstep exS3 ⟨1, .seq (.append (.elem (.mk { id := 950, parent := none } exDictS2 [])))⟩) :=
  hstep_idinv _ _ exS3_ok.ids ⟨by decide, by decide, by decide⟩

/-- an argument that is already in the tree is NOT fresh: the hypothesis of `hstep_idinv` fails
    (aliasing is outside the quantifier), and so does an argument above the counter -/
example : ¬ ArgsFresh exS3 (.seq (.append (.elem exArg))) := by
  intro h; exact absurd h.1 (by decide)
example : ¬ ArgsFresh exS3 (.seq (.append (.elem (.mk { id := 5000, parent := none } exDictS2 [])))) := by
  intro h; exact absurd (h.2.1 5000 (by decide)) (by decide)

/-! `removed_unreachable`: `pop(1)` on the root List removes the Dict with identity 1000 -/

def exPop : HOp := ⟨1, .seq (.pop (some 1))⟩

example : exDict.id ∉ ids (hstep exS3 exPop).root ∧ ∀ x, Reach (hstep exS3 exPop).root x → x.id ≠ exDict.id :=
  (removed_unreachable exS3 exPop exS3_ok.ids ⟨by decide, by decide, by decide⟩ exS3.root
    (self_mem_nodes _) rfl).2 exDict exDict_child (by decide)

/-- `detached_unreachable`: the slot `pop(1)` returns, the Dict it holds and everything below are gone -/
example : ∀ a ∈ [1009, 1000, 1019, 1020, 1022, 1021], a ∉ ids (hstep exS3 exPop).root := by
  have h := detached_unreachable exS3 exPop exS3_ok.ids ⟨by decide, by decide, by decide⟩ exS3.root (self_mem_nodes _) rfl
    ((nodeStep exS3.root exPop.op exS3.next).detached[0]'(by decide)) (List.getElem_mem _)
  intro a ha
  exact (h a (by revert a; decide) (by revert a; decide)).1

/-- the same theorem two levels down: `del y[0]` on the List inside the Dict; and `set` on that
    List rebuilding its members -/
example : exInt.id ∉ ids (hstep exS3 ⟨1020, .seq (.delitem 0)⟩).root :=
  ((removed_unreachable exS3 ⟨1020, .seq (.delitem 0)⟩ exS3_ok.ids ⟨by decide, by decide, by decide⟩ exY exY_mem
    (by decide)).2 exInt exInt_child (by decide)).1

example : exInt.id ∉ ids (hstep exS3 ⟨1020, .seq (.set (.list [.int 1, .int 2]))⟩).root :=
  ((removed_unreachable exS3 ⟨1020, .seq (.set (.list [.int 1, .int 2]))⟩ exS3_ok.ids ⟨by decide, by decide, by decide⟩
    exY exY_mem (by decide)).2 exInt exInt_child (by decide)).1

/-! `placed_is_child`: the detached Dict `exArg` inserted at the front of the root List (third
    call of the history), and an Integer element assigned into the List two levels down -/

def exS2 : HState := hrun exS0 (exHist3.take 2)

example : PlacedIn (nodeStep exS2.root (.seq (.insert 0 (.elem exArg))) exS2.next).node exArg :=
  (placed_is_child exS2 ⟨1, .seq (.insert 0 (.elem exArg))⟩
    (c08_tree_inv (exHist3.take 2) exS0 exS0_ok ⟨fun h hh => exHist3_ok.1 h (List.mem_of_mem_take hh),
      ⟨exHist3_ok.2.1, exHist3_ok.2.2.1, trivial⟩⟩).ids
    (c08_tree_inv (exHist3.take 2) exS0 exS0_ok ⟨fun h hh => exHist3_ok.1 h (List.mem_of_mem_take hh),
      ⟨exHist3_ok.2.1, exHist3_ok.2.2.1, trivial⟩⟩).wp
    exS2.root (self_mem_nodes _) rfl exArg ⟨.inl (by decide), by simp [placedSeq, argElems]⟩ (by decide)).2.2.1

def exNewInt : Node := .mk { id := 960, parent := none, val := .int 8, u := ['8'] } exI []

example : PlacedIn (nodeStep exY (.seq (.setitem 0 (.elem exNewInt))) exS3.next).node exNewInt :=
  (placed_is_child exS3 ⟨1020, .seq (.setitem 0 (.elem exNewInt))⟩ exS3_ok.ids exS3_ok.wp exY exY_mem (by decide)
    exNewInt ⟨.inl (by decide), by simp [placedSeq, argElems]⟩ (by decide)).2.2.1

/-! a SparseDict: `sparse['b'] = element` and `sparse.update(...)` store the element itself -/

def exBField : Schema := .mk { cid := 22, kind := .array, name := some ['b'] } .none [exI]
def exSparseS : Schema := .mk { cid := 20, kind := .sparse, name := some ['s'] } .none
  [.mk { cid := 21, kind := .integer, name := some ['a'] } .none [], exBField]
def exSparse : HState := ⟨(blank exSparseS none [] 1).1, 100⟩
def exArr : Node := .mk { id := 50, parent := none } exBField
  [.mk { id := 51, parent := some 50, val := .int 3, u := ['3'] } exI []]

theorem exSparse_ok : TreeOK exSparse := ⟨by decide, rfl, ⟨by unfold UniqueIds; decide, by decide, by decide⟩⟩

example : PlacedIn (nodeStep exSparse.root (.map (.setitem ['b'] (.elem exArr))) 100).node exArr :=
  (placed_is_child exSparse ⟨1, .map (.setitem ['b'] (.elem exArr))⟩ exSparse_ok.ids exSparse_ok.wp exSparse.root
    (self_mem_nodes _) rfl exArr ⟨rfl, by decide, exBField, rfl, by decide⟩ (by decide)).2.2.1

example : PlacedIn (nodeStep exSparse.root
    (.map (.updateArgs [(['a'], .plain (.int 1)), (['b'], .elem exArr), (['a'], .plain (.int 2))])) 100).node exArr :=
  (placed_is_child exSparse ⟨1, .map (.updateArgs [(['a'], .plain (.int 1)), (['b'], .elem exArr), (['a'], .plain (.int 2))])⟩
    exSparse_ok.ids exSparse_ok.wp exSparse.root (self_mem_nodes _) rfl exArr
    ⟨by decide, [(['a'], .plain (.int 1))], [(['a'], .plain (.int 2))], ['b'], exBField, rfl, by decide, rfl, by decide⟩
    (by decide)).2.2.1

/-- and the identity invariant survives that call -/
example : IdInv (hstep exSparse ⟨1, .map (.setitem ['b'] (.elem exArr))⟩) :=
  hstep_idinv _ _ exSparse_ok.ids ⟨by decide, by decide, by decide⟩

/-! ### the hypotheses are needed: concrete counter-examples on the model -/

/-- `ArgsFresh` without its key clause (no Element arguments here anyway) -/
def ArgsFresh' (s : HState) (op : Op) : Prop :=
  ((placedArgs op).flatMap ids ++ ids s.root).Nodup ∧ (∀ a ∈ (placedArgs op).flatMap ids, a < s.next)

def exDup : HState :=
  ⟨.mk { id := 1, parent := none } (.mk { cid := 30, kind := .dict } .none [.mk { cid := 31, kind := .integer, name := some ['x'] } .none []])
    [.mk { id := 2, parent := some 1, key := ['x'] } (.mk { cid := 31, kind := .integer, name := some ['x'] } .none []) [],
     .mk { id := 3, parent := some 1, key := ['x'] } (.mk { cid := 31, kind := .integer, name := some ['x'] } .none []) []], 10⟩

/-- **without `kok` uniqueness is not preserved.**  A mapping node holding two children under one
    key (a state the model's type allows and Python's dict does not): `d['x'] = 5` overwrites
    both with the updated first child — identities unique and below the counter before, the
    element with identity 2 stored twice after. -/
theorem uniqueIds_needs_keys :
    UniqueIds exDup.root ∧ (∀ a ∈ ids exDup.root, a < exDup.next) ∧ wp exDup.root = true ∧ kok exDup.root = false ∧
      ArgsFresh' exDup (.map (.setitem ['x'] (.plain (.int 5)))) ∧
      ids (hstep exDup ⟨1, .map (.setitem ['x'] (.plain (.int 5)))⟩).root = [1, 2, 2] := by
  refine ⟨by unfold UniqueIds; decide, by decide, by decide, by decide, ⟨by decide, by decide⟩, by decide⟩

def exLow : HState := ⟨(blank exLS none [] 1).1, 5⟩

/-- **an Element argument at or above the counter collides with the next allocation**: appending an
    element with identity 5 to a List while the counter is 5 gives its new slot identity 5 too. -/
theorem uniqueIds_needs_below :
    IdInv exLow ∧ ids (hstep exLow ⟨1, .seq (.append (.elem (.mk { id := 5, parent := none } exI [])))⟩).root = [1, 5, 5] :=
  ⟨⟨by unfold UniqueIds; decide, by decide, by decide⟩, by decide⟩

/-- **aliasing**: an argument that is already in the tree is stored a second time by the model
    (the real object would move); outside the property's quantifier -/
theorem uniqueIds_needs_fresh :
    ¬ UniqueIds (hstep exS3 ⟨1, .seq (.append (.elem exDict))⟩).root := by
  unfold UniqueIds; decide

end Flatland.C08.Proofs
