/-
C09 — the literal readings of the statement that are false of the code (with witnesses), and
non-vacuity examples for the refinement theorems of Proofs/C09.lean on concrete histories.
-/
import Proofs.C09
import Proofs.C09Positional
namespace Flatland.C09.Proofs
open Flatland.Tree Flatland.PyList Flatland.C09 Flatland.C09.Spec

/-! ### the literal reading of the statement, and why it is only partly true

`C09_Full`: the same refinement with a member abstracted to its `.value` alone ("a plain Python
list … on the adapted values").  False of the code: `Element.__eq__` compares `(value, u)`, so
a member holding unadaptable text (value None, u = the text) is not found by `None`
(finding KF-C09-a).  `step_refines` above is the strongest true version: the abstraction keeps
`u` next to `value`; for adaptable inputs `u` is a function of `value` and the two coincide. -/

def sigVal : Sig → Val | .sc v _ => v | _ => .none

def valItems (n : Node) : List Val := (items n).map sigVal

def outV : Out → ROut Val
  | .ok => .ok | .exc e => .exc e | .nat n => .nat n | .bool b => .bool b
  | .node x => .item (sigVal (sig x)) | .nodes xs => .items (xs.map (fun x => sigVal (sig x))) | .value _ => .ok

def adaptOpV (m : Schema) : SeqOp → Option (ROp Val)
  | .append a => some (.append (sigVal (adaptArg m a)))
  | .extend as => some (.extend (as.map (fun a => sigVal (adaptArg m a))))
  | .iadd as => some (.extend (as.map (fun a => sigVal (adaptArg m a))))
  | .insert i a => some (.insert i (sigVal (adaptArg m a)))
  | .setitem i a => some (.setitem i (sigVal (adaptArg m a)))
  | .setslice s as => some (.setslice s (as.map (fun a => sigVal (adaptArg m a))))
  | .delitem i => some (.delitem i)
  | .delslice s => some (.delslice s)
  | .pop i => some (.pop i)
  | .remove a => some (.remove (sigVal (adaptArg m a)))
  | .reverse => some .reverse
  | .len => some .len
  | .getitem i => some (.getitem i)
  | .getslice s => some (.getslice s)
  | .contains a => some (.contains (sigVal (adaptArg m a)))
  | .index a => some (.index (sigVal (adaptArg m a)))
  | .count a => some (.count (sigVal (adaptArg m a)))
  | _ => none

/-- the property as literally stated (values only) -/
def C09_Full : Prop :=
  ∀ (m : Schema) (n : Node) (op : SeqOp) (rop : ROp Val) (next : Nat),
    SeqOK m n → SeqKind n → OpOK m op → adaptOpV m op = some rop →
    valItems (seqStep n op next).node = (refStep (valItems n) rop).1 ∧
    outV (seqStep n op next).out = (refStep (valItems n) rop).2

def exInt : Schema := .mk { cid := 2, kind := .integer } .none []
def exArrS : Schema := .mk { cid := 1, kind := .array } .none [exInt]
/-- `Array.of(Integer)(['abc', None])` -/
def exArr : Node := .mk { id := 1, parent := none } exArrS
  [.mk { id := 2, parent := some 1, val := .none, u := ['a', 'b', 'c'] } exInt [],
   .mk { id := 3, parent := some 1, val := .none, u := [] } exInt []]

theorem exArr_ok : SeqOK exInt exArr := by
  refine ⟨rfl, Or.inl rfl, ?_⟩
  intro x hx
  simp only [exArr, Node.kids, List.mem_cons, List.not_mem_nil, or_false] at hx
  rcases hx with rfl | rfl <;> rfl

/-- `a.index(None)` is 1 on the element, 0 on the list `[None, None]` of its values -/
theorem C09_full_fails : ¬ C09_Full := by
  intro hfull
  have := hfull exInt exArr (.index (.plain .none)) (.index .none) 10 exArr_ok (Or.inr (Or.inl rfl))
    (by show (adaptScalar exInt.kind .none).isSome = true; rfl) rfl
  exact absurd this.2 (by decide)

/-- dropping the scalar-member hypothesis is not possible either: `lst[i] = value` on a List
    sets the existing member in place, and a Dict member that `set()` cannot take the value
    keeps its old fields where a replacement by `member_schema(value)` would be blank
    (finding KF-C09-b). -/
def C09_FullMembers : Prop :=
  ∀ (m : Schema) (n : Node) (i : Int) (r : Raw) (next next' : Nat) (w : Node),
    n.kind = .list → n.sch.member = some m → wrap m (.plain r) next = (.ok w, next') →
    (seqStep n (.setitem i (.plain r)) next).out = .ok →
    items (seqStep n (.setitem i (.plain r)) next).node = (refStep (items n) (.setitem i (sig w))).1

def exDictS : Schema := .mk { cid := 3, kind := .dict } .none [.mk { cid := 4, kind := .integer, name := some ['x'] } .none []]
def exListS : Schema := .mk { cid := 5, kind := .list } .none [exDictS]
/-- `List.of(Dict.of(Integer.named('x')))([{'x': 1}])` -/
def exList : Node := .mk { id := 1, parent := none } exListS
  [.mk { id := 2, parent := some 1, key := ['0'] } slotSchema
    [.mk { id := 3, parent := some 2 } exDictS
      [.mk { id := 4, parent := some 3, key := ['x'], val := .int 1, u := ['1'] }
        (.mk { cid := 4, kind := .integer, name := some ['x'] } .none []) []]]]

def probe : List Sig → Val
  | [.map [(_, .sc v _)]] => v
  | _ => .str []

theorem C09_fullMembers_fails : ¬ C09_FullMembers := by
  intro hfull
  have := hfull exDictS exList 0 (.int 5) 10 12
    (.mk { id := 10, parent := none } exDictS
      [.mk { id := 11, parent := some 10, key := ['x'] } (.mk { cid := 4, kind := .integer, name := some ['x'] } .none []) []])
    rfl rfl rfl rfl
  have h2 := congrArg probe this
  exact absurd h2 (by decide)

/-! ### non-vacuity: the hypotheses of the theorems hold on concrete sequences -/

def exL2S : Schema := .mk { cid := 6, kind := .list } .none [exInt]
/-- `List.of(Integer)([1, 2])` -/
def exL2 : Node := .mk { id := 1, parent := none } exL2S
  [mkSlot 2 1 0 (.mk { id := 3, parent := none, val := .int 1, u := ['1'] } exInt []),
   mkSlot 4 1 1 (.mk { id := 5, parent := none, val := .int 2, u := ['2'] } exInt [])]

theorem exL2_ok : SeqOK exInt exL2 := by
  refine ⟨rfl, Or.inl rfl, ?_⟩
  intro x hx
  simp only [exL2, Node.kids, List.mem_cons, List.not_mem_nil, or_false] at hx
  rcases hx with rfl | rfl <;> exact itemOK_mkSlot exInt _ _ _ _ rfl

example : WellNumbered exL2.kids := by unfold WellNumbered; decide

/-- `l.insert(-1, '7')` then `l[::2] = [9, Integer(8)]`, `del l[5]` (IndexError), `l.sort(key=u, reverse)` -/
def exOps : List SeqOp :=
  [.insert (-1) (.plain (.str ['7'])),
   .setslice ⟨none, none, some 2⟩ [.plain (.int 9), .elem (.mk { id := 50, parent := none, val := .int 8, u := ['8'] } exInt [])],
   .delitem 5, .sort (some .u) true, .remove (.plain (.int 7))]

theorem exOps_ok : ∀ op ∈ exOps, OpOK exInt op ∧ (adaptOp exInt op).isSome = true := by
  intro op hop
  simp only [exOps, List.mem_cons, List.not_mem_nil, or_false] at hop
  rcases hop with rfl | rfl | rfl | rfl | rfl
  · exact ⟨by show (adaptScalar exInt.kind _).isSome = true; rfl, rfl⟩
  · refine ⟨?_, rfl⟩
    intro a ha
    simp only [List.mem_cons, List.not_mem_nil, or_false] at ha
    rcases ha with rfl | rfl
    · show (adaptScalar exInt.kind _).isSome = true; rfl
    · rfl
  · exact ⟨trivial, rfl⟩
  · exact ⟨trivial, rfl⟩
  · exact ⟨by show (adaptScalar exInt.kind _).isSome = true; rfl, rfl⟩

example : items (run ⟨exL2, 100⟩ exOps).node = [.sc (.int 9) ['9'], .sc (.int 8) ['8']] := by
  rw [(run_refines exOps exL2 100 exL2_ok (Or.inl rfl) exOps_ok).1]
  rfl

example : (run ⟨exL2, 100⟩ exOps).node.kids.map Node.key = [['0'], ['1']] := by decide

end Flatland.C09.Proofs
