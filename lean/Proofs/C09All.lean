/-
C09 — the literal readings of the statement that are false of the code (with witnesses), and
non-vacuity examples for the refinement theorems of Proofs/C09.lean on concrete histories.
-/
import Proofs.C09
import Proofs.C09Positional
namespace Flatland.C09.Proofs
open Flatland.Tree Flatland.PyList Flatland.C09 Flatland.C09.Spec

/-! ### the literal reading of the statement, and why it is only partly true

`C09_Full`: the same refinement with a member abstracted to its `.value` alone ("a plain Python
list … on the adapted values").  False of the code: `Element.__eq__` compares `(value, u)`, so
a member holding unadaptable text (value None, u = the text) is not found by `None`
(finding KF-C09-a).  `step_refines` above is the strongest true version: the abstraction keeps
`u` next to `value`; for adaptable inputs `u` is a function of `value` and the two coincide. -/

def sigVal : Sig → Val | .sc v _ => v | _ => .none

def valItems (n : Node) : List Val := (items n).map sigVal

def outV : Out → ROut Val
  | .ok => .ok | .exc e => .exc e | .nat n => .nat n | .bool b => .bool b
  | .node x => .item (sigVal (sig x)) | .nodes xs => .items (xs.map (fun x => sigVal (sig x))) | .value _ => .ok

def adaptOpV (m : Schema) : SeqOp → Option (ROp Val)
  | .append a => some (.append (sigVal (adaptArg m a)))
  | .extend as => some (.extend (as.map (fun a => sigVal (adaptArg m a))))
  | .iadd as => some (.extend (as.map (fun a => sigVal (adaptArg m a))))
  | .insert i a => some (.insert i (sigVal (adaptArg m a)))
  | .setitem i a => some (.setitem i (sigVal (adaptArg m a)))
  | .setslice s as => some (.setslice s (as.map (fun a => sigVal (adaptArg m a))))
  | .delitem i => some (.delitem i)
  | .delslice s => some (.delslice s)
  | .pop i => some (.pop i)
  | .remove a => some (.remove (sigVal (adaptArg m a)))
  | .reverse => some .reverse
  | .len => some .len
  | .getitem i => some (.getitem i)
  | .getslice s => some (.getslice s)
  | .contains a => some (.contains (sigVal (adaptArg m a)))
  | .index a => some (.index (sigVal (adaptArg m a)))
  | .count a => some (.count (sigVal (adaptArg m a)))
  | _ => none

/-- the property as literally stated (values only) -/
def C09_Full : Prop :=
  ∀ (m : Schema) (n : Node) (op : SeqOp) (rop : ROp Val) (next : Nat),
    SeqOK m n → SeqKind n → OpOK n.sch m (items n) op → adaptOpV m op = some rop →
    valItems (seqStep n op next).node = (refStep (valItems n) rop).1 ∧
    outV (seqStep n op next).out = (refStep (valItems n) rop).2

def exInt : Schema := .mk { cid := 2, kind := .integer } .none []
def exArrS : Schema := .mk { cid := 1, kind := .array } .none [exInt]
/-- `Array.of(Integer)(['abc', None])` -/
def exArr : Node := .mk { id := 1, parent := none } exArrS
  [.mk { id := 2, parent := some 1, val := .none, u := ['a', 'b', 'c'] } exInt [],
   .mk { id := 3, parent := some 1, val := .none, u := [] } exInt []]

theorem exArr_ok : SeqOK exInt exArr := by
  refine ⟨rfl, ?_⟩
  intro x hx
  simp only [exArr, Node.kids, List.mem_cons, List.not_mem_nil, or_false] at hx
  rcases hx with rfl | rfl <;> rfl

/-- `a.index(None)` is 1 on the element, 0 on the list `[None, None]` of its values -/
theorem C09_full_fails : ¬ C09_Full := by
  intro hfull
  have := hfull exInt exArr (.index (.plain .none)) (.index .none) 10 exArr_ok (Or.inr (Or.inl rfl))
    (show WrapOK exInt .none from ⟨true, rfl⟩) rfl
  exact absurd this.2 (by decide)

/-- the `SetItemOK` clause of the guard cannot be dropped: `lst[i] = value` on a List sets the
    existing member in place, and a Dict member handed a value `set()` cannot take (not
    dict-like) keeps its old fields where `member_schema(value)` is blank (finding KF-C09-b).
    `C09_FullMembers` is `step_refines` for item assignment without that clause. -/
def C09_FullMembers : Prop :=
  ∀ (m : Schema) (n : Node) (i : Int) (r : Raw) (next : Nat),
    SeqOK m n → n.kind = .list → ArgOK m (.plain r) →
    items (seqStep n (.setitem i (.plain r)) next).node =
      (refStep (items n) (.setitem i (adaptArg m (.plain r)))).1

def exDictS : Schema := .mk { cid := 3, kind := .dict } .none [.mk { cid := 4, kind := .integer, name := some ['x'] } .none []]
def exListS : Schema := .mk { cid := 5, kind := .list } .none [exDictS]
/-- `List.of(Dict.of(Integer.named('x')))([{'x': 1}])` -/
def exList : Node := .mk { id := 1, parent := none } exListS
  [.mk { id := 2, parent := some 1, key := ['0'] } slotSchema
    [.mk { id := 3, parent := some 2 } exDictS
      [.mk { id := 4, parent := some 3, key := ['x'], val := .int 1, u := ['1'] }
        (.mk { cid := 4, kind := .integer, name := some ['x'] } .none []) []]]]

theorem exList_ok : SeqOK exDictS exList := by
  refine ⟨rfl, ?_⟩
  intro x hx
  simp only [exList, Node.kids, List.mem_cons, List.not_mem_nil, or_false] at hx
  subst hx
  exact ⟨rfl, _, rfl, rfl⟩

def probe : List Sig → Val
  | [.map [(_, .sc v _)]] => v
  | _ => .str []

/-- `l[0] = 5`: the member keeps `{'x': 1}`, the reference list holds `Dict(5).value = {'x': None}` -/
theorem C09_fullMembers_fails : ¬ C09_FullMembers := by
  intro hfull
  have := hfull exDictS exList 0 (.int 5) 10 exList_ok rfl (show WrapOK exDictS (.int 5) from ⟨false, rfl⟩)
  have h2 := congrArg probe this
  exact absurd h2 (by decide)

/-- … and `5` is exactly what the guard excludes: `Dict.set(5)` does not reset -/
example : ¬ Resets exDictS (.int 5) := by
  intro h
  obtain ⟨kvs, hk⟩ := (show ∃ kvs, toPairs (.int 5) = some (some kvs) from h)
  cases hk

/-! ### non-vacuity 1: Integer members, every kind of call

`L = List.of(Integer.using(default=7)).using(default=2)`, started as `L([1, 2])`. -/

def exInt7 : Schema := .mk { cid := 7, kind := .integer } (.int 7) []
def exL2S : Schema := .mk { cid := 6, kind := .list } (.int 2) [exInt7]
def exL2 : Node := .mk { id := 1, parent := none } exL2S
  [mkSlot 2 1 0 (.mk { id := 3, parent := none, val := .int 1, u := ['1'] } exInt7 []),
   mkSlot 4 1 1 (.mk { id := 5, parent := none, val := .int 2, u := ['2'] } exInt7 [])]

theorem exL2_ok : SeqOK exInt7 exL2 := by
  refine ⟨rfl, ?_⟩
  intro x hx
  simp only [exL2, Node.kids, List.mem_cons, List.not_mem_nil, or_false] at hx
  rcases hx with rfl | rfl <;> exact itemOK_mkSlot exInt7 _ _ _ _ rfl

example : WellNumbered exL2.kids := by unfold WellNumbered; decide

/-- `l.insert(-1, '7'); l[::2] = [9, Integer(8)]; del l[5]` (IndexError); `l.sort()` (TypeError);
    `l *= 2; l.sort(key=u, reverse=True); l.remove(7); l.set(None)` (False, emptied);
    `l.set_default()` (two members from `Integer.from_defaults()`: 7, 7); `l *= 3; l.clear();
    l.append('x')` (unadaptable text); `l *= 2` (re-feeds `.u`); `l[0] = None`; `l *= 0; l += [4]` -/
def exOps : List SeqOp :=
  [.insert (-1) (.plain (.str ['7'])),
   .setslice ⟨none, none, some 2⟩ [.plain (.int 9), .elem (.mk { id := 50, parent := none, val := .int 8, u := ['8'] } exInt7 [])],
   .delitem 5, .sort none false, .imul 2, .sort (some .u) true, .remove (.plain (.int 7)),
   .set .none, .setDefault, .imul 3, .clear, .append (.plain (.str ['x'])), .imul 2]

def exOps2 : List SeqOp := exOps ++ [.setitem 0 (.plain .none), .imul 0, .iadd [.plain (.int 4)]]

theorem wrapOK_int7 (r : Raw) (h : (adaptScalar .integer r).isSome = true) : WrapOK exInt7 r :=
  (argOK_scalar exInt7 (Or.inl rfl) r).mpr h

theorem exOps2_ok : ∀ op ∈ exOps2, OpOK exL2.sch exInt7 [] op := by
  intro op hop
  simp only [exOps2, exOps, List.cons_append, List.nil_append, List.mem_cons, List.not_mem_nil, or_false] at hop
  rcases hop with rfl | rfl | rfl | rfl | rfl | rfl | rfl | rfl | rfl | rfl | rfl | rfl | rfl | rfl | rfl | rfl
  · exact wrapOK_int7 _ rfl
  · intro a ha
    simp only [List.mem_cons, List.not_mem_nil, or_false] at ha
    rcases ha with rfl | rfl
    · exact wrapOK_int7 _ rfl
    · rfl
  · trivial
  · exact Or.inl rfl
  · intro _; exact ⟨by decide, by intro s hs; cases hs⟩
  · exact ⟨(fun s hs => by cases hs), (fun h => by cases h)⟩
  · exact wrapOK_int7 _ rfl
  · trivial
  · exact ⟨rfl, true, rfl⟩
  · intro _; exact ⟨by decide, by intro s hs; cases hs⟩
  · trivial
  · exact wrapOK_int7 _ rfl
  · intro _; exact ⟨by decide, by intro s hs; cases hs⟩
  · exact ⟨wrapOK_int7 _ rfl, fun _ => rfl⟩
  · intro h; cases h
  · intro a ha
    simp only [List.mem_cons, List.not_mem_nil, or_false] at ha
    subst ha
    exact wrapOK_int7 _ rfl

theorem exOps2_keys : ∀ op ∈ exOps2, TextKeys op := by
  intro op hop
  simp only [exOps2, exOps, List.cons_append, List.nil_append, List.mem_cons, List.not_mem_nil, or_false] at hop
  rcases hop with rfl | rfl | rfl | rfl | rfl | rfl | rfl | rfl | rfl | rfl | rfl | rfl | rfl | rfl | rfl | rfl <;>
    first | trivial | exact Or.inl rfl

/-- the history up to the second `*=`: two members holding the unadaptable text 'x' -/
example : items (run ⟨exL2, 100⟩ exOps).node = [.sc .none ['x'], .sc .none ['x']] := by
  rw [(run_refines_scalar (Or.inl rfl) exOps exL2 100 exL2_ok (Or.inl rfl)
    (fun op hop => ⟨exOps2_ok op (by simp [exOps2, hop]), exOps2_keys op (by simp [exOps2, hop])⟩)).1]
  rfl

/-- the whole history: `[4]` -/
example : items (run ⟨exL2, 100⟩ exOps2).node = [.sc (.int 4) ['4']] := by
  rw [(run_refines_scalar (Or.inl rfl) exOps2 exL2 100 exL2_ok (Or.inl rfl)
    (fun op hop => ⟨exOps2_ok op hop, exOps2_keys op hop⟩)).1]
  rfl

/-- the reference list after the first nine calls: `set_default` left `[7, 7]` -/
example : refRun (items exL2) ((exOps.take 9).map (adaptOp exL2.sch exInt7)) = [.sc (.int 7) ['7'], .sc (.int 7) ['7']] := rfl
/-- … and after the first seven: `[9, 9, 8, 8, 7]` -/
example : (refRun (items exL2) ((exOps.take 7).map (adaptOp exL2.sch exInt7))).map sigVal =
    [.int 9, .int 9, .int 8, .int 8, .int 7] := rfl

example : (run ⟨exL2, 100⟩ exOps2).node.kids.map Node.key = [['0']] := by decide

/-- what the calls returned / raised: `del l[5]` IndexError, `l.sort()` TypeError, `l.set(None)` False -/
example : (seqStep (run ⟨exL2, 100⟩ (exOps.take 2)).node (.delitem 5) 200).out = .exc .indexError := rfl
example : (seqStep (run ⟨exL2, 100⟩ (exOps.take 3)).node (.sort none false) 200).out = .exc .typeError := rfl
example : (seqStep (run ⟨exL2, 100⟩ (exOps.take 7)).node (.set .none) 200).out = .bool false := rfl

/-! ### non-vacuity 2: Dict members

`List.of(Dict.of(Integer.named('x')))([{'x': 1}])`: `l.append({'x': 2}); l[0] = {'x': 5}` (dict-like:
inside the guard); `l *= 2; l.remove({'x': 2}); l[1:3] = [{'x': '7'}]; l.count({'x': 5});
l.set([{'x': 3}, {}])`; `l.pop(0)` -/

def exDOps : List SeqOp :=
  [.append (.plain (.dict [(['x'], .int 2)])),
   .setitem 0 (.plain (.dict [(['x'], .int 5)])),
   .imul 2,
   .remove (.plain (.dict [(['x'], .int 2)])),
   .setslice ⟨some 1, some 3, none⟩ [.plain (.dict [(['x'], .str ['7'])])],
   .count (.plain (.dict [(['x'], .int 5)])),
   .set (.list [.dict [(['x'], .int 3)], .dict []]),
   .pop (some 0)]

def dx (v : Val) (u : Str) : Sig := .map [(['x'], .sc v u)]

theorem exD_items3 : items (run ⟨exList, 10⟩ (exDOps.take 2)).node = [dx (.int 5) ['5'], dx (.int 2) ['2']] := rfl

theorem exD_hist : HistOK exDictS exList 10 exDOps := by
  refine ⟨⟨?_, trivial⟩, ⟨?_, trivial⟩, ⟨?_, ?_⟩, ⟨?_, trivial⟩, ⟨?_, trivial⟩, ⟨?_, trivial⟩, ⟨?_, trivial⟩,
    ⟨trivial, trivial⟩, trivial⟩
  · exact ⟨true, rfl⟩
  · exact ⟨⟨true, rfl⟩, fun _ => ⟨_, rfl⟩⟩
  · intro _
    refine ⟨by decide, ?_⟩
    intro s hs
    have hs' : s ∈ items (run ⟨exList, 10⟩ (exDOps.take 2)).node := hs
    rw [exD_items3] at hs'
    simp only [List.mem_cons, List.not_mem_nil, or_false] at hs'
    rcases hs' with rfl | rfl <;> exact ⟨true, rfl⟩
  · intro _; decide
  · exact ⟨true, rfl⟩
  · intro a ha
    simp only [List.mem_cons, List.not_mem_nil, or_false] at ha
    subst ha
    exact ⟨true, rfl⟩
  · exact ⟨true, rfl⟩
  · intro r hr
    simp only [List.mem_cons, List.not_mem_nil, or_false] at hr
    rcases hr with rfl | rfl <;> exact ⟨true, rfl⟩

/-- the final state: `[{'x': None}]` (the second member of `set([{'x': 3}, {}])`) -/
example : items (run ⟨exList, 10⟩ exDOps).node = [dx .none []] := by
  rw [(run_refines exDOps exList 10 exList_ok (Or.inl rfl) exD_hist).1]
  rfl

/-- before the `set`: `[{'x': 5}, {'x': 7}]` — `*=` doubled the list to four members, `remove` took
    the first `{'x': 2}`, the slice assignment replaced the last two members by one -/
example : refRun (items exList) ((exDOps.take 5).map (adaptOp exList.sch exDictS)) =
    [dx (.int 5) ['5'], dx (.int 7) ['7']] := rfl

/-- every member is still a Dict of the member schema -/
example : MembersTyped (run ⟨exList, 10⟩ exDOps).node :=
  members_typed (run_refines exDOps exList 10 exList_ok (Or.inl rfl) exD_hist).2
    (by exact Or.inl rfl)


/-! ### `*=` against CPython's `l *= count`

The reference operation of `*=` passes every repeated item through the re-adaptation
`re s = sig (member_schema(value = value-or-u of s))`.  Whenever the items are fixed points of
`re` — every member built from a plain value by the member schema is: e.g. all members of the
two histories above at the moment of their `*=` — it is literally CPython's `l *= count`. -/

theorem imul_fixed_is_python (l : List Sig) (c : Int) (re : Sig → Sig) (h : ∀ s ∈ l, re s = s) :
    refStep l (.imul c re) = refStep l (.imul c id) := by
  have : l.map re = l.map id := List.map_congr_left (fun s hs => by rw [h s hs]; rfl)
  simp only [refStep, this]

example : ∀ s ∈ items (run ⟨exList, 10⟩ (exDOps.take 2)).node, wrapSig exDictS (imulRaw s) = s := by
  rw [exD_items3]
  intro s hs
  simp only [List.mem_cons, List.not_mem_nil, or_false] at hs
  rcases hs with rfl | rfl <;> rfl

/-- not every reachable member is a fixed point: an Element argument carrying text that its own
    class would adapt (`Integer` with value None and u = '5', only constructible by hand) is
    re-adapted by `*=` to 5 — the reference operation says so, CPython's `*=` would repeat it -/
example : wrapSig exInt (imulRaw (.sc .none ['5'])) = .sc (.int 5) ['5'] := rfl

end Flatland.C09.Proofs
