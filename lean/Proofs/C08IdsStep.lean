/-
C08 — identity accounting for every list-protocol and dict-protocol call of the model, for a
call applied anywhere in a tree (`stepAt`), and for histories.
-/
import Proofs.C08IdsBuild
import Proofs.C08All
namespace Flatland.C08.Proofs
open Flatland.Tree Flatland.PyList Flatland.C08 Flatland.C08.Spec
open Flatland.C10.Proofs (findKid_some findKid_none fieldFor_some blankFields_ok keep replaceKid_keys hdr_parts hdr_eq_parts)

/-- a step that allocates nothing -/
theorem LS.pure (next : Nat) {old new : List Node} (hk : kokL new = true) (hc : ∀ a, cntL a new ≤ cntL a old) :
    LS next old next new :=
  ⟨Nat.le_refl _, hk, fun a => by have := hc a; omega⟩

theorem LS.renum {a b : Nat} {l0 l1 : List Node} (h : LS a l0 b l1) : LS a l0 b (Flatland.Tree.renumber l1) :=
  ⟨h.hle, kokL_renumberFrom 0 _ h.hkok, fun x => by rw [cntL_renumber]; exact h.hcnt x⟩

theorem LS.finish {a b : Nat} {l0 l1 : List Node} (c : Prop) [Decidable c] (h : LS a l0 b l1) :
    LS a l0 b (if c then renumber l1 else l1) := by
  split
  · exact h.renum
  · exact h

/-- put a new underlying list into a sequence element -/
theorem withKids_ls {n : Node} (hk : kok n = true) (hm : isMap n.kind = false) {extra ks' : List Node} {next next' : Nat}
    (h : LS next (n.kids ++ extra) next' ks') : LS next (n :: extra) next' [n.withKids ks'] := by
  cases n with
  | mk i s kids =>
    refine ⟨h.hle, ?_, fun a => ?_⟩
    · rw [kok_single, Node.withKids, kok_iff]
      exact ⟨(kok_swf hk :), fun hm' => (by have h0 : isMap s.kind = false := hm; have h1 : isMap s.kind = true := hm'; rw [h0] at h1; cases h1), (kokL_iff _).mp h.hkok⟩
    · have := h.hcnt a
      simp only [cntL_cons, cntL_nil, cnt_withKids, cnt_mk, cntL_append, Node.kids, Node.id, Node.ni] at this ⊢
      omega

/-- the same for a mapping: the new children must have distinct keys -/
theorem withKids_ls_map {n : Node} (hk : kok n = true) {extra ks' : List Node} {next next' : Nat}
    (hkeys : (ks'.map Node.key).Nodup)
    (h : LS next (n.kids ++ extra) next' ks') : LS next (n :: extra) next' [n.withKids ks'] := by
  cases n with
  | mk i s kids =>
    refine ⟨h.hle, ?_, fun a => ?_⟩
    · rw [kok_single, Node.withKids, kok_iff]
      exact ⟨(kok_swf hk :), fun _ => hkeys, (kokL_iff _).mp h.hkok⟩
    · have := h.hcnt a
      simp only [cntL_cons, cntL_nil, cnt_withKids, cnt_mk, cntL_append, Node.kids, Node.id, Node.ni] at this ⊢
      omega

/-- the element is left as it is (a raising call, a reading call); arguments are dropped -/
theorem keep_ls {n : Node} (hk : kok n = true) (extra : List Node) {next n1 : Nat} (h : next ≤ n1) :
    LS next (n :: extra) n1 [n] :=
  (LS.pure next (kok_single.mpr hk) (fun a => by simp only [cntL_cons, cntL_nil]; omega)).mono h

theorem kokL_of_kok {n : Node} (hk : kok n = true) : kokL n.kids = true := by
  cases n; exact kok_kids hk

/-! ### wrapping arguments -/

theorem wrap_ok_ls {m : Schema} (hm : swf m = true) {a : Arg} (ha : kokL (argElems a) = true) {next n1 : Nat} {w : Node}
    (h : wrap m a next = (.ok w, n1)) : LS next (argElems a) n1 [w] := by
  cases a with
  | elem e => simp only [wrap, Prod.mk.injEq, Except.ok.injEq] at h; rw [← h.1, ← h.2]; exact LS.refl _ ha
  | plain r => exact construct_ls m r none [] next hm w n1 h

theorem wrap_le {m : Schema} (hm : swf m = true) (a : Arg) (next : Nat) : next ≤ (wrap m a next).2 := by
  cases a with
  | elem e => exact Nat.le_refl _
  | plain r => exact construct_next_le m r none [] next hm

theorem wrap_le' {m : Schema} (hm : swf m = true) {a : Arg} {next n1 : Nat} {x : Except Exc Node}
    (h : wrap m a next = (x, n1)) : next ≤ n1 := by
  have := wrap_le hm a next; rw [h] at this; exact this

theorem wrapAll_le {m : Schema} (hm : swf m = true) (as : List Arg) : ∀ next, next ≤ (wrapAll m as next).2 := by
  induction as with
  | nil => intro next; exact Nat.le_refl _
  | cons a as ih =>
    intro next
    rw [wrapAll]
    split
    · rename_i h; exact wrap_le' hm h
    · rename_i w n1 h
      have h1 := wrap_le' hm h
      have h2 := ih n1
      split
      · rename_i h'; rw [h'] at h2; exact Nat.le_trans h1 h2
      · rename_i h'; rw [h'] at h2; exact Nat.le_trans h1 h2

theorem wrapAll_ok_ls {m : Schema} (hm : swf m = true) (as : List Arg) : ∀ (next n1 : Nat) (ws : List Node),
    kokL (as.flatMap argElems) = true → wrapAll m as next = (.ok ws, n1) → LS next (as.flatMap argElems) n1 ws := by
  induction as with
  | nil =>
    intro next n1 ws _ h
    simp only [wrapAll, Prod.mk.injEq, Except.ok.injEq] at h
    rw [← h.1, ← h.2]; exact LS.nil _ _
  | cons a as ih =>
    intro next n1 ws ha h
    rw [List.flatMap_cons, kokL_append] at ha
    rw [wrapAll] at h
    split at h
    · cases h
    · rename_i w n2 hw
      split at h
      · cases h
      · rename_i ws' n3 hws
        cases h
        have h1 := wrap_ok_ls hm ha.1 hw
        have h2 := ih n2 _ ws' ha.2 hws
        rw [List.flatMap_cons]
        exact h1.append h2

/-! ### sequences -/

theorem extendArgs_kind (m : Schema) (n : Node) (as : List Arg) (next : Nat) : (extendArgs m n as next).1.kind = n.kind := by
  have := sch_of_hdr (extendArgs_hdr m n as next)
  unfold Node.kind; rw [this]

theorem extendArgs_ls {m : Schema} (hm : swf m = true) (as : List Arg) : ∀ (n : Node) (next : Nat), kok n = true →
    isMap n.kind = false → kokL (as.flatMap argElems) = true →
    LS next (n :: as.flatMap argElems) (extendArgs m n as next).2.1 [(extendArgs m n as next).1] := by
  induction as with
  | nil => intro n next hk _ _; rw [extendArgs]; exact LS.refl _ (kok_single.mpr hk)
  | cons a as ih =>
    intro n next hk hmap ha
    rw [List.flatMap_cons, kokL_append] at ha
    rw [extendArgs]
    split
    · rename_i h; exact keep_ls hk _ (wrap_le' hm h)
    · rename_i w n1 h
      have h1 := wrap_ok_ls hm ha.1 h
      have h2 := appendEl_ls n w n1 hk hmap (kok_single.mp h1.hkok)
      have h12 := (LS.frame hk h1).trans h2
      have h3 := ih (appendEl n w n1).1 (appendEl n w n1).2 (kok_single.mp h2.hkok)
        (by rw [appendEl_kind]; exact hmap) ha.2
      have h4 := h12.append (LS.refl (appendEl n w n1).2 ha.2)
      rw [List.flatMap_cons]
      exact h4.trans h3

theorem plain_args_nil (l : List Raw) : (l.map Arg.plain).flatMap argElems = [] := by
  induction l with
  | nil => rfl
  | cons x xs ih => simp [argElems, ih]

theorem imulLoop_ls {m : Schema} (hm : swf m = true) (vals : List Arg) (hv : vals.flatMap argElems = []) (k : Nat) :
    ∀ (n : Node) (next : Nat), kok n = true → isMap n.kind = false →
      LS next [n] (imulLoop m vals k n next).2.1 [(imulLoop m vals k n next).1] := by
  induction k with
  | zero => intro n next hk _; rw [imulLoop]; exact LS.refl _ (kok_single.mpr hk)
  | succ k ih =>
    intro n next hk hmap
    have he := extendArgs_ls hm vals n next hk hmap (by rw [hv]; rfl)
    rw [hv] at he
    rw [imulLoop]
    split
    · rename_i hx; rw [hx] at he; exact he
    · rename_i hx
      rw [hx] at he
      have hkind := extendArgs_kind m n vals next
      rw [hx] at hkind
      exact he.trans (ih _ _ (kok_single.mp he.hkok) (by rw [hkind]; exact hmap))

theorem mkSlot_ls (next lst nm : Nat) {w : Node} (hw : kok w = true) : LS next [w] (next + 1) [mkSlot next lst nm w] :=
  ⟨Nat.le_succ _, kok_single.mpr (kok_mkSlot _ _ _ _ hw), fun a => by
    have := own_eq_ind a next
    simp only [cntL_singleton, cnt_mkSlot]; omega⟩

theorem newSlots_ls (lst len : Nat) (ws : List Node) : ∀ (next : Nat), kokL ws = true →
    LS next ws (newSlots lst len ws next).2 (newSlots lst len ws next).1 := by
  induction ws with
  | nil => intro next _; rw [newSlots]; exact LS.nil _ _
  | cons w ws ih =>
    intro next h
    rw [kokL, Bool.and_eq_true] at h
    rw [newSlots]
    exact LS.cons (mkSlot_ls next lst len h.1) (ih (next + 1) h.2)

theorem getItem_idx {α : Type} {l : List α} {i : Int} {x : α} {k : Nat} (h : getItem l i = some x)
    (hk : normIndex l.length i = some k) : l[k]? = some x := by
  unfold getItem at h; rw [hk] at h; exact h

theorem wsum_set' {α : Type} (w : α → Nat) {l : List α} {k : Nat} {y : α} (h : l[k]? = some y) (x : α) :
    wsum w (l.set k x) + w y = wsum w l + w x := by
  rcases List.getElem?_eq_some_iff.mp h with ⟨h1, h2⟩
  have := wsum_set w l k x h1
  rw [h2] at this; exact this

theorem kok_withKids_single {slot x : Node} (hs : kok slot = true) (hx : kok x = true) : kok (slot.withKids [x]) = true := by
  cases slot with
  | mk i s kids =>
    rw [Node.withKids, kok_iff]
    refine ⟨(kok_swf hs :), fun _ => by simp [Node.kids], ?_⟩
    intro k hk
    simp only [Node.kids, List.mem_singleton] at hk
    rw [hk]; exact hx

/-- replacing the one element a slot holds -/
theorem set_slot_ls {a b : Nat} {l extra sub : List Node} {k : Nat} {slot x : Node} (hl : l[k]? = some slot)
    (hkl : kokL l = true) (h : LS a sub b [x]) (hsub : ∀ y, cntL y sub ≤ cntL y slot.kids + cntL y extra) :
    LS a (l ++ extra) b (l.set k (slot.withKids [x])) := by
  have hsm : slot ∈ l := List.mem_of_getElem? hl
  refine ⟨h.hle, ?_, fun y => ?_⟩
  · rw [kokL_iff]
    intro z hz
    rcases List.mem_or_eq_of_mem_set hz with h1 | h1
    · exact (kokL_iff _).mp hkl z h1
    · rw [h1]; exact kok_withKids_single ((kokL_iff _).mp hkl slot hsm) (kok_single.mp h.hkok)
  · have h1 := wsum_set' (cnt y) hl (slot.withKids [x])
    have h2 := h.hcnt y
    have h3 := hsub y
    rw [cntL_append, cntL_eq_wsum y (l.set _ _), cntL_eq_wsum y l]
    rw [cnt_withKids, cnt_eq y slot] at h1
    simp only [cntL_singleton] at h1 h2
    omega

theorem take_drop_sub {α : Type} {l : List α} {a b : Nat} {x : α} (h : x ∈ (l.drop a).take b) : x ∈ l :=
  List.mem_of_mem_drop (List.mem_of_mem_take h)

/-- **identity accounting, sequences, every call.** -/
theorem seqStep_ls (n : Node) (hk : kok n = true) (hmap : isMap n.kind = false) (op : SeqOp)
    (hop : kokL (placedSeq op) = true) (next : Nat) :
    LS next (n :: placedSeq op) (seqStep n op next).next [(seqStep n op next).node] := by
  have hkids : kokL n.kids = true := kokL_of_kok hk
  have hkid : ∀ x ∈ n.kids, kok x = true := (kokL_iff _).mp hkids
  have hs : swf n.sch = true := kok_swf hk
  have hself : ∀ extra n1, next ≤ n1 → LS next (n :: extra) n1 [n] := fun extra n1 h => keep_ls hk extra h
  -- a pure rearrangement / removal of members
  have hsub : ∀ (extra ks : List Node), (∀ x ∈ ks, x ∈ n.kids) → (∀ a, cntL a ks ≤ cntL a n.kids) →
      LS next (n :: extra) next [n.withKids (if n.kind = .list then renumber ks else ks)] := by
    intro extra ks hmem hc
    apply withKids_ls hk hmap
    apply LS.finish
    exact LS.pure next (kokL_sub hkids hmem) (fun a => by have := hc a; rw [cntL_append]; omega)
  unfold seqStep
  split
  · exact hself _ _ (Nat.le_refl _)
  · rename_i m hm
    have hsm : swf m = true := swf_member hs hm
    cases op with
    | append a =>
      dsimp only
      split
      · rename_i h; exact hself _ _ (wrap_le' hsm h)
      · rename_i w n1 h
        have h1 := wrap_ok_ls hsm hop h
        exact (LS.frame hk h1).trans (appendEl_ls n w n1 hk hmap (kok_single.mp h1.hkok))
    | extend as =>
      have := extendArgs_ls hsm as n next hk hmap hop
      dsimp only; split <;> exact this
    | iadd as =>
      have := extendArgs_ls hsm as n next hk hmap hop
      dsimp only; split <;> exact this
    | insert i a =>
      dsimp only
      split
      · rename_i h; exact hself _ _ (wrap_le' hsm h)
      · rename_i w n1 h
        have h1 := wrap_ok_ls hsm hop h
        have hw := kok_single.mp h1.hkok
        split
        · apply withKids_ls hk hmap
          apply LS.renum
          have h2 := h1.trans (mkSlot_ls n1 n.id n.kids.length hw)
          refine ((LS.refl next hkids).append h2).trans (LS.pure _ ?_ (fun a => ?_))
          · rw [kokL_iff]; intro x hx
            rcases mem_insertAt hx with h3 | h3
            · exact hkid x h3
            · rw [h3]; exact kok_single.mp h2.hkok
          · rw [cntL_eq_wsum, wsum_insertAt, cntL_append, cntL_eq_wsum, cntL_singleton]; exact Nat.le_refl _
        · apply withKids_ls hk hmap
          refine ((LS.refl next hkids).append h1).trans (LS.pure _ ?_ (fun a => ?_))
          · rw [kokL_iff]; intro x hx
            rcases mem_insertAt hx with h3 | h3
            · exact hkid x h3
            · rw [h3, kok_withParent]; exact hw
          · rw [cntL_eq_wsum, wsum_insertAt, cntL_append, cntL_eq_wsum, cntL_singleton, cnt_withParent]; exact Nat.le_refl _
    | setitem i a =>
      dsimp only
      split
      · cases a with
        | elem e =>
          dsimp only
          split
          · exact hself _ _ (Nat.le_refl _)
          · rename_i slot hg
            split
            · exact hself _ _ (Nat.le_refl _)
            · rename_i k hnk
              apply withKids_ls hk hmap
              have he : kok e = true := by simpa [placedSeq, argElems, kokL] using hop
              have h0 : LS next [e] next [e.withParent (some slot.id)] :=
                (LS.refl next (kok_single.mpr he)).withParent_new _
              exact set_slot_ls (getItem_idx hg hnk) hkids h0 (fun y => by simp [placedSeq, argElems])
        | plain r =>
          dsimp only
          split
          · rename_i slot k hg hnk
            have hl := getItem_idx hg hnk
            have hslot := hkid slot (List.mem_of_getElem? hl)
            split
            · exact hself _ _ (Nat.le_refl _)
            · rename_i el hel
              have helm : el ∈ slot.kids := by
                unfold slotElement at hel; exact List.mem_of_mem_head? hel
              have hS := setNode_ls r el none next ((kokL_iff _).mp (kokL_of_kok hslot) el helm)
              have hL := withKids_ls (extra := []) hk hmap
                (set_slot_ls (extra := []) hl hkids hS (fun y => by
                  have := cnt_le_cntL (a := y) helm
                  simp only [cntL_singleton, cntL_nil]; omega))
              split <;> (try rw [excOut]) <;> exact hL
          · exact hself _ _ (Nat.le_refl _)
      · split
        · rename_i h; exact hself _ _ (wrap_le' hsm h)
        · rename_i w n1 h
          have h1 := wrap_ok_ls hsm hop h
          have hw := kok_single.mp h1.hkok
          split
          · exact hself _ _ h1.hle
          · rename_i k _
            apply withKids_ls hk hmap
            refine ((LS.refl next hkids).append h1).trans (LS.pure _ ?_ (fun a => ?_))
            · rw [kokL_iff]; intro x hx
              rcases List.mem_or_eq_of_mem_set hx with h3 | h3
              · exact hkid x h3
              · rw [h3, kok_withParent]; exact hw
            · have := wsum_set_le (cnt a) n.kids k (w.withParent (some n.id))
              rw [cntL_eq_wsum, cntL_append, cntL_eq_wsum a n.kids, cntL_singleton]
              rw [cnt_withParent] at this; exact this
    | setslice sl as =>
      dsimp only
      split
      · rename_i e n1 h
        have := wrapAll_le hsm as next; rw [h] at this
        exact hself _ _ this
      · rename_i ws n1 hws
        have h1 := wrapAll_ok_ls hsm as next n1 ws hop hws
        split
        · have h2 := h1.trans (newSlots_ls n.id n.kids.length ws n1 h1.hkok)
          split
          · exact hself _ _ h2.hle
          · rename_i ks hss
            apply withKids_ls hk hmap
            apply LS.renum
            refine ((LS.refl next hkids).append h2).trans (LS.pure _ ?_ (fun a => ?_))
            · rw [kokL_iff]; intro x hx
              rcases mem_setSlice hss hx with h3 | h3
              · exact hkid x h3
              · exact (kokL_iff _).mp h2.hkok x h3
            · have := wsum_setSlice_le (cnt a) hss
              rw [cntL_eq_wsum, cntL_append, cntL_eq_wsum a n.kids, cntL_eq_wsum a (newSlots _ _ _ _).1]; exact this
        · split
          · exact hself _ _ h1.hle
          · rename_i ks hss
            apply withKids_ls hk hmap
            refine ((LS.refl next hkids).append h1).trans (LS.pure _ ?_ (fun a => ?_))
            · rw [kokL_iff]; intro x hx
              rcases mem_setSlice hss hx with h3 | h3
              · exact hkid x h3
              · obtain ⟨w, hwm, rfl⟩ := List.mem_map.mp h3
                rw [kok_withParent]; exact (kokL_iff _).mp h1.hkok w hwm
            · have := wsum_setSlice_le (cnt a) hss
              rw [wsum_map_eq (cnt a) (cnt a) (fun w => w.withParent (some n.id)) (fun x => cnt_withParent a x _)] at this
              rw [cntL_eq_wsum, cntL_append, cntL_eq_wsum a n.kids, cntL_eq_wsum a ws]; exact this
    | delitem i =>
      dsimp only
      split
      · rename_i ks k hd _
        exact hsub _ ks (fun x hx => mem_delItem hd hx) (fun a => by
          rw [cntL_eq_wsum, cntL_eq_wsum]; exact wsum_delItem_le _ hd)
      · exact hself _ _ (Nat.le_refl _)
    | delslice sl =>
      dsimp only
      split
      · exact hself _ _ (Nat.le_refl _)
      · rename_i ks hd
        exact hsub _ ks (fun x hx => mem_delSlice hd hx) (fun a => by
          rw [cntL_eq_wsum, cntL_eq_wsum]; exact wsum_delSlice_le _ hd)
    | pop i =>
      dsimp only
      split
      · exact hself _ _ (Nat.le_refl _)
      · rename_i x ks hp
        have hm := mem_popAt hp
        have hc : ∀ a, cntL a ks ≤ cntL a n.kids := fun a => by
          have := wsum_popAt (cnt a) hp
          rw [cntL_eq_wsum, cntL_eq_wsum]; omega
        split
        · have := hsub [] ks hm.2 hc
          rw [if_pos ‹n.kind = SKind.list›] at this; exact this
        · have := hsub [] ks hm.2 hc
          rw [if_neg ‹¬ n.kind = SKind.list›] at this; exact this
    | remove a =>
      dsimp only
      split
      · rename_i h; exact hself _ _ (wrap_le' hsm h)
      · rename_i w n1 h
        have hle := wrap_le' hsm h
        split
        · exact hself _ _ hle
        · exact (hsub _ _ (fun x hx => List.mem_of_mem_eraseIdx hx) (fun a => by
            rw [cntL_eq_wsum, cntL_eq_wsum]; exact wsum_eraseIdx_le _ _ _)).mono hle
    | reverse =>
      exact hsub _ _ (fun x hx => List.mem_reverse.mp hx) (fun a => by
        rw [cntL_eq_wsum, cntL_eq_wsum, wsum_reverse]; exact Nat.le_refl _)
    | clear =>
      exact withKids_ls hk hmap (LS.nil _ _)
    | imul c =>
      dsimp only
      split
      · apply withKids_ls hk hmap
        split
        · exact LS.nil _ _
        · exact LS.nil _ _
      · have := imulLoop_ls hsm ((members n).map (fun x => Arg.plain (imulValue x)))
          (by have := plain_args_nil ((members n).map imulValue); rw [List.map_map] at this; exact this) (c.toNat - 1) n next hk hmap
        split <;> exact this
    | sort k r =>
      dsimp only
      split
      · split
        · exact hself _ _ (Nat.le_refl _)
        · split <;> exact hself _ _ (Nat.le_refl _)
      · split
        · exact hsub _ _ (fun x hx => mem_sortBy.mp hx) (fun a => by
            rw [cntL_eq_wsum, cntL_eq_wsum, wsum_sortBy]; exact Nat.le_refl _)
        · exact hself _ _ (Nat.le_refl _)
    | set r => dsimp only; split <;> exact setNode_ls r n none next hk
    | setDefault => dsimp only; split <;> exact setDefault_ls n next hk
    | len => exact hself _ _ (Nat.le_refl _)
    | getitem i =>
      dsimp only
      split
      · exact hself _ _ (Nat.le_refl _)
      · split
        · split <;> exact hself _ _ (Nat.le_refl _)
        · exact hself _ _ (Nat.le_refl _)
    | getslice s => dsimp only; split <;> exact hself _ _ (Nat.le_refl _)
    | contains a =>
      dsimp only
      split
      · rename_i h; exact hself _ _ (wrap_le' hsm h)
      · rename_i h; exact hself _ _ (wrap_le' hsm h)
    | index a =>
      dsimp only
      split
      · rename_i h; exact hself _ _ (wrap_le' hsm h)
      · rename_i h
        split <;> exact hself _ _ (wrap_le' hsm h)
    | count a =>
      dsimp only
      split
      · rename_i h; exact hself _ _ (wrap_le' hsm h)
      · rename_i h; exact hself _ _ (wrap_le' hsm h)

/-! ### mappings -/

theorem replace_ls' {next n1 : Nat} {kids extra : List Node} {k : Str} {child new : Node}
    (hk : kokL kids = true) (hn : (kids.map Node.key).Nodup) (hc : findKid kids k = some child)
    (h : LS next (child :: extra) n1 [new]) : LS next (kids ++ extra) n1 (replaceKid kids k new) := by
  refine ⟨h.hle, ?_, fun a => ?_⟩
  · rw [kokL_iff]
    intro x hx
    rcases Flatland.C10.Proofs.mem_replaceKid hx with h1 | h1
    · exact (kokL_iff _).mp hk x h1
    · rw [h1]; exact kok_single.mp h.hkok
  · have h1 := wsum_replaceKid (cnt a) kids k new child hn hc
    have h2 := h.hcnt a
    simp only [cntL_singleton, cntL_cons] at h2
    rw [cntL_append, cntL_eq_wsum, cntL_eq_wsum a kids]; omega

theorem setChild_ls (child : Node) (a : Arg) (next : Nat) (hk : kok child = true) :
    LS next [child] (setChild child a next).next [(setChild child a next).node] := by
  unfold setChild
  split
  · exact setNode_ls _ child none next hk
  · split
    · exact (LS.refl next (kok_single.mpr hk)).congr_new
        (fun x => by rw [cntL_singleton, cntL_singleton, cnt_withScalar]) (by simp [kokL, kok_withScalar])
    · exact LS.refl next (kok_single.mpr hk)

theorem key_withKey (x : Node) (k : Str) : (x.withKey k).key = k := by cases x; rfl
theorem key_withScalar (x : Node) (v : Val) (u : Str) : (x.withScalar v u).key = x.key := by cases x; rfl

theorem isMap_of_hdr {r n : Node} (h : r.hdr = n.hdr) : isMap r.kind = isMap n.kind := by
  unfold Node.kind; rw [sch_of_hdr h]

theorem mapSetItem_ls (n : Node) (hk : kok n = true) (hm : isMap n.kind = true) (key : Str) (a : Arg)
    (ha : kokL (argElems a) = true) (next : Nat) :
    LS next (n :: argElems a) (mapSetItem n key a next).next [(mapSetItem n key a next).node] ∧
      (mapSetItem n key a next).node.hdr = n.hdr := by
  have hkids : kokL n.kids = true := kokL_of_kok hk
  have hs : swf n.sch = true := kok_swf hk
  have hnd : (n.kids.map Node.key).Nodup := ((kok_iff n).mp hk).2.1 hm
  have hself : ∀ n1, next ≤ n1 → LS next (n :: argElems a) n1 [n] := fun n1 h => keep_ls hk _ h
  -- `child.set(arg)` on the child stored under the key
  have hset : ∀ child, findKid n.kids key = some child →
      LS next (n :: argElems a) (setChild child a next).next [n.withKids (replaceKid n.kids key (setChild child a next).node)] := by
    intro child hc
    have hcm := findKid_some hc
    have h1 := setChild_ls child a next ((kokL_iff _).mp hkids child hcm.1)
    have h2 : LS next (child :: argElems a) (setChild child a next).next [(setChild child a next).node] :=
      h1.of_le (fun x => by simp only [cntL_cons, cntL_nil]; omega)
    refine withKids_ls_map hk ?_ (replace_ls' hkids hnd hc h2)
    rw [replaceKid_keys _ _ _ (by rw [key_of_hdr (Flatland.C10.Proofs.setChild_hdr child a next)]; exact hcm.2)]
    exact hnd
  -- a new child under a key that is not there yet
  have hnew : ∀ (x : Node) (n1 : Nat), findKid n.kids key = none → x.key = key → LS next (argElems a) n1 [x] →
      LS next (n :: argElems a) n1 [n.withKids (n.kids ++ [x])] := by
    intro x n1 hc hxk hx
    refine withKids_ls_map hk (nodup_keys_append hnd (by rw [hxk]; exact findKid_none hc)) ?_
    exact (LS.refl next hkids).append hx
  unfold mapSetItem
  split
  · dsimp only
    split
    · rename_i hc
      split
      · exact ⟨hself _ (Nat.le_refl _), rfl⟩
      · rename_i f hf
        have hfm := fieldFor_some hf
        have hsf : swf f = true := swf_subs hs f hfm.1
        split
        · rename_i e
          have he : kok e = true := by simpa [argElems, kokL] using ha
          split
          · refine ⟨hnew _ _ hc (key_withKey _ _) ?_, rfl⟩
            exact (LS.refl next (kok_single.mpr he)).congr_new
              (fun x => by rw [cntL_singleton, cntL_singleton, cnt_withKey, cnt_withParent])
              (by simp [kokL, kok_withKey, kok_withParent])
          · split
            · refine ⟨hnew _ _ hc ?_ ?_, rfl⟩
              · rw [key_withScalar]; exact (hdr_eq_parts (blank_hdr f (some n.id) key next)).2.2.2.1
              · exact ((blank_ls f (some n.id) key next hsf).congr_new
                  (fun x => by rw [cntL_singleton, cntL_singleton, cnt_withScalar])
                  (by simp [kokL, kok_withScalar])).forget
            · exact ⟨hself _ (Nat.le_refl _), rfl⟩
        · rename_i r
          split
          · rename_i e n1 hcon
            have := construct_next_le f r (some n.id) key next hsf
            rw [hcon] at this
            exact ⟨hself _ this, rfl⟩
          · rename_i el n1 hcon
            refine ⟨hnew _ _ hc ?_ (construct_ls f r (some n.id) key next hsf el n1 hcon).forget, rfl⟩
            exact (hdr_eq_parts (construct_hdr f r (some n.id) key next el (by rw [hcon]))).2.2.2.1
    · rename_i child hc
      have hcm := findKid_some hc
      split
      · exact ⟨hself _ (Nat.le_refl _), rfl⟩
      · rename_i f e _
        have he : kok e = true := by simpa [argElems, kokL] using ha
        split
        · refine ⟨withKids_ls_map hk ?_ (replace_ls' hkids hnd hc ?_), rfl⟩
          · rw [replaceKid_keys _ _ _ (key_withKey _ _)]; exact hnd
          · exact LS.pure next (by simp [kokL, kok_withKey, kok_withParent, he])
              (fun x => by simp only [cntL_cons, cntL_nil, cnt_withKey, cnt_withParent, argElems]; omega)
        · split
          · exact ⟨hset child hc, rfl⟩
          · exact ⟨hset child hc, rfl⟩
      · split
        · exact ⟨hset child hc, rfl⟩
        · exact ⟨hset child hc, rfl⟩
  · split
    · exact ⟨hself _ (Nat.le_refl _), rfl⟩
    · rename_i child hc
      dsimp only
      split
      · exact ⟨hset child hc, rfl⟩
      · exact ⟨hset child hc, rfl⟩

theorem kok_congr_map {r n : Node} (h : r.hdr = n.hdr) (hm : isMap n.kind = true) : isMap r.kind = true := by
  rw [isMap_of_hdr h]; exact hm

theorem mapUpdatePairs_ls (kvs : List (Str × Raw)) : ∀ (n : Node) (next : Nat), kok n = true → isMap n.kind = true →
    LS next [n] (mapUpdatePairs n kvs next).next [(mapUpdatePairs n kvs next).node] ∧
      (mapUpdatePairs n kvs next).node.hdr = n.hdr := by
  induction kvs with
  | nil => intro n next hk _; rw [mapUpdatePairs]; exact ⟨LS.refl _ (kok_single.mpr hk), rfl⟩
  | cons kv rest ih =>
    intro n next hk hm
    obtain ⟨k, v⟩ := kv
    have hs := mapSetItem_ls n hk hm k (.plain v) rfl next
    simp only [argElems] at hs
    rw [mapUpdatePairs]
    split
    · exact hs
    · have := ih _ (mapSetItem n k (.plain v) next).next (kok_single.mp hs.1.hkok) (kok_congr_map hs.2 hm)
      exact ⟨hs.1.trans this.1, this.2.trans hs.2⟩

theorem mapUpdateArgs_ls (kvs : List (Str × Arg)) : ∀ (n : Node) (next : Nat), kok n = true → isMap n.kind = true →
    kokL (kvs.flatMap (fun p => argElems p.2)) = true →
    LS next (n :: kvs.flatMap (fun p => argElems p.2)) (mapUpdateArgs n kvs next).next [(mapUpdateArgs n kvs next).node] ∧
      (mapUpdateArgs n kvs next).node.hdr = n.hdr := by
  induction kvs with
  | nil => intro n next hk _ _; rw [mapUpdateArgs]; exact ⟨LS.refl _ (kok_single.mpr hk), rfl⟩
  | cons kv rest ih =>
    intro n next hk hm ha
    obtain ⟨k, a⟩ := kv
    rw [List.flatMap_cons, kokL_append] at ha
    have hs := mapSetItem_ls n hk hm k a ha.1 next
    rw [mapUpdateArgs, List.flatMap_cons]
    split
    · exact ⟨hs.1.of_le (fun x => by simp only [cntL_cons, cntL_append]; omega), hs.2⟩
    · have := ih _ (mapSetItem n k a next).next (kok_single.mp hs.1.hkok) (kok_congr_map hs.2 hm) ha.2
      refine ⟨?_, this.2.trans hs.2⟩
      have h1 := hs.1.append (LS.refl (mapSetItem n k a next).next ha.2)
      exact h1.trans this.1

theorem mapReset_ls (n : Node) (hk : kok n = true) (hm : isMap n.kind = true) (next : Nat) :
    LS next [n] (mapReset n next).2 [(mapReset n next).1] ∧ (mapReset n next).1.hdr = n.hdr := by
  have hs : swf n.sch = true := kok_swf hk
  have hsub : swfL n.sch.subs = true := (swfL_iff _).mpr (swf_subs hs)
  have hnd : (n.sch.subs.map Schema.key).Nodup := ((swf_iff _).mp hs).1 hm
  have hbf : ∀ b, LS next [n] (blankFields n.sch.subs n.id b next).2 [n.withKids (blankFields n.sch.subs n.id b next).1] := by
    intro b
    refine withKids_ls_map (extra := []) hk (by rw [blankFields_keys]; exact nodup_filter_keys hnd _) ?_
    exact (blankFields_ls _ _ _ _ hsub).forget
  unfold mapReset
  split
  · exact ⟨hbf _, rfl⟩
  · split
    · exact ⟨hbf _, rfl⟩
    · exact ⟨withKids_ls_map (extra := []) hk (by simp) (LS.nil _ _), rfl⟩

theorem nodup_keys_eraseKey {kids : List Node} (h : (kids.map Node.key).Nodup) (k : Str) :
    ((eraseKey kids k).map Node.key).Nodup :=
  List.Nodup.sublist (List.Sublist.map _ List.filter_sublist) h

/-- **identity accounting, mappings, every call.** -/
theorem mapStep_ls (n : Node) (hk : kok n = true) (hm : isMap n.kind = true) (op : MapOp)
    (hop : kokL (placedMap op) = true) (next : Nat) :
    LS next (n :: placedMap op) (mapStep n op next).next [(mapStep n op next).node] ∧
      (mapStep n op next).node.hdr = n.hdr := by
  have hkids : kokL n.kids = true := kokL_of_kok hk
  have hs : swf n.sch = true := kok_swf hk
  have hnd : (n.kids.map Node.key).Nodup := ((kok_iff n).mp hk).2.1 hm
  have hself : ∀ extra, LS next (n :: extra) next [n] ∧ n.hdr = n.hdr := fun extra => ⟨keep_ls hk _ (Nat.le_refl _), rfl⟩
  have herase : ∀ k, LS next [n] next [n.withKids (eraseKey n.kids k)] := by
    intro k
    refine withKids_ls_map (extra := []) hk (nodup_keys_eraseKey hnd k) ?_
    refine LS.pure next (kokL_sub hkids (fun x hx => (List.mem_filter.mp hx).1)) (fun a => ?_)
    rw [List.append_nil, cntL_eq_wsum, cntL_eq_wsum]; exact wsum_filter_le _ _ _
  unfold mapStep
  cases op with
  | setitem k a => exact mapSetItem_ls n hk hm k a hop next
  | delitem k =>
    dsimp only
    split
    · split <;> exact hself _
    · split
      · split
        · exact ⟨herase k, rfl⟩
        · split <;> exact hself _
      · split
        · exact hself _
        · exact hself _
        · split
          · exact ⟨herase k, rfl⟩
          · exact hself _
  | pop k =>
    dsimp only
    split
    · exact hself _
    · split
      · exact hself _
      · split
        · exact hself _
        · split
          · exact ⟨herase k, rfl⟩
          · exact hself _
  | popitem => dsimp only; split <;> exact hself _
  | clear =>
    dsimp only
    split
    · exact mapReset_ls n hk hm next
    · exact hself _
  | update pos kw =>
    dsimp only
    split
    · exact mapUpdatePairs_ls kw n next hk hm
    · split
      · exact hself _
      · exact hself _
      · rename_i kvs _
        have h1 := mapUpdatePairs_ls kvs n next hk hm
        split
        · exact h1
        · have h2 := mapUpdatePairs_ls kw _ (mapUpdatePairs n kvs next).next (kok_single.mp h1.1.hkok) (kok_congr_map h1.2 hm)
          exact ⟨h1.1.trans h2.1, h2.2.trans h1.2⟩
  | updateArgs kvs => exact mapUpdateArgs_ls kvs n next hk hm hop
  | ior raw =>
    dsimp only
    split
    · exact hself _
    · exact hself _
    · exact mapUpdatePairs_ls _ n next hk hm
  | setdefault k d =>
    dsimp only
    split
    · exact hself _
    · split
      · exact hself _
      · split
        · rename_i child hc
          have hcm := findKid_some hc
          split
          · exact hself _
          · have h1 := setNode_ls d child none next ((kokL_iff _).mp hkids child hcm.1)
            have hL : LS next [n] (setNode child d none next).next [n.withKids (replaceKid n.kids k (setNode child d none next).node)] := by
              refine withKids_ls_map (extra := []) hk ?_ (replace_ls' (extra := []) hkids hnd hc h1)
              rw [replaceKid_keys _ _ _ (by rw [key_of_hdr (setNode_hdr child d none next)]; exact hcm.2)]
              exact hnd
            split
            · exact ⟨hL, rfl⟩
            · exact ⟨hL, rfl⟩
        · rename_i hc
          split
          · exact hself _
          · rename_i f hf
            have hfm := fieldFor_some hf
            have hb := (blank_ls f none k next (swf_subs hs f hfm.1)).withParent_new (some n.id)
            have hr := setNode_ls d ((blank f none k next).1.withParent (some n.id)) none (blank f none k next).2
              (kok_single.mp hb.hkok)
            have hkey : (setNode ((blank f none k next).1.withParent (some n.id)) d none (blank f none k next).2).node.key = k := by
              rw [key_of_hdr (setNode_hdr _ d none _), key_withParent]
              exact (hdr_eq_parts (blank_hdr f none k next)).2.2.2.1
            have hL : LS next [n] (setNode ((blank f none k next).1.withParent (some n.id)) d none (blank f none k next).2).next
                [n.withKids (n.kids ++ [(setNode ((blank f none k next).1.withParent (some n.id)) d none (blank f none k next).2).node])] := by
              refine withKids_ls_map (extra := []) hk (nodup_keys_append hnd (by rw [hkey]; exact findKid_none hc)) ?_
              have := (LS.refl next hkids).append (hb.trans hr)
              simpa using this
            split
            · exact ⟨hL, rfl⟩
            · exact ⟨hL, rfl⟩
  | get k => dsimp only; split <;> exact hself _
  | set raw pol =>
    dsimp only
    split
    · split <;> exact ⟨setNode_ls _ n _ _ hk, setNode_hdr _ _ _ _⟩
    · split <;> exact ⟨setNode_ls _ n _ _ hk, setNode_hdr _ _ _ _⟩
    · split <;> exact ⟨setNode_ls _ n _ _ hk, setNode_hdr _ _ _ _⟩
  | setDefault => dsimp only; split <;> exact ⟨setDefault_ls n next hk, setDefault_hdr _ _⟩
  | contains k => exact hself _
  | len => exact hself _

/-! ### a call on an element, anywhere in a tree -/

theorem isMap_cases (k : SKind) : isMap k = true ↔ k = .dict ∨ k = .sparse := by
  cases k <;> simp [isMap]

theorem nodeStep_ls (n : Node) (hk : kok n = true) (op : Op) (hop : kokL (placedArgs op) = true) (next : Nat) :
    LS next (n :: placedArgs op) (nodeStep n op next).next [(nodeStep n op next).node] ∧
      (nodeStep n op next).node.hdr = n.hdr := by
  have hself : LS next (n :: placedArgs op) next [n] ∧ n.hdr = n.hdr := ⟨keep_ls hk _ (Nat.le_refl _), rfl⟩
  cases op with
  | seq o =>
    have h := fun hm => seqStep_ls n hk hm o hop next
    have hh := seqStep_hdr n o next
    unfold nodeStep
    cases hkd : n.kind <;> simp only [] <;>
      first
      | exact ⟨h (by rw [hkd]; rfl), hh⟩
      | exact hself
  | map o =>
    have h := fun hm => mapStep_ls n hk hm o hop next
    unfold nodeStep
    cases hkd : n.kind <;> simp only [] <;>
      first
      | exact h (by rw [hkd]; rfl)
      | exact hself

theorem keys_of_hdr_cons {r k : Node} {ks : List Node} (h : r.hdr = k.hdr) :
    (r :: ks).map Node.key = (k :: ks).map Node.key := by
  rw [List.map_cons, List.map_cons, key_of_hdr h]

mutual
theorem stepAt_ls (op : Op) (hop : kokL (placedArgs op) = true) (tid : Nat) :
    ∀ (t : Node) (next : Nat) (r : StepR), kok t = true → stepAt t tid op next = some r →
      LS next (t :: placedArgs op) r.next [r.node] ∧ r.node.hdr = t.hdr
  | .mk i s kids, next, r, hk, hr => by
    rw [stepAt] at hr
    split at hr
    · cases hr; exact nodeStep_ls _ hk op hop next
    · split at hr
      · cases hr
      · rename_i kids' r' hl
        cases hr
        have := stepAtL_ls op hop tid kids next kids' r' (kok_kids hk) hl
        refine ⟨?_, rfl⟩
        refine ⟨this.1.hle, ?_, fun a => ?_⟩
        · rw [kok_single, kok_iff]
          exact ⟨(kok_swf hk :), fun hm => by
            show (kids'.map Node.key).Nodup
            rw [this.2]; exact kok_keys hk hm, (kokL_iff _).mp this.1.hkok⟩
        · have := this.1.hcnt a
          simp only [cntL_cons, cntL_nil, cnt_mk, cntL_append] at this ⊢
          omega
theorem stepAtL_ls (op : Op) (hop : kokL (placedArgs op) = true) (tid : Nat) :
    ∀ (ks : List Node) (next : Nat) (ks' : List Node) (r : StepR), kokL ks = true →
      stepAtL ks tid op next = some (ks', r) →
      LS next (ks ++ placedArgs op) r.next ks' ∧ ks'.map Node.key = ks.map Node.key
  | [], _, _, _, _, hr => by rw [stepAtL] at hr; cases hr
  | k :: ks, next, ks', r, hk, hr => by
    rw [kokL, Bool.and_eq_true] at hk
    rw [stepAtL] at hr
    split at hr
    · rename_i r1 h1
      cases hr
      have := stepAt_ls op hop tid k next _ hk.1 h1
      refine ⟨?_, keys_of_hdr_cons this.2⟩
      have h2 := this.1.append (LS.refl _ hk.2)
      exact h2.of_le (fun x => by simp only [cntL_cons, cntL_append, cntL_nil]; omega)
    · split at hr
      · cases hr
      · rename_i ks2 r2 h2
        cases hr
        have := stepAtL_ls op hop tid ks next _ _ hk.2 h2
        refine ⟨LS.frame hk.1 this.1, ?_⟩
        rw [List.map_cons, List.map_cons, this.2]
end

/-! ### histories -/

theorem map_id_nodesL (l : List Node) : (nodesL l).map Node.id = l.flatMap ids := by
  induction l with
  | nil => rfl
  | cons k ks ih => rw [nodesL, List.map_append, ih, List.flatMap_cons]; rfl

theorem cntL_eq_count (a : Nat) (l : List Node) : cntL a l = (l.flatMap ids).count a := by
  unfold cntL; rw [map_id_nodesL]

/-- what the accounting inequality gives for a whole tree -/
theorem idinv_of_ls {root root' : Node} {next next' : Nat} {A : List Node}
    (hnd : (A.flatMap ids ++ ids root).Nodup) (hA : ∀ a ∈ A.flatMap ids, a < next)
    (hb : ∀ a ∈ ids root, a < next) (h : LS next (root :: A) next' [root']) :
    IdInv ⟨root', next'⟩ := by
  have hold : ∀ a, cnt a root + cntL a A ≤ 1 := by
    intro a
    have := List.nodup_iff_count.mp hnd a
    rw [List.count_append] at this
    rw [cntL_eq_count]; unfold cnt; omega
  have hlt : ∀ a, 0 < cnt a root + cntL a A → a < next := by
    intro a ha
    by_cases h1 : 0 < cnt a root
    · exact hb a ((mem_ids_iff a root).mpr h1)
    · have h2 : 0 < cntL a A := by omega
      rw [cntL_eq_count] at h2
      exact hA a (List.count_pos_iff.mp h2)
  have hc : ∀ a, cnt a root' ≤ cnt a root + cntL a A + ind next next' a := by
    intro a
    have := h.hcnt a
    simp only [cntL_cons, cntL_nil] at this; omega
  refine ⟨?_, ?_, kok_single.mp h.hkok⟩
  · show (ids root').Nodup
    apply nodup_of_cnt
    intro a
    have h1 := hc a
    have h2 := hold a
    have h3 := ind_le_one next next' a
    by_cases hz : 0 < cnt a root + cntL a A
    · have := ind_eq_zero_of_lt (hi := next') (hlt a hz); omega
    · omega
  · intro a ha
    have h0 := (mem_ids_iff a root').mp ha
    have h1 := hc a
    have hle := h.hle
    by_cases hz : 0 < cnt a root + cntL a A
    · have := hlt a hz; show a < next'; omega
    · have : 0 < ind next next' a := by omega
      exact (ind_pos this).2

/-- **UniqueIds is preserved by every call of the model** (with it: every identity stays below
    the allocation counter, keys stay unique), provided the Element arguments the call places
    are fresh or detached objects. -/
theorem hstep_idinv (s : HState) (h : HOp) (hi : IdInv s) (ha : ArgsFresh s h.op) : IdInv (hstep s h) := by
  unfold hstep
  cases hs : stepAt s.root h.target h.op s.next with
  | none => exact hi
  | some r =>
    have := stepAt_ls h.op ((kokL_iff _).mpr ha.2.2) h.target s.root s.next r hi.keys hs
    exact idinv_of_ls ha.1 ha.2.1 hi.below this.1

theorem hrun_idinv (hs : List HOp) : ∀ (s : HState), IdInv s → HistFresh s hs → IdInv (hrun s hs) := by
  induction hs with
  | nil => intro s hi _; exact hi
  | cons h hs ih =>
    intro s hi hf
    simpa [hrun] using ih (hstep s h) (hstep_idinv s h hi hf.1) hf.2

/-- every construction route of the model yields unique identities below the counter -/
theorem idinv_init (s : Schema) (hs : swf s = true) (key : Str) (next : Nat) :
    IdInv ⟨(blank s none key next).1, (blank s none key next).2⟩ ∧
    (∀ raw e n1, construct s raw none key next = (.ok e, n1) → IdInv ⟨e, n1⟩) ∧
    IdInv ⟨(fromDefaults s none key next).node, (fromDefaults s none key next).next⟩ ∧
    (∀ (st : HState) raw pol, IdInv st → IdInv ⟨(setNode st.root raw pol st.next).node, (setNode st.root raw pol st.next).next⟩) ∧
    (∀ (st : HState), IdInv st → IdInv ⟨(setDefault st.root st.next).node, (setDefault st.root st.next).next⟩) := by
  have hnew : ∀ {n' : Node} {next' : Nat}, LS next [] next' [n'] → IdInv ⟨n', next'⟩ := by
    intro n' next' h
    have hc : ∀ a, cnt a n' ≤ ind next next' a := fun a => by
      have := h.hcnt a; simp only [cntL_singleton, cntL_nil] at this; omega
    refine ⟨nodup_of_cnt (fun a => Nat.le_trans (hc a) (ind_le_one _ _ _)), ?_, kok_single.mp h.hkok⟩
    intro a ha
    have := (mem_ids_iff a n').mp ha
    have h2 := hc a
    exact (ind_pos (lo := next) (hi := next') (a := a) (by omega)).2
  have hupd : ∀ {st : HState} {n' : Node} {next' : Nat}, IdInv st → LS st.next [st.root] next' [n'] → IdInv ⟨n', next'⟩ := by
    intro st n' next' hi h
    exact idinv_of_ls (A := []) (by simpa [UniqueIds] using hi.uniq) (by simp) hi.below h
  refine ⟨hnew (blank_ls s none key next hs), ?_, hnew (fromDefaults_ls s none key next hs), ?_, ?_⟩
  · intro raw e n1 h; exact hnew (construct_ls s raw none key next hs e n1 h)
  · intro st raw pol hi; exact hupd hi (setNode_ls raw st.root pol st.next hi.keys)
  · intro st hi; exact hupd hi (setDefault_ls st.root st.next hi.keys)

end Flatland.C08.Proofs
