/-
C02 — "order-free", the STABLE version: what exactly `from_flat` needs of a reordering.

`order_free` (Proofs/C02Order.lean) asks that no key occurs twice, hereditarily (`HNodup`), and then
allows EVERY permutation.  An Array / MultiValue with two members has one key twice, and there the
order of the pairs IS the order of the members — `order_free` says nothing.  The stable version:

    order_free_stable :  HNodupA s (wrap ps) → ps ~ ps' → ASame s (wrap ps) (wrap ps') →
                         fromFlat s ps = fromFlat s ps'

* `HNodupA` — `HNodup` with the Arrays exempt: at every scalar at most one pair matches (after every
  stripping step), an Array may be handed any number of pairs;
* `ASame`   — the two lists hand every Array (after the same stripping steps) the same member-yielding
  pairs IN THE SAME ORDER; everywhere else the order is free.

`order_free` is the special case (`hnodup_hnodupA`, `asame_of_hnodup`: under `HNodup` every
permutation is `ASame`).  That the hereditary reading cannot be replaced by the plain one — "the pairs
of every KEY keep their relative order" — is `order_free_stable_full_fails`: in a List of Arrays
`l_0` and `l_00` are different keys for the same Array (KF-C02-a's neighbour), swapping them keeps
every per-key sub-sequence and swaps the members.
-/
import Proofs.C02Order
namespace Flatland.Flat.Proofs
open Flatland.Flat

/-! ### the two hereditary conditions -/

mutual
/-- `HNodup` with the Arrays exempt -/
def HNodupA (env : Env) (sep : Str) : Schema → Pairs → Prop
  | .leaf name _ _, ps => (ps.filter (fun p => p.1 == name)).length ≤ 1
  | .joined name _ _ _, ps => (ps.filter (fun p => p.1 == name)).length ≤ 1
  | .dict name _ _ fields, ps => HNodupAFields env sep fields (possibles sep name ps)
  | .compound name _ _ fields, ps => HNodupAFields env sep fields (possibles sep name ps)
  | .list name _ prune _ member, ps => ∀ i, HNodupA env sep member (groupOf env sep name prune i ps)
  | .array .., _ => True
def HNodupAFields (env : Env) (sep : Str) : List Schema → List (Str × Str) → Prop
  | [], _ => True
  | f :: fs, poss =>
    HNodupA env sep f (wrap (poss.filter (fun p => isPrefix (f.name.getD []) p.1)))
      ∧ HNodupAFields env sep fs poss
end

mutual
/-- both lists hand every Array the same member-yielding pairs in the same order -/
def ASame (env : Env) (sep : Str) : Schema → Pairs → Pairs → Prop
  | .leaf .., _, _ => True
  | .joined .., _, _ => True
  | .dict name _ _ fields, ps, ps' => ASameFields env sep fields (possibles sep name ps) (possibles sep name ps')
  | .compound name _ _ fields, ps, ps' =>
    ASameFields env sep fields (possibles sep name ps) (possibles sep name ps')
  | .list name _ prune _ member, ps, ps' =>
    ∀ i, ASame env sep member (groupOf env sep name prune i ps) (groupOf env sep name prune i ps')
  | .array name _ prune member, ps, ps' =>
    if !truthy name then ps.filterMap (anonPass prune member.name) = ps'.filterMap (anonPass prune member.name)
    else ps.filterMap (namedPass sep prune (name.getD []) member.name)
      = ps'.filterMap (namedPass sep prune (name.getD []) member.name)
def ASameFields (env : Env) (sep : Str) : List Schema → List (Str × Str) → List (Str × Str) → Prop
  | [], _, _ => True
  | f :: fs, poss, poss' =>
    ASame env sep f (wrap (poss.filter (fun p => isPrefix (f.name.getD []) p.1)))
        (wrap (poss'.filter (fun p => isPrefix (f.name.getD []) p.1)))
      ∧ ASameFields env sep fs poss poss'
end

/-! ### the theorem -/

mutual
theorem stable_setFlat (env : Env) (sep : Str) : ∀ (s : Schema) (e : Elem) (ps ps' : Pairs),
    HNodupA env sep s ps → ps.Perm ps' → ASame env sep s ps ps' →
    setFlat env sep s e ps = setFlat env sep s e ps'
  | .leaf name o k, e, ps, ps', h, hp, _ => by
    simp only [HNodupA] at h
    simp only [setFlat, find?_perm _ hp h]
  | .joined name o k m, e, ps, ps', h, hp, _ => by
    simp only [HNodupA] at h
    simp only [setFlat, find?_perm _ hp h]
  | .dict name o mode fields, e, ps, ps', h, hp, ha => by
    simp only [HNodupA] at h
    simp only [ASame] at ha
    have hposs := possibles_perm sep name hp
    simp only [setFlat, isEmpty_perm hposs]
    rw [stable_setFields env sep fields (membersOf e) _ _ h hposs ha]
  | .compound name o k fields, e, ps, ps', h, hp, ha => by
    simp only [HNodupA] at h
    simp only [ASame] at ha
    have hposs := possibles_perm sep name hp
    simp only [setFlat, isEmpty_perm hposs]
    rw [stable_setFields env sep fields (membersOf e) _ _ h hposs ha]
  | .list name o prune mx member, e, ps, ps', h, hp, ha => by
    simp only [HNodupA] at h
    simp only [ASame] at ha
    have hidx := indexesOf_perm env sep name prune hp
    have hslot : (fun i => if (groupOf env sep name prune i ps).isEmpty then blank member
          else setFlat env sep member (blank member) (groupOf env sep name prune i ps))
        = (fun i => if (groupOf env sep name prune i ps').isEmpty then blank member
          else setFlat env sep member (blank member) (groupOf env sep name prune i ps')) := by
      funext i
      have hg := groupOf_perm env sep name prune i hp
      rw [isEmpty_perm hg, stable_setFlat env sep member (blank member) _ _ (h i) hg (ha i)]
    simp only [setFlat, buildSlots, isEmpty_perm hp, isEmpty_perm hidx, sortedDistinct_perm hidx,
      foldl_max_perm hidx, hslot]
  | .array name o prune member, e, ps, ps', _, _, ha => by
    simp only [ASame] at ha
    simp only [setFlat]
    split
    · rename_i hn
      simp only [hn, if_true] at ha
      rw [arrayAnon_eq, arrayAnon_eq, ha]
    · rename_i hn
      simp only [hn] at ha
      rw [arrayNamed_eq, arrayNamed_eq]
      rw [if_neg (by simp)] at ha
      rw [ha]
theorem stable_setFields (env : Env) (sep : Str) : ∀ (fs : List Schema) (members : List (Str × Elem))
    (poss poss' : List (Str × Str)), HNodupAFields env sep fs poss → poss.Perm poss' →
    ASameFields env sep fs poss poss' →
    setFields env sep fs members poss = setFields env sep fs members poss'
  | [], members, poss, poss', _, _, _ => by simp [setFields]
  | f :: fs, members, poss, poss', h, hp, ha => by
    simp only [HNodupAFields] at h
    simp only [ASameFields] at ha
    have hacc : (poss.filter (fun p => isPrefix (f.name.getD []) p.1)).Perm
        (poss'.filter (fun p => isPrefix (f.name.getD []) p.1)) := hp.filter _
    have hstep : stepM env sep f members (poss.filter (fun p => isPrefix (f.name.getD []) p.1))
        = stepM env sep f members (poss'.filter (fun p => isPrefix (f.name.getD []) p.1)) := by
      unfold stepM
      rw [isEmpty_perm hacc]
      split
      · rfl
      · cases hl : lookup (f.name.getD []) members with
        | some child =>
          simp only
          rw [stable_setFlat env sep f child _ _ h.1 (wrap_perm hacc) ha.1]
        | none =>
          simp only
          rw [stable_setFlat env sep f (blank f) _ _ h.1 (wrap_perm hacc) ha.1]
    rw [setFields_cons, setFields_cons, hstep]
    exact stable_setFields env sep fs _ poss poss' h.2 hp ha.2
end

/-- **Order-free, stable.**  When no key of a scalar occurs twice (hereditarily; Arrays exempt), the
    tree `from_flat` builds is the same for every reordering of the pairs that keeps, for every Array,
    the pairs that yield its members in their order. -/
theorem order_free_stable (env : Env) (sep : Str) (s : Schema) (ps ps' : List (Str × Str))
    (h : HNodupA env sep s (wrap ps)) (hp : ps.Perm ps') (ha : ASame env sep s (wrap ps) (wrap ps')) :
    fromFlat env sep s ps = fromFlat env sep s ps' :=
  stable_setFlat env sep s (blank s) (wrap ps) (wrap ps') h (wrap_perm hp) ha

/-! ### `order_free` is the special case -/

mutual
theorem hnodup_hnodupA (env : Env) (sep : Str) : ∀ (s : Schema) (ps : Pairs),
    HNodup env sep s ps → HNodupA env sep s ps
  | .leaf .., _, h => by simpa only [HNodup, HNodupA] using h
  | .joined .., _, h => by simpa only [HNodup, HNodupA] using h
  | .dict name _ _ fields, ps, h => by
    simp only [HNodup] at h; simp only [HNodupA]
    exact hnodupFields_hnodupA env sep fields _ h
  | .compound name _ _ fields, ps, h => by
    simp only [HNodup] at h; simp only [HNodupA]
    exact hnodupFields_hnodupA env sep fields _ h
  | .list name _ prune _ member, ps, h => by
    simp only [HNodup] at h; simp only [HNodupA]
    exact fun i => hnodup_hnodupA env sep member _ (h i)
  | .array .., _, _ => by simp only [HNodupA]
theorem hnodupFields_hnodupA (env : Env) (sep : Str) : ∀ (fs : List Schema) (poss : List (Str × Str)),
    HNodupFields env sep fs poss → HNodupAFields env sep fs poss
  | [], _, _ => by simp [HNodupAFields]
  | f :: fs, poss, h => by
    simp only [HNodupFields] at h; simp only [HNodupAFields]
    exact ⟨hnodup_hnodupA env sep f _ h.1, hnodupFields_hnodupA env sep fs poss h.2⟩
end

mutual
/-- under `HNodup` every permutation keeps what the Arrays are handed (at most one pair each) -/
theorem asame_of_hnodup (env : Env) (sep : Str) : ∀ (s : Schema) (ps ps' : Pairs),
    HNodup env sep s ps → ps.Perm ps' → ASame env sep s ps ps'
  | .leaf .., _, _, _, _ => by simp only [ASame]
  | .joined .., _, _, _, _ => by simp only [ASame]
  | .dict name _ _ fields, ps, ps', h, hp => by
    simp only [HNodup] at h; simp only [ASame]
    exact asameFields_of_hnodup env sep fields _ _ h (possibles_perm sep name hp)
  | .compound name _ _ fields, ps, ps', h, hp => by
    simp only [HNodup] at h; simp only [ASame]
    exact asameFields_of_hnodup env sep fields _ _ h (possibles_perm sep name hp)
  | .list name _ prune _ member, ps, ps', h, hp => by
    simp only [HNodup] at h; simp only [ASame]
    exact fun i => asame_of_hnodup env sep member _ _ (h i) (groupOf_perm env sep name prune i hp)
  | .array name _ prune member, ps, ps', h, hp => by
    simp only [HNodup] at h; simp only [ASame]
    by_cases hn : (!truthy name) = true
    · simp only [hn, if_true] at h ⊢
      rw [arrayAnon_eq, List.length_map] at h
      exact perm_length_le_one (hp.filterMap _) h
    · simp only [hn] at h ⊢
      rw [if_neg (by simp)] at h ⊢
      rw [arrayNamed_eq, List.length_map] at h
      exact perm_length_le_one (hp.filterMap _) h
theorem asameFields_of_hnodup (env : Env) (sep : Str) : ∀ (fs : List Schema) (poss poss' : List (Str × Str)),
    HNodupFields env sep fs poss → poss.Perm poss' → ASameFields env sep fs poss poss'
  | [], _, _, _, _ => by simp [ASameFields]
  | f :: fs, poss, poss', h, hp => by
    simp only [HNodupFields] at h; simp only [ASameFields]
    exact ⟨asame_of_hnodup env sep f _ _ h.1 (wrap_perm (hp.filter _)),
      asameFields_of_hnodup env sep fs poss poss' h.2 hp⟩
end

/-- `order_free`, re-derived from the stable version -/
theorem order_free_of_stable (env : Env) (sep : Str) (s : Schema) (ps ps' : List (Str × Str))
    (h : HNodup env sep s (wrap ps)) (hp : ps.Perm ps') :
    fromFlat env sep s ps = fromFlat env sep s ps' :=
  order_free_stable env sep s ps ps' (hnodup_hnodupA env sep s _ h) hp
    (asame_of_hnodup env sep s _ _ h (wrap_perm hp))

/-! ### the plain reading is not enough -/

/-- the pairs of every key keep their relative order -/
def KeySame (ps ps' : List (Str × Str)) : Prop :=
  ∀ k : Str, ps.filter (fun p => p.1 == k) = ps'.filter (fun p => p.1 == k)

/-- the plain reading: a permutation that keeps the relative order of the pairs of every KEY -/
def C02_stable_Full : Prop :=
  ∀ (env : Env) (sep : Str) (s : Schema), wf s = true → ∀ (ps ps' : List (Str × Str)),
    HNodupA env sep s (wrap ps) → ps.Perm ps' → KeySame ps ps' →
    fromFlat env sep s ps = fromFlat env sep s ps'

/-- a List of Arrays: `l_0` and `l_00` are different keys for the members of the SAME Array;
    swapping them keeps every per-key sub-sequence and swaps the members -/
theorem order_free_stable_full_fails : ¬ C02_stable_Full := by
  intro h
  have := h exEnv "_".toList
    (.list (some "l".toList) false true 1024 (.array none false true (.leaf none false 0))) (by decide)
    [("l_0".toList, "a".toList), ("l_00".toList, "b".toList)]
    [("l_00".toList, "b".toList), ("l_0".toList, "a".toList)]
    (by simp only [HNodupA]; intro i; trivial) (List.Perm.swap _ _ _)
    (by
      intro k
      by_cases h1 : k = "l_0".toList
      · subst h1; decide
      · by_cases h2 : k = "l_00".toList
        · subst h2; decide
        · have e1 : ¬ ['l', '_', '0'] = k := fun h => h1 h.symm
          have e2 : ¬ ['l', '_', '0', '0'] = k := fun h => h2 h.symm
          simp [List.filter_cons, e1, e2])
  revert this
  simp [fromFlat, setFlat, blank, wrap, indexesOf, groupOf, listAddr, matchIndex, isPrefix, truthy,
    isNd, ndVal, digitsVal, exEnv, sortedDistinct, insertSorted, buildSlots, arrayAnon, Schema.name]

/-! ### non-vacuity: an Array with two members between other fields -/

/-- Dict{ a: Array[String], z: String } -/
def exStableS : Schema :=
  .dict none false .dense
    [ .array (some "a".toList) false true (.leaf none false 0), .leaf (some "z".toList) false 0 ]

/-- `z` may move past the Array's pairs; the Array's pairs keep their order -/
theorem exStable :
    fromFlat exEnv "_".toList exStableS
        [("z".toList, "1".toList), ("a".toList, "x".toList), ("a".toList, "y".toList)]
      = fromFlat exEnv "_".toList exStableS
        [("a".toList, "x".toList), ("z".toList, "1".toList), ("a".toList, "y".toList)] := by
  apply order_free_stable
  · simp only [exStableS, HNodupA, HNodupAFields, and_true, true_and]
    decide
  · exact List.Perm.swap _ _ _
  · simp only [exStableS, ASame, ASameFields, and_true]
    decide

/-- … and `order_free` does not apply to it: `a` occurs twice -/
example : ¬ HNodup exEnv "_".toList exStableS
    (wrap [("z".toList, "1".toList), ("a".toList, "x".toList), ("a".toList, "y".toList)]) := by
  simp only [exStableS, HNodup, HNodupFields, and_true]
  decide

/-- … and swapping the Array's own pairs does change the result (the hypothesis `ASame` is needed) -/
example : fromFlat exEnv "_".toList exStableS [("a".toList, "x".toList), ("a".toList, "y".toList)]
    ≠ fromFlat exEnv "_".toList exStableS [("a".toList, "y".toList), ("a".toList, "x".toList)] := by
  simp [fromFlat, setFlat, setFields, blank, blankFields, wrap, possibles, lookup, replace, membersOf, isPrefix,
    arrayNamed, arrayRemainder, truthy, exEnv, exStableS, Schema.name]

end Flatland.Flat.Proofs
