/-
C01: the round-trip theorems speak about schemas that contain a JoinedString with
`prune_empty = False`.  For such a kind the empty text splits into ONE empty member
(`''.split(',') == ['']`), while a JoinedString that was never set has no members at all.  Both
states conform (`OkP`): the first is settled, the second fresh.  They flatten to the same pair; the
round trip runs `set('')` and therefore rebuilds the settled state from either.
-/
import Proofs.C01Examples
import Proofs.C01Second
namespace Flatland.Flat.Proofs
open Flatland.Flat Flatland.Flat.Spec

/-- texts are kept as they are; a JoinedString's text without a separator in it is its one member —
    in particular the empty text gives one empty member (the non-pruning behaviour) -/
def exEnvJ : Env :=
  { norm := fun _ s => s, compose := fun _ _ => [], joinedMembers := fun _ t => [t],
    ndZeros := [48], maxDigits := 4300 }

example : exEnvJ.joinedMembers 0 [] = [[]] := rfl

theorem exEnvJ_OK : EnvOK exEnvJ := ⟨[], rfl⟩

/-- `Dict.of(JoinedString.named('j').using(prune_empty=False))` -/
def exSchemaJ : Schema :=
  .dict none false .dense [.joined (some "j".toList) false 0 (.leaf none false 0)]

/-- after `el['j'].set('')`: text `''`, one empty member -/
def exElemJSet : Elem := .dict [("j".toList, .joined [] [.leaf []])]

/-- never set: text `''`, no members -/
def exElemJFresh : Elem := .dict [("j".toList, .joined [] [])]

theorem exJ_sepSafe : SepSafe exEnvJ "_".toList (Tok exSchemaJ) := by
  apply sepSafe_single_char exEnvJ exEnvJ_OK exSchemaJ '_'
  · decide
  · intro t ht
    simp only [exSchemaJ, names, namesL, Option.toList, List.nil_append, List.append_nil,
      List.mem_cons, List.not_mem_nil, or_false] at ht
    subst ht; decide

/-! ### (1) the settled state conforms and comes back as it is -/

theorem exJSet_okP : OkP exEnvJ exSchemaJ exElemJSet := by
  simp [exSchemaJ, exElemJSet, OkP, OkPFields, Schema.name, exEnvJ]

theorem exJSet_pr : pr exEnvJ false exSchemaJ exElemJSet = exElemJSet := by
  simp [exSchemaJ, exElemJSet, pr, prFields, exEnvJ]

example : fromFlat exEnvJ "_".toList exSchemaJ (flatten exEnvJ "_".toList exSchemaJ exElemJSet)
    = exElemJSet := by
  rw [roundtrip_pruned exEnvJ "_".toList exSchemaJ exElemJSet exJ_sepSafe exEnvJ_OK (by decide)
    (by decide) (by decide) exJSet_okP, exJSet_pr]

/-! ### (2) the fresh state conforms too; the tree gains the empty member, the flat output is the same -/

theorem exJFresh_okP : OkP exEnvJ exSchemaJ exElemJFresh := by
  simp [exSchemaJ, exElemJFresh, OkP, OkPFields, Schema.name, exEnvJ]

theorem exJFresh_pr : pr exEnvJ false exSchemaJ exElemJFresh = exElemJSet := by
  simp [exSchemaJ, exElemJFresh, exElemJSet, pr, prFields, exEnvJ]

/-- `from_flat` runs `set('')` on the JoinedString: one empty member appears -/
theorem exJFresh_roundtrip :
    fromFlat exEnvJ "_".toList exSchemaJ (flatten exEnvJ "_".toList exSchemaJ exElemJFresh)
      = .dict [("j".toList, .joined [] [.leaf []])] := by
  rw [roundtrip_pruned exEnvJ "_".toList exSchemaJ exElemJFresh exJ_sepSafe exEnvJ_OK (by decide)
    (by decide) (by decide) exJFresh_okP, exJFresh_pr]
  rfl

/-- … which `flatten` does not show (the members of a JoinedString are never flattened) -/
example : flatten exEnvJ "_".toList exSchemaJ
      (fromFlat exEnvJ "_".toList exSchemaJ (flatten exEnvJ "_".toList exSchemaJ exElemJFresh))
    = flatten exEnvJ "_".toList exSchemaJ exElemJFresh :=
  roundtrip_flatten_noprune exEnvJ "_".toList exSchemaJ exElemJFresh exJ_sepSafe exEnvJ_OK (by decide)
    (by decide) (by decide) (by decide) exJFresh_okP

/-- both states flatten to the single pair `j = ''` -/
theorem exJ_flatten :
    flatten exEnvJ "_".toList exSchemaJ exElemJFresh = [("j".toList, "".toList)] ∧
    flatten exEnvJ "_".toList exSchemaJ exElemJSet = [("j".toList, "".toList)] := by
  constructor <;>
  simp [flatten, flattenNode, exSchemaJ, exElemJFresh, exElemJSet, resolve, resolveMembers, resolveOne,
    resolveList, membersOf, bfsFlat, childItems, kidsFrom, namePath, joinSep, FNode.fl, FNode.cfl,
    FNode.u, FNode.name, FNode.kids, FNode.slots, Schema.name]

/-! ### below a pruning List: the dropped pair leaves the member out, the kept one is re-set -/

/-- `List.named('l').of(JoinedString.using(prune_empty=False))` -/
def exSchemaLJ : Schema := .list (some "l".toList) false true 1024 (.joined none false 0 (.leaf none false 0))

/-- `[<set('')>, <set('x')>]` -/
def exElemLJ : Elem := .list [.joined [] [.leaf []], .joined "x".toList [.leaf "x".toList]]

theorem exLJ_sepSafe : SepSafe exEnvJ "_".toList (Tok exSchemaLJ) := by
  apply sepSafe_single_char exEnvJ exEnvJ_OK exSchemaLJ '_'
  · decide
  · intro t ht
    simp only [exSchemaLJ, names, Option.toList, List.append_nil, List.mem_cons, List.not_mem_nil,
      or_false] at ht
    subst ht; decide

theorem exLJ_okP : OkP exEnvJ exSchemaLJ exElemLJ := by
  simp only [exSchemaLJ, exElemLJ, OkP]
  refine ⟨by decide, ?_, ?_⟩
  · intro i hi
    simp only [List.length_cons, List.length_nil] at hi
    have : i = 0 ∨ i = 1 := by omega
    rcases this with rfl | rfl
    · rw [natStr_lt 0 (by omega)]; decide
    · rw [natStr_lt 1 (by omega)]; decide
  · intro e he
    simp only [List.mem_cons, List.not_mem_nil, or_false] at he
    rcases he with rfl | rfl <;> simp [OkP, exEnvJ]

theorem exLJ_pr : pr exEnvJ false exSchemaLJ exElemLJ = .list [.joined "x".toList [.leaf "x".toList]] := by
  simp only [exSchemaLJ, exElemLJ, pr, if_true, List.filter_cons, List.filter_nil, emitsB_joined]
  simp [pr, exEnvJ]

example : fromFlat exEnvJ "_".toList exSchemaLJ (flatten exEnvJ "_".toList exSchemaLJ exElemLJ)
    = .list [.joined "x".toList [.leaf "x".toList]] := by
  rw [roundtrip_pruned exEnvJ "_".toList exSchemaLJ exElemLJ exLJ_sepSafe exEnvJ_OK (by decide)
    (by decide) (by decide) exLJ_okP, exLJ_pr]

end Flatland.Flat.Proofs
