/-
C14, the AST level without `UniSteps`: spec B read depth-first with ranked errors (`denoteStepsR`,
`Spec/C14.lean`) is what the compiled path denotes under `denOrd` (`denoteR_compile`); `_canonicalize`
preserves the ranked reading on the Canon domain (`canonicalize_soundR`) and is, off it, the reading
of the cancelled path (`denOrd_canonicalize`); lifted through tokenizer ∘ printer:
`find_print_denotes_gen`, `find_print_cancel_gen` — no hypothesis on zero steps or strictness.
The old theorems (`denOps_compile`, `eval_denotes`, `find_print_denotes`) are corollaries
(`denoteR_forget_of_uni`, `find_print_denotes_cor`).
-/
import Proofs.C14
import Proofs.C14SliceSpec
namespace Flatland.C14.Proofs
open Flatland.Path Flatland.C14.Spec Flatland.Path.Lemmas

/-! ### `_canonicalize` and the ranked reading (copies of the `denOps` lemmas of `Proofs/C14.lean`) -/

/-- a `.` anywhere in an op list is a no-op -/
theorem denOrd_here (root : Node) (strict : Bool) : ∀ (A B : List Op) (d : Nat) (el : Pos),
    denOrd root strict (A ++ .here :: B) d el = denOrd root strict (A ++ B) d el
  | [], B, d, el => by simp [denOrd]
  | .top :: A, B, d, el => by simp only [List.cons_append, denOrd]; exact denOrd_here root strict A B _ _
  | .up :: A, B, d, el => by simp only [List.cons_append, denOrd]; exact denOrd_here root strict A B _ _
  | .here :: A, B, d, el => by simp only [List.cons_append, denOrd]; exact denOrd_here root strict A B _ _
  | .name nm :: A, B, d, el => by
    simp only [List.cons_append, denOrd]
    cases indexAt root el nm with
    | some i => exact denOrd_here root strict A B _ _
    | none => rfl
  | .slice a b c :: A, B, d, el => by
    simp only [List.cons_append, denOrd]
    have : denOrd root strict (A ++ .here :: B) (d + 1) = denOrd root strict (A ++ B) (d + 1) :=
      funext (denOrd_here root strict A B (d + 1))
    rw [this]

theorem denOrd_filter_here (root : Node) (strict : Bool) : ∀ (B A : List Op) (d : Nat) (el : Pos),
    denOrd root strict (A ++ B.filter (fun o => !o.isHere)) d el = denOrd root strict (A ++ B) d el
  | [], A, d, el => rfl
  | .here :: B, A, d, el => by
    have h1 : (!(Op.here).isHere) = false := rfl
    rw [List.filter_cons]
    simp only [h1, Bool.false_eq_true, if_false]
    rw [denOrd_here, denOrd_filter_here root strict B A d el]
  | .top :: B, A, d, el => by
    have h1 : (!(Op.top).isHere) = true := rfl
    rw [List.filter_cons]
    simp only [h1, if_true]
    have h2 := denOrd_filter_here root strict B (A ++ [.top]) d el
    simp only [List.append_assoc, List.singleton_append] at h2
    exact h2
  | .up :: B, A, d, el => by
    have h1 : (!(Op.up).isHere) = true := rfl
    rw [List.filter_cons]
    simp only [h1, if_true]
    have h2 := denOrd_filter_here root strict B (A ++ [.up]) d el
    simp only [List.append_assoc, List.singleton_append] at h2
    exact h2
  | .name nm :: B, A, d, el => by
    have h1 : (!(Op.name nm).isHere) = true := rfl
    rw [List.filter_cons]
    simp only [h1, if_true]
    have h2 := denOrd_filter_here root strict B (A ++ [.name nm]) d el
    simp only [List.append_assoc, List.singleton_append] at h2
    exact h2
  | .slice a b c :: B, A, d, el => by
    have h1 : (!(Op.slice a b c).isHere) = true := rfl
    rw [List.filter_cons]
    simp only [h1, if_true]
    have h2 := denOrd_filter_here root strict B (A ++ [.slice a b c]) d el
    simp only [List.append_assoc, List.singleton_append] at h2
    exact h2

/-- the loop over a run of `..` and `.`: the accumulator stays `[TOP]` or all-`..`, and means the same -/
theorem foldl_canon_zoneR (root : Node) (strict : Bool) : ∀ (Z canon : List Op),
    Z.all (fun o => o.isUp || o.isHere) = true → ZoneAcc canon →
    ZoneAcc (Z.foldl (canonStep true) canon) ∧
    ∀ (S : List Op) (d : Nat) (el : Pos),
      denOrd root strict ((Z.foldl (canonStep true) canon).reverse ++ S) d el
        = denOrd root strict (canon.reverse ++ (Z ++ S)) d el
  | [], canon, _, hc => ⟨hc, fun S d el => rfl⟩
  | o :: Z, canon, hz, hc => by
    simp only [List.all_cons, Bool.and_eq_true] at hz
    simp only [List.foldl_cons]
    cases o with
    | top => simp [Op.isUp, Op.isHere] at hz
    | name d => simp [Op.isUp, Op.isHere] at hz
    | slice a b c => simp [Op.isUp, Op.isHere] at hz
    | here =>
      have hstep : canonStep true canon .here = canon := by simp [canonStep]
      rw [hstep]
      obtain ⟨h1, h2⟩ := foldl_canon_zoneR root strict Z canon hz.2 hc
      refine ⟨h1, fun S d el => ?_⟩
      rw [h2 S d el, List.cons_append, denOrd_here]
    | up =>
      rcases hc with hc | hc
      · -- after `/`, `..` stays at the root
        subst hc
        have hstep : canonStep true [.top] .up = [.top] := by simp [canonStep]
        rw [hstep]
        obtain ⟨h1, h2⟩ := foldl_canon_zoneR root strict Z [.top] hz.2 (Or.inl rfl)
        refine ⟨h1, fun S d el => ?_⟩
        rw [h2 S d el]
        simp [denOrd]
      · have hstep : canonStep true canon .up = .up :: canon := by
          cases canon with
          | nil => simp [canonStep]
          | cons c cs =>
            simp only [List.all_cons, Bool.and_eq_true] at hc
            cases c <;> simp [Op.isUp] at hc
            simp [canonStep]
        rw [hstep]
        have hc' : ZoneAcc (.up :: canon) := Or.inr (by simp [Op.isUp, hc])
        obtain ⟨h1, h2⟩ := foldl_canon_zoneR root strict Z (.up :: canon) hz.2 hc'
        refine ⟨h1, fun S d el => ?_⟩
        rw [h2 S d el]
        simp

/-- **`_canonicalize` preserves the denotation on the Canon domain** (every `..` before every
    name/index/slice step) -/
theorem canonicalize_soundR (root : Node) (strict : Bool) (p : Spec.Path) (hc : Canon p = true) (d : Nat) (el : Pos) :
    denOrd root strict (canonicalize (compile p)) d el = denOrd root strict (compile p) d el := by
  by_cases hlen : (compile p).length ≤ 1
  · rw [canonicalize_short _ hlen]
  · have hmulti : decide ((compile p).length > 1) = true := by simp; omega
    obtain ⟨Z, R, hsplit, hZ, hR⟩ := canon_split p.steps hc
    have hZ' : (Z.map compileStep).all (fun o => o.isUp || o.isHere) = true := by
      rw [List.all_map]
      simpa [Function.comp_def, compileStep_isUp, compileStep_isHere] using hZ
    have hR' : (R.map compileStep).all (fun o => !o.isUp) = true := by
      rw [List.all_map]
      simpa [Function.comp_def, compileStep_isUp] using hR
    unfold canonicalize
    rw [hmulti]
    unfold compile
    rw [hsplit, List.map_append, List.foldl_append, List.foldl_append]
    -- the accumulator after the optional TOP
    have hacc : ZoneAcc ((if p.top = true then [Op.top] else []).foldl (canonStep true) []) := by
      cases p.top with
      | true => left; simp [canonStep]
      | false => right; rfl
    obtain ⟨_, hz2⟩ := foldl_canon_zoneR root strict (Z.map compileStep) _ hZ' hacc
    rw [foldl_canon_rest _ _ hR', List.reverse_append, List.reverse_reverse]
    rw [hz2]
    have hpre : ((if p.top = true then [Op.top] else []).foldl (canonStep true) []).reverse
        = (if p.top = true then [Op.top] else []) := by
      cases p.top <;> simp [canonStep]
    rw [hpre]
    have := denOrd_filter_here root strict (R.map compileStep)
      ((if p.top = true then [Op.top] else []) ++ Z.map compileStep) d el
    simp only [List.append_assoc] at this
    exact this
/-! ### one compiled step under `denOrd` = the step's denotation, then the rest one element at a time -/

theorem flatMapR_singleton (f : Pos → Ranked) (x : Pos) : flatMapR f [x] = f x := by
  simp only [flatMapR]
  cases f x <;> simp [Ranked.merge]

/-- what a compiled step does under `denOrd`: the step's own error at the current depth, otherwise
    the rest on every selected element, one deeper after a bracket step -/
def stepThen (root : Node) (strict : Bool) (s : Step) (d : Nat) (el : Pos) (k : Nat → Pos → Ranked) : Ranked :=
  match stepDen root strict s el with
  | .error e => .err d e
  | .ok next => flatMapR (k (if s.isSlice then d + 1 else d)) next

theorem denOrd_slice (root : Node) (strict : Bool) (a b c : Option Int) (hc : (c == some 0) = false)
    (r : List Op) (d : Nat) (el : Pos) :
    denOrd root strict (.slice a b c :: r) d el =
      flatMapR (denOrd root strict r (d + 1))
        ((pySlice (nodeAt root el).kids.length a b c).map (fun i => el ++ [i])) := by
  simp only [denOrd, hc, kidsAt_length]
  rfl

theorem denOrd_step (root : Node) (strict : Bool) (s : Step) (r : List Op) (d : Nat) (el : Pos) :
    denOrd root strict (compileStep s :: r) d el
      = stepThen root strict s d el (denOrd root strict r) := by
  unfold stepThen
  cases s with
  | up => simp only [compileStep, denOrd, stepDen, flatMapR_singleton, Step.isSlice]; rfl
  | here => simp only [compileStep, denOrd, stepDen, flatMapR_singleton, Step.isSlice]; rfl
  | name nm =>
    simp only [compileStep, denOrd, stepDen, indexAt_eq_childNamed, Step.isSlice]
    cases childNamed (nodeAt root el) nm with
    | some i => simp only [flatMapR_singleton]; rfl
    | none => cases strict <;> simp [flatMapR]
  | negidx k =>
    have hA : compileStep (.negidx k) = .slice (negA k) (negB k) none := by
      simp only [compileStep, negA, negB]
      by_cases hk : k = 1
      · subst hk; simp
      · simp [hk]
    rw [hA, denOrd_slice _ _ _ _ _ (by rfl), pySlice_negidx]
    simp only [stepDen, Step.isSlice, if_true]
  | slice a b c =>
    by_cases hs : (Step.slice a b c).wf = true
    · simp only [stepDen, stride_ne_zero a b c hs, Bool.false_eq_true, if_false, Step.isSlice, if_true]
      match a, b, c, hs with
      | none, none, none, _ => rw [compileStep, denOrd_slice _ _ _ _ _ (by rfl)]; rfl
      | none, none, some none, _ => rw [compileStep, denOrd_slice _ _ _ _ _ (by rfl)]; rfl
      | none, none, some (some v), h =>
        have hv : (some v == some (0 : Int)) = false := by simpa [Step.wf] using h
        simp only [compileStep, Option.getD_some]
        rw [denOrd_slice _ _ _ _ _ hv]; rfl
      | some x, none, none, _ => simp only [compileStep, Option.getD_some]; rw [denOrd_slice _ _ _ _ _ (by rfl)]; rfl
      | none, some y, none, _ =>
        simp only [compileStep, Option.getD_none]
        rw [denOrd_slice _ _ _ _ _ (by rfl), pySlice_start_zero]; rfl
      | some x, some y, none, _ => simp only [compileStep, Option.getD_some]; rw [denOrd_slice _ _ _ _ _ (by rfl)]; rfl
      | some x, none, some none, _ =>
        simp only [compileStep, Option.getD_none]
        rw [denOrd_slice _ _ _ _ _ (by decide), pySlice_stride_one]; rfl
      | none, some y, some none, _ =>
        simp only [compileStep, Option.getD_none]
        rw [denOrd_slice _ _ _ _ _ (by decide), pySlice_stride_one]; rfl
      | some x, some y, some none, _ =>
        simp only [compileStep, Option.getD_none]
        rw [denOrd_slice _ _ _ _ _ (by decide), pySlice_stride_one]; rfl
      | some x, none, some (some v), h =>
        have hv : (some v == some (0 : Int)) = false := by simpa [Step.wf] using h
        simp only [compileStep, Option.getD_some]
        rw [denOrd_slice _ _ _ _ _ hv]; rfl
      | none, some y, some (some v), h =>
        have hv : (some v == some (0 : Int)) = false := by simpa [Step.wf] using h
        simp only [compileStep, Option.getD_some]
        rw [denOrd_slice _ _ _ _ _ hv]; rfl
      | some x, some y, some (some v), h =>
        have hv : (some v == some (0 : Int)) = false := by simpa [Step.wf] using h
        simp only [compileStep, Option.getD_some]
        rw [denOrd_slice _ _ _ _ _ hv]; rfl
    · -- only `[a:b:0]` is not wf: `ValueError` at the current depth on both sides
      match c, hs with
      | none, hs => exact absurd rfl hs
      | some none, hs => exact absurd rfl hs
      | some (some v), hs =>
        have hv : v = 0 := by simpa [Step.wf] using hs
        subst hv
        have hc : compileStep (.slice a b (some (some 0))) = .slice a b (some 0) := by
          cases a <;> cases b <;> rfl
        simp [hc, denOrd, stepDen, Step.stride]

/-- **compiled steps under `denOrd` = the ranked depth-first reading of the steps**, every step list,
    every depth: no `UniSteps` -/
theorem denoteStepsR_compile (root : Node) (strict : Bool) : ∀ (steps : List Step) (d : Nat) (el : Pos),
    denOrd root strict (steps.map compileStep) d el = denoteStepsR root strict steps d el
  | [], d, el => by simp [denOrd, denoteStepsR]
  | s :: r, d, el => by
    rw [List.map_cons, denOrd_step, stepThen, denoteStepsR]
    have : ∀ d', denOrd root strict (r.map compileStep) d' = denoteStepsR root strict r d' :=
      fun d' => funext (denoteStepsR_compile root strict r d')
    cases stepDen root strict s el with
    | error e => rfl
    | ok next => simp only [this]

/-- **compiled AST = ranked denotation** (`denOps_compile` without `UniSteps`) -/
theorem denoteR_compile (root : Node) (strict : Bool) (p : Spec.Path) (el : Pos) :
    denOrd root strict (compile p) 0 el = denoteR p root el strict := by
  unfold compile denoteR
  rw [← denoteStepsR_compile]
  cases p.top with
  | true => simp [denOrd]
  | false => simp

/-- where only one kind of error can arise the ranked reading forgets to spec B's `denote` -/
theorem denoteR_forget_of_uni (root : Node) (strict : Bool) (p : Spec.Path)
    (hwf : UniSteps strict p.steps) (el : Pos) :
    (denoteR p root el strict).forget = denote p root el strict := by
  rw [← denoteR_compile, denOrd_forget_of_uni _ _ _ _ (uni_compile strict p hwf), denOps_compile _ _ _ hwf]

/-- `denOps_compile` again, as a corollary -/
theorem denOps_compile_cor (root : Node) (strict : Bool) (p : Spec.Path) (hwf : UniSteps strict p.steps)
    (el : Pos) : denOps root strict (compile p) el = denote p root el strict := by
  rw [← denOrd_forget_of_uni _ _ _ _ (uni_compile strict p hwf), denoteR_compile,
    denoteR_forget_of_uni _ _ _ hwf]
/-! ### evaluator ∘ canonicalize ∘ compile, and `find ∘ print`, with no hypothesis on the errors -/

/-- `denOps_canonicalize` for the ranked reading: what the code evaluates is the cancelled path -/
theorem denOrd_canonicalize (root : Node) (strict : Bool) (p : Spec.Path) (d : Nat) (el : Pos) :
    denOrd root strict (canonicalize (compile p)) d el = denOrd root strict (compile (cancel p)) d el := by
  by_cases hlen : (compile p).length > 1
  · rw [canonicalize_cancel p hlen]
  · rw [canonicalize_short _ (by omega)]
    cases hp : p with | mk top steps =>
    subst hp
    cases top with
    | true =>
      cases steps with
      | nil => rfl
      | cons s r => simp [compile] at hlen
    | false =>
      cases steps with
      | nil => rfl
      | cons s r =>
        cases r with
        | cons _ _ => simp [compile] at hlen
        | nil =>
          cases s with
          | here => simp [compile, cancel, cancelStep, compileStep, denOrd]
          | up => simp [compile, cancel, cancelStep]
          | name n => simp [compile, cancel, cancelStep]
          | negidx n => simp [compile, cancel, cancelStep]
          | slice a b c => simp [compile, cancel, cancelStep]

/-- **evaluator ∘ canonicalize ∘ compile = ranked denotation** on the Canon domain (`eval_denotes`
    without `UniSteps`): also WHICH exception is raised -/
theorem eval_denotes_gen (root : Node) (strict : Bool) (p : Spec.Path) (hc : Canon p = true) (el : Pos) :
    evalOps root strict (canonicalize (compile p)) el = (denoteR p root el strict).forget := by
  rw [evalOps_denotes_gen, canonicalize_soundR _ _ _ hc, denoteR_compile]

theorem eval_denotes_raw_gen (root : Node) (strict : Bool) (p : Spec.Path) (el : Pos) :
    evalOps root strict (compile p) el = (denoteR p root el strict).forget := by
  rw [evalOps_denotes_gen, denoteR_compile]

/-- every path: the evaluator on the canonicalised compiled path = the ranked denotation of the
    cancelled path (`eval_cancel_denotes` without `UniSteps`) -/
theorem eval_cancel_denotes_gen (root : Node) (strict : Bool) (p : Spec.Path) (el : Pos) :
    evalOps root strict (canonicalize (compile p)) el = (denoteR (cancel p) root el strict).forget := by
  rw [evalOps_denotes_gen, denOrd_canonicalize, denoteR_compile]

/-- on the Canon domain cancelling changes nothing of the ranked reading -/
theorem denoteR_cancel_canon (root : Node) (strict : Bool) (p : Spec.Path) (hc : Canon p = true) (el : Pos) :
    denoteR (cancel p) root el strict = denoteR p root el strict := by
  rw [← denoteR_compile, ← denOrd_canonicalize, canonicalize_soundR _ _ _ hc, denoteR_compile]

theorem findResOf_forget (p : Spec.Path) (root : Node) (start : Pos) (single strict : Bool) :
    findResOf single strict (denoteR p root start strict).forget = findSpecR p root start single strict := by
  simp only [findResOf, findSpecR]
  cases (denoteR p root start strict).forget with
  | error e => cases single <;> rfl
  | ok res => cases single <;> rfl

/-- **end to end, every spellable path, every `strict`, zero steps or not** (no `Canon`, no
    `UniSteps`): `find` on the printed path = the ranked reading of the cancelled AST, including
    which exception is raised when several are reachable -/
theorem find_print_cancel_gen (root : Node) (start : Pos) (p : CPath) (single strict : Bool)
    (hwf : p.wf = true) (hfit : ∀ c ∈ p.steps, StepFits c.step) :
    find root start (print p) single strict = findSpecR (cancel p.abstract) root start single strict := by
  rw [find_denotes_gen _ _ _ _ _ _ (tokenize_print p hwf hfit)]
  have hden : denOrd root strict
      (if p.steps.any (fun c => c.step.isUp || c.step.isHere) then canonicalize (compile p.abstract)
        else compile p.abstract) 0 start = denoteR (cancel p.abstract) root start strict := by
    split
    · rw [denOrd_canonicalize, denoteR_compile]
    · next hno =>
      have hno' : p.abstract.steps.any (fun s => s.isUp || s.isHere) = false := by
        simp only [CPath.abstract, List.any_map]
        simpa [Function.comp_def] using hno
      have hc : Canon p.abstract = true := canon_of_noDots _ false hno'
      rw [denoteR_compile, denoteR_cancel_canon _ _ _ hc]
  rw [hden, findResOf_forget]

/-- **end to end on the Canon domain** (`find_print_denotes` without `UniSteps`): `find` on the printed
    path = the ranked reading of the AST itself -/
theorem find_print_denotes_gen (root : Node) (start : Pos) (p : CPath) (single strict : Bool)
    (hwf : p.wf = true) (hfit : ∀ c ∈ p.steps, StepFits c.step) (hc : Canon p.abstract = true) :
    find root start (print p) single strict = findSpecR p.abstract root start single strict := by
  rw [find_print_cancel_gen _ _ _ _ _ hwf hfit]
  simp only [findSpecR, denoteR_cancel_canon _ _ _ hc]

theorem findSpecR_of_uni (root : Node) (start : Pos) (p : Spec.Path) (single strict : Bool)
    (hu : UniSteps strict p.steps) :
    findSpecR p root start single strict = findSpec p root start single strict := by
  simp only [findSpecR, findSpec, denoteR_forget_of_uni _ _ _ hu]

/-- the old `find_print_denotes` as a corollary -/
theorem find_print_denotes_cor (root : Node) (start : Pos) (p : CPath) (single strict : Bool)
    (hwf : p.wf = true) (hfit : ∀ c ∈ p.steps, StepFits c.step) (hc : Canon p.abstract = true)
    (hu : UniSteps strict p.abstract.steps) :
    find root start (print p) single strict = findSpec p.abstract root start single strict := by
  rw [find_print_denotes_gen _ _ _ _ _ hwf hfit hc, findSpecR_of_uni _ _ _ _ _ hu]

/-- the old `find_print_cancel` as a corollary -/
theorem find_print_cancel_cor (root : Node) (start : Pos) (p : CPath) (single strict : Bool)
    (hwf : p.wf = true) (hfit : ∀ c ∈ p.steps, StepFits c.step) (hu : UniSteps strict p.abstract.steps) :
    find root start (print p) single strict = findSpec (cancel p.abstract) root start single strict := by
  rw [find_print_cancel_gen _ _ _ _ _ hwf hfit, findSpecR_of_uni _ _ _ _ _ (uniSteps_cancel strict _ hu)]

/-- the old `eval_denotes` as a corollary -/
theorem eval_denotes_cor (root : Node) (strict : Bool) (p : Spec.Path)
    (hwf : UniSteps strict p.steps) (hc : Canon p = true) (el : Pos) :
    evalOps root strict (canonicalize (compile p)) el = denote p root el strict := by
  rw [eval_denotes_gen _ _ _ hc, denoteR_forget_of_uni _ _ _ hwf]

/-! ### non-vacuity: the three orders differ, and the ranked AST reading is the code's

`mixedTree` = Dict{x: Dict{a: List[…]}, y: Dict{b}} (`Proofs/C14.lean`).  `[:]/a[::0]`, strict: the
lookup `a` fails below `y` (LookupError), the zero step is reached below `x/a` (ValueError), both at
depth 1, `x` first in sequence order: the code raises ValueError.  Spec B's step-major `denote` meets
the failed lookup first (step 2 over the whole selection, before step 3). -/

def mixedPath : Spec.Path :=
  ⟨false, [.slice none none none, .name ['a'], .slice none none (some (some 0))]⟩

example : (denoteR mixedPath mixedTree [] true).forget = .error .value := by decide
example : denote mixedPath mixedTree [] true = .error .lookup := by decide
example : ¬ UniSteps true mixedPath.steps := by
  intro h; rcases h with h | h <;> exact absurd h (by decide)
example : evalOps mixedTree true (compile mixedPath) [] = .error .value := by
  rw [eval_denotes_raw_gen]; decide

/-- `[:]/a[:][::0]`, strict: the LookupError (depth 1) beats the ValueError (depth 2) although it is
    later in sequence order -/
def mixedPath2 : Spec.Path :=
  ⟨false, [.slice none none none, .name ['a'], .slice none none none, .slice none none (some (some 0))]⟩

example : denoteR mixedPath2 mixedTree [] true = .err 1 .lookup := by decide
example : evalOps mixedTree true (compile mixedPath2) [] = .error .lookup := by
  rw [eval_denotes_raw_gen]; decide

/-- the same end to end, through printer and tokenizer: `find('[:]/a[::0]', strict=True)` raises
    ValueError — an instance of `find_print_denotes_gen` that `find_print_denotes` does not cover -/
def mixedCPath : CPath :=
  ⟨false, false, [⟨.slice none none none, {}⟩, ⟨.name ['a'], {}⟩, ⟨.slice none none (some (some 0)), {}⟩]⟩

theorem mixedCPath_fits : ∀ c ∈ mixedCPath.steps, StepFits c.step := by
  intro c hc
  simp only [mixedCPath, List.mem_cons, List.mem_nil_iff, or_false] at hc
  rcases hc with hc | hc | hc <;> subst hc
  · exact ⟨trivial, trivial, trivial⟩
  · trivial
  · refine ⟨trivial, trivial, ?_⟩
    show IntFits 0
    left
    simp [natStr_zero]
    decide

example : find mixedTree [] (print mixedCPath) false true = .err .value := by
  rw [find_print_denotes_gen _ _ _ _ _ (by decide) mixedCPath_fits (by decide)]
  have : (denoteR mixedCPath.abstract mixedTree [] true).forget = .error .value := by decide
  simp [findSpecR, this]

end Flatland.C14.Proofs
