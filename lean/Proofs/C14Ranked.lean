/-
C14, the AST level without `UniSteps`: spec B read depth-first with ranked errors (`denoteStepsR`,
`Spec/C14.lean`) is what the compiled path denotes under `denOrd` (`denoteR_compile`); `_canonicalize`
preserves the ranked reading on the Canon domain (`canonicalize_soundR`) and is, off it, the reading
of the cancelled path (`denOrd_canonicalize`); lifted through tokenizer ∘ printer:
`find_print_denotes_gen`, `find_print_cancel_gen` — no hypothesis on zero steps or strictness.
The old theorems (`denOps_compile`, `eval_denotes`, `find_print_denotes`) are corollaries
(`denoteR_forget_of_uni`, `find_print_denotes_cor`).
-/
import Proofs.C14
namespace Flatland.C14.Proofs
open Flatland.Path Flatland.C14.Spec Flatland.Path.Lemmas

/-! ### `_canonicalize` and the ranked reading (copies of the `denOps` lemmas of `Proofs/C14.lean`) -/

/-- a `.` anywhere in an op list is a no-op -/
theorem denOrd_here (root : Node) (strict : Bool) : ∀ (A B : List Op) (d : Nat) (el : Pos),
    denOrd root strict (A ++ .here :: B) d el = denOrd root strict (A ++ B) d el
  | [], B, d, el => by simp [denOrd]
  | .top :: A, B, d, el => by simp only [List.cons_append, denOrd]; exact denOrd_here root strict A B _ _
  | .up :: A, B, d, el => by simp only [List.cons_append, denOrd]; exact denOrd_here root strict A B _ _
  | .here :: A, B, d, el => by simp only [List.cons_append, denOrd]; exact denOrd_here root strict A B _ _
  | .name nm :: A, B, d, el => by
    simp only [List.cons_append, denOrd]
    cases indexAt root el nm with
    | some i => exact denOrd_here root strict A B _ _
    | none => rfl
  | .slice a b c :: A, B, d, el => by
    simp only [List.cons_append, denOrd]
    have : denOrd root strict (A ++ .here :: B) (d + 1) = denOrd root strict (A ++ B) (d + 1) :=
      funext (denOrd_here root strict A B (d + 1))
    rw [this]

theorem denOrd_filter_here (root : Node) (strict : Bool) : ∀ (B A : List Op) (d : Nat) (el : Pos),
    denOrd root strict (A ++ B.filter (fun o => !o.isHere)) d el = denOrd root strict (A ++ B) d el
  | [], A, d, el => rfl
  | .here :: B, A, d, el => by
    have h1 : (!(Op.here).isHere) = false := rfl
    rw [List.filter_cons]
    simp only [h1, Bool.false_eq_true, if_false]
    rw [denOrd_here, denOrd_filter_here root strict B A d el]
  | .top :: B, A, d, el => by
    have h1 : (!(Op.top).isHere) = true := rfl
    rw [List.filter_cons]
    simp only [h1, if_true]
    have h2 := denOrd_filter_here root strict B (A ++ [.top]) d el
    simp only [List.append_assoc, List.singleton_append] at h2
    exact h2
  | .up :: B, A, d, el => by
    have h1 : (!(Op.up).isHere) = true := rfl
    rw [List.filter_cons]
    simp only [h1, if_true]
    have h2 := denOrd_filter_here root strict B (A ++ [.up]) d el
    simp only [List.append_assoc, List.singleton_append] at h2
    exact h2
  | .name nm :: B, A, d, el => by
    have h1 : (!(Op.name nm).isHere) = true := rfl
    rw [List.filter_cons]
    simp only [h1, if_true]
    have h2 := denOrd_filter_here root strict B (A ++ [.name nm]) d el
    simp only [List.append_assoc, List.singleton_append] at h2
    exact h2
  | .slice a b c :: B, A, d, el => by
    have h1 : (!(Op.slice a b c).isHere) = true := rfl
    rw [List.filter_cons]
    simp only [h1, if_true]
    have h2 := denOrd_filter_here root strict B (A ++ [.slice a b c]) d el
    simp only [List.append_assoc, List.singleton_append] at h2
    exact h2

/-- the loop over a run of `..` and `.`: the accumulator stays `[TOP]` or all-`..`, and means the same -/
theorem foldl_canon_zoneR (root : Node) (strict : Bool) : ∀ (Z canon : List Op),
    Z.all (fun o => o.isUp || o.isHere) = true → ZoneAcc canon →
    ZoneAcc (Z.foldl (canonStep true) canon) ∧
    ∀ (S : List Op) (d : Nat) (el : Pos),
      denOrd root strict ((Z.foldl (canonStep true) canon).reverse ++ S) d el
        = denOrd root strict (canon.reverse ++ (Z ++ S)) d el
  | [], canon, _, hc => ⟨hc, fun S d el => rfl⟩
  | o :: Z, canon, hz, hc => by
    simp only [List.all_cons, Bool.and_eq_true] at hz
    simp only [List.foldl_cons]
    cases o with
    | top => simp [Op.isUp, Op.isHere] at hz
    | name d => simp [Op.isUp, Op.isHere] at hz
    | slice a b c => simp [Op.isUp, Op.isHere] at hz
    | here =>
      have hstep : canonStep true canon .here = canon := by simp [canonStep]
      rw [hstep]
      obtain ⟨h1, h2⟩ := foldl_canon_zoneR root strict Z canon hz.2 hc
      refine ⟨h1, fun S d el => ?_⟩
      rw [h2 S d el, List.cons_append, denOrd_here]
    | up =>
      rcases hc with hc | hc
      · -- after `/`, `..` stays at the root
        subst hc
        have hstep : canonStep true [.top] .up = [.top] := by simp [canonStep]
        rw [hstep]
        obtain ⟨h1, h2⟩ := foldl_canon_zoneR root strict Z [.top] hz.2 (Or.inl rfl)
        refine ⟨h1, fun S d el => ?_⟩
        rw [h2 S d el]
        simp [denOrd]
      · have hstep : canonStep true canon .up = .up :: canon := by
          cases canon with
          | nil => simp [canonStep]
          | cons c cs =>
            simp only [List.all_cons, Bool.and_eq_true] at hc
            cases c <;> simp [Op.isUp] at hc
            simp [canonStep]
        rw [hstep]
        have hc' : ZoneAcc (.up :: canon) := Or.inr (by simp [Op.isUp, hc])
        obtain ⟨h1, h2⟩ := foldl_canon_zoneR root strict Z (.up :: canon) hz.2 hc'
        refine ⟨h1, fun S d el => ?_⟩
        rw [h2 S d el]
        simp

/-- **`_canonicalize` preserves the denotation on the Canon domain** (every `..` before every
    name/index/slice step) -/
theorem canonicalize_soundR (root : Node) (strict : Bool) (p : Spec.Path) (hc : Canon p = true) (d : Nat) (el : Pos) :
    denOrd root strict (canonicalize (compile p)) d el = denOrd root strict (compile p) d el := by
  by_cases hlen : (compile p).length ≤ 1
  · rw [canonicalize_short _ hlen]
  · have hmulti : decide ((compile p).length > 1) = true := by simp; omega
    obtain ⟨Z, R, hsplit, hZ, hR⟩ := canon_split p.steps hc
    have hZ' : (Z.map compileStep).all (fun o => o.isUp || o.isHere) = true := by
      rw [List.all_map]
      simpa [Function.comp_def, compileStep_isUp, compileStep_isHere] using hZ
    have hR' : (R.map compileStep).all (fun o => !o.isUp) = true := by
      rw [List.all_map]
      simpa [Function.comp_def, compileStep_isUp] using hR
    unfold canonicalize
    rw [hmulti]
    unfold compile
    rw [hsplit, List.map_append, List.foldl_append, List.foldl_append]
    -- the accumulator after the optional TOP
    have hacc : ZoneAcc ((if p.top = true then [Op.top] else []).foldl (canonStep true) []) := by
      cases p.top with
      | true => left; simp [canonStep]
      | false => right; rfl
    obtain ⟨_, hz2⟩ := foldl_canon_zoneR root strict (Z.map compileStep) _ hZ' hacc
    rw [foldl_canon_rest _ _ hR', List.reverse_append, List.reverse_reverse]
    rw [hz2]
    have hpre : ((if p.top = true then [Op.top] else []).foldl (canonStep true) []).reverse
        = (if p.top = true then [Op.top] else []) := by
      cases p.top <;> simp [canonStep]
    rw [hpre]
    have := denOrd_filter_here root strict (R.map compileStep)
      ((if p.top = true then [Op.top] else []) ++ Z.map compileStep) d el
    simp only [List.append_assoc] at this
    exact this

end Flatland.C14.Proofs
