/-
C14, the AST level without `UniSteps`: spec B read depth-first with ranked errors (`denoteStepsR`,
`Spec/C14.lean`) is what the compiled path denotes under `denOrd` (`denoteR_compile`); `_canonicalize`
preserves the ranked reading on the Canon domain (`canonicalize_soundR`) and is, off it, the reading
of the cancelled path (`denOrd_canonicalize`); lifted through tokenizer ∘ printer:
`find_print_denotes_gen`, `find_print_cancel_gen` — no hypothesis on zero steps or strictness.
The old theorems (`denOps_compile`, `eval_denotes`, `find_print_denotes`) are corollaries
(`denoteR_forget_of_uni`, `find_print_denotes_cor`).
-/
import Proofs.C14
namespace Flatland.C14.Proofs
open Flatland.Path Flatland.C14.Spec Flatland.Path.Lemmas

/-! ### `_canonicalize` and the ranked reading (copies of the `denOps` lemmas of `Proofs/C14.lean`) -/

/-- a `.` anywhere in an op list is a no-op -/
theorem denOrd_here (root : Node) (strict : Bool) : ∀ (A B : List Op) (d : Nat) (el : Pos),
    denOrd root strict (A ++ .here :: B) d el = denOrd root strict (A ++ B) d el
  | [], B, d, el => by simp [denOrd]
  | .top :: A, B, d, el => by simp only [List.cons_append, denOrd]; exact denOrd_here root strict A B _ _
  | .up :: A, B, d, el => by simp only [List.cons_append, denOrd]; exact denOrd_here root strict A B _ _
  | .here :: A, B, d, el => by simp only [List.cons_append, denOrd]; exact denOrd_here root strict A B _ _
  | .name nm :: A, B, d, el => by
    simp only [List.cons_append, denOrd]
    cases indexAt root el nm with
    | some i => exact denOrd_here root strict A B _ _
    | none => rfl
  | .slice a b c :: A, B, d, el => by
    simp only [List.cons_append, denOrd]
    have : denOrd root strict (A ++ .here :: B) (d + 1) = denOrd root strict (A ++ B) (d + 1) :=
      funext (denOrd_here root strict A B (d + 1))
    rw [this]

theorem denOrd_filter_here (root : Node) (strict : Bool) : ∀ (B A : List Op) (d : Nat) (el : Pos),
    denOrd root strict (A ++ B.filter (fun o => !o.isHere)) d el = denOrd root strict (A ++ B) d el
  | [], A, d, el => rfl
  | .here :: B, A, d, el => by
    have h1 : (!(Op.here).isHere) = false := rfl
    rw [List.filter_cons]
    simp only [h1, Bool.false_eq_true, if_false]
    rw [denOrd_here, denOrd_filter_here root strict B A d el]
  | .top :: B, A, d, el => by
    have h1 : (!(Op.top).isHere) = true := rfl
    rw [List.filter_cons]
    simp only [h1, if_true]
    have h2 := denOrd_filter_here root strict B (A ++ [.top]) d el
    simp only [List.append_assoc, List.singleton_append] at h2
    exact h2
  | .up :: B, A, d, el => by
    have h1 : (!(Op.up).isHere) = true := rfl
    rw [List.filter_cons]
    simp only [h1, if_true]
    have h2 := denOrd_filter_here root strict B (A ++ [.up]) d el
    simp only [List.append_assoc, List.singleton_append] at h2
    exact h2
  | .name nm :: B, A, d, el => by
    have h1 : (!(Op.name nm).isHere) = true := rfl
    rw [List.filter_cons]
    simp only [h1, if_true]
    have h2 := denOrd_filter_here root strict B (A ++ [.name nm]) d el
    simp only [List.append_assoc, List.singleton_append] at h2
    exact h2
  | .slice a b c :: B, A, d, el => by
    have h1 : (!(Op.slice a b c).isHere) = true := rfl
    rw [List.filter_cons]
    simp only [h1, if_true]
    have h2 := denOrd_filter_here root strict B (A ++ [.slice a b c]) d el
    simp only [List.append_assoc, List.singleton_append] at h2
    exact h2

/-- the loop over a run of `..` and `.`: the accumulator stays `[TOP]` or all-`..`, and means the same -/
theorem foldl_canon_zoneR (root : Node) (strict : Bool) : ∀ (Z canon : List Op),
    Z.all (fun o => o.isUp || o.isHere) = true → ZoneAcc canon →
    ZoneAcc (Z.foldl (canonStep true) canon) ∧
    ∀ (S : List Op) (d : Nat) (el : Pos),
      denOrd root strict ((Z.foldl (canonStep true) canon).reverse ++ S) d el
        = denOrd root strict (canon.reverse ++ (Z ++ S)) d el
  | [], canon, _, hc => ⟨hc, fun S d el => rfl⟩
  | o :: Z, canon, hz, hc => by
    simp only [List.all_cons, Bool.and_eq_true] at hz
    simp only [List.foldl_cons]
    cases o with
    | top => simp [Op.isUp, Op.isHere] at hz
    | name d => simp [Op.isUp, Op.isHere] at hz
    | slice a b c => simp [Op.isUp, Op.isHere] at hz
    | here =>
      have hstep : canonStep true canon .here = canon := by simp [canonStep]
      rw [hstep]
      obtain ⟨h1, h2⟩ := foldl_canon_zoneR root strict Z canon hz.2 hc
      refine ⟨h1, fun S d el => ?_⟩
      rw [h2 S d el, List.cons_append, denOrd_here]
    | up =>
      rcases hc with hc | hc
      · -- after `/`, `..` stays at the root
        subst hc
        have hstep : canonStep true [.top] .up = [.top] := by simp [canonStep]
        rw [hstep]
        obtain ⟨h1, h2⟩ := foldl_canon_zoneR root strict Z [.top] hz.2 (Or.inl rfl)
        refine ⟨h1, fun S d el => ?_⟩
        rw [h2 S d el]
        simp [denOrd]
      · have hstep : canonStep true canon .up = .up :: canon := by
          cases canon with
          | nil => simp [canonStep]
          | cons c cs =>
            simp only [List.all_cons, Bool.and_eq_true] at hc
            cases c <;> simp [Op.isUp] at hc
            simp [canonStep]
        rw [hstep]
        have hc' : ZoneAcc (.up :: canon) := Or.inr (by simp [Op.isUp, hc])
        obtain ⟨h1, h2⟩ := foldl_canon_zoneR root strict Z (.up :: canon) hz.2 hc'
        refine ⟨h1, fun S d el => ?_⟩
        rw [h2 S d el]
        simp

/-- **`_canonicalize` preserves the denotation on the Canon domain** (every `..` before every
    name/index/slice step) -/
theorem canonicalize_soundR (root : Node) (strict : Bool) (p : Spec.Path) (hc : Canon p = true) (d : Nat) (el : Pos) :
    denOrd root strict (canonicalize (compile p)) d el = denOrd root strict (compile p) d el := by
  by_cases hlen : (compile p).length ≤ 1
  · rw [canonicalize_short _ hlen]
  · have hmulti : decide ((compile p).length > 1) = true := by simp; omega
    obtain ⟨Z, R, hsplit, hZ, hR⟩ := canon_split p.steps hc
    have hZ' : (Z.map compileStep).all (fun o => o.isUp || o.isHere) = true := by
      rw [List.all_map]
      simpa [Function.comp_def, compileStep_isUp, compileStep_isHere] using hZ
    have hR' : (R.map compileStep).all (fun o => !o.isUp) = true := by
      rw [List.all_map]
      simpa [Function.comp_def, compileStep_isUp] using hR
    unfold canonicalize
    rw [hmulti]
    unfold compile
    rw [hsplit, List.map_append, List.foldl_append, List.foldl_append]
    -- the accumulator after the optional TOP
    have hacc : ZoneAcc ((if p.top = true then [Op.top] else []).foldl (canonStep true) []) := by
      cases p.top with
      | true => left; simp [canonStep]
      | false => right; rfl
    obtain ⟨_, hz2⟩ := foldl_canon_zoneR root strict (Z.map compileStep) _ hZ' hacc
    rw [foldl_canon_rest _ _ hR', List.reverse_append, List.reverse_reverse]
    rw [hz2]
    have hpre : ((if p.top = true then [Op.top] else []).foldl (canonStep true) []).reverse
        = (if p.top = true then [Op.top] else []) := by
      cases p.top <;> simp [canonStep]
    rw [hpre]
    have := denOrd_filter_here root strict (R.map compileStep)
      ((if p.top = true then [Op.top] else []) ++ Z.map compileStep) d el
    simp only [List.append_assoc] at this
    exact this
/-! ### one compiled step under `denOrd` = the step's denotation, then the rest one element at a time -/

theorem flatMapR_singleton (f : Pos → Ranked) (x : Pos) : flatMapR f [x] = f x := by
  simp only [flatMapR]
  cases f x <;> simp [Ranked.merge]

/-- what a compiled step does under `denOrd`: the step's own error at the current depth, otherwise
    the rest on every selected element, one deeper after a bracket step -/
def stepThen (root : Node) (strict : Bool) (s : Step) (d : Nat) (el : Pos) (k : Nat → Pos → Ranked) : Ranked :=
  match stepDen root strict s el with
  | .error e => .err d e
  | .ok next => flatMapR (k (if s.isSlice then d + 1 else d)) next

theorem denOrd_slice (root : Node) (strict : Bool) (a b c : Option Int) (hc : (c == some 0) = false)
    (r : List Op) (d : Nat) (el : Pos) :
    denOrd root strict (.slice a b c :: r) d el =
      flatMapR (denOrd root strict r (d + 1))
        ((pySlice (nodeAt root el).kids.length a b c).map (fun i => el ++ [i])) := by
  simp only [denOrd, hc, kidsAt_length]
  rfl

theorem denOrd_step (root : Node) (strict : Bool) (s : Step) (r : List Op) (d : Nat) (el : Pos) :
    denOrd root strict (compileStep s :: r) d el
      = stepThen root strict s d el (denOrd root strict r) := by
  unfold stepThen
  cases s with
  | up => simp only [compileStep, denOrd, stepDen, flatMapR_singleton, Step.isSlice]; rfl
  | here => simp only [compileStep, denOrd, stepDen, flatMapR_singleton, Step.isSlice]; rfl
  | name nm =>
    simp only [compileStep, denOrd, stepDen, indexAt_eq_childNamed, Step.isSlice]
    cases childNamed (nodeAt root el) nm with
    | some i => simp only [flatMapR_singleton]; rfl
    | none => cases strict <;> simp [flatMapR]
  | negidx k =>
    have hA : compileStep (.negidx k) = .slice (negA k) (negB k) none := by
      simp only [compileStep, negA, negB]
      by_cases hk : k = 1
      · subst hk; simp
      · simp [hk]
    rw [hA, denOrd_slice _ _ _ _ _ (by rfl), pySlice_negidx]
    simp only [stepDen, Step.isSlice, if_true]
  | slice a b c =>
    by_cases hs : (Step.slice a b c).wf = true
    · simp only [stepDen, stride_ne_zero a b c hs, Bool.false_eq_true, if_false, Step.isSlice, if_true]
      match a, b, c, hs with
      | none, none, none, _ => rw [compileStep, denOrd_slice _ _ _ _ _ (by rfl)]; rfl
      | none, none, some none, _ => rw [compileStep, denOrd_slice _ _ _ _ _ (by rfl)]; rfl
      | none, none, some (some v), h =>
        have hv : (some v == some (0 : Int)) = false := by simpa [Step.wf] using h
        simp only [compileStep, Option.getD_some]
        rw [denOrd_slice _ _ _ _ _ hv]; rfl
      | some x, none, none, _ => simp only [compileStep, Option.getD_some]; rw [denOrd_slice _ _ _ _ _ (by rfl)]; rfl
      | none, some y, none, _ =>
        simp only [compileStep, Option.getD_none]
        rw [denOrd_slice _ _ _ _ _ (by rfl), pySlice_start_zero]; rfl
      | some x, some y, none, _ => simp only [compileStep, Option.getD_some]; rw [denOrd_slice _ _ _ _ _ (by rfl)]; rfl
      | some x, none, some none, _ =>
        simp only [compileStep, Option.getD_none]
        rw [denOrd_slice _ _ _ _ _ (by decide), pySlice_stride_one]; rfl
      | none, some y, some none, _ =>
        simp only [compileStep, Option.getD_none]
        rw [denOrd_slice _ _ _ _ _ (by decide), pySlice_stride_one]; rfl
      | some x, some y, some none, _ =>
        simp only [compileStep, Option.getD_none]
        rw [denOrd_slice _ _ _ _ _ (by decide), pySlice_stride_one]; rfl
      | some x, none, some (some v), h =>
        have hv : (some v == some (0 : Int)) = false := by simpa [Step.wf] using h
        simp only [compileStep, Option.getD_some]
        rw [denOrd_slice _ _ _ _ _ hv]; rfl
      | none, some y, some (some v), h =>
        have hv : (some v == some (0 : Int)) = false := by simpa [Step.wf] using h
        simp only [compileStep, Option.getD_some]
        rw [denOrd_slice _ _ _ _ _ hv]; rfl
      | some x, some y, some (some v), h =>
        have hv : (some v == some (0 : Int)) = false := by simpa [Step.wf] using h
        simp only [compileStep, Option.getD_some]
        rw [denOrd_slice _ _ _ _ _ hv]; rfl
    · -- only `[a:b:0]` is not wf: `ValueError` at the current depth on both sides
      match c, hs with
      | none, hs => exact absurd rfl hs
      | some none, hs => exact absurd rfl hs
      | some (some v), hs =>
        have hv : v = 0 := by simpa [Step.wf] using hs
        subst hv
        have hc : compileStep (.slice a b (some (some 0))) = .slice a b (some 0) := by
          cases a <;> cases b <;> rfl
        simp [hc, denOrd, stepDen, Step.stride]

/-- **compiled steps under `denOrd` = the ranked depth-first reading of the steps**, every step list,
    every depth: no `UniSteps` -/
theorem denoteStepsR_compile (root : Node) (strict : Bool) : ∀ (steps : List Step) (d : Nat) (el : Pos),
    denOrd root strict (steps.map compileStep) d el = denoteStepsR root strict steps d el
  | [], d, el => by simp [denOrd, denoteStepsR]
  | s :: r, d, el => by
    rw [List.map_cons, denOrd_step, stepThen, denoteStepsR]
    have : ∀ d', denOrd root strict (r.map compileStep) d' = denoteStepsR root strict r d' :=
      fun d' => funext (denoteStepsR_compile root strict r d')
    cases stepDen root strict s el with
    | error e => rfl
    | ok next => simp only [this]

/-- **compiled AST = ranked denotation** (`denOps_compile` without `UniSteps`) -/
theorem denoteR_compile (root : Node) (strict : Bool) (p : Spec.Path) (el : Pos) :
    denOrd root strict (compile p) 0 el = denoteR p root el strict := by
  unfold compile denoteR
  rw [← denoteStepsR_compile]
  cases p.top with
  | true => simp [denOrd]
  | false => simp

/-- where only one kind of error can arise the ranked reading forgets to spec B's `denote` -/
theorem denoteR_forget_of_uni (root : Node) (strict : Bool) (p : Spec.Path)
    (hwf : UniSteps strict p.steps) (el : Pos) :
    (denoteR p root el strict).forget = denote p root el strict := by
  rw [← denoteR_compile, denOrd_forget_of_uni _ _ _ _ (uni_compile strict p hwf), denOps_compile _ _ _ hwf]

/-- `denOps_compile` again, as a corollary -/
theorem denOps_compile_cor (root : Node) (strict : Bool) (p : Spec.Path) (hwf : UniSteps strict p.steps)
    (el : Pos) : denOps root strict (compile p) el = denote p root el strict := by
  rw [← denOrd_forget_of_uni _ _ _ _ (uni_compile strict p hwf), denoteR_compile,
    denoteR_forget_of_uni _ _ _ hwf]

end Flatland.C14.Proofs
