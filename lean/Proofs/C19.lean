/-
C19 — markup options resolve tag > block > generator > default and unwind on end().

Main theorem `toggle_resolution`: for EVERY history of Generator calls, `_pop_toggle` on the
model's flat-copied frames returns what the four-level rule of the statement gives on the levels
of the specification — under `noShadowingAuto` (KF-C19-a).  The unrestricted statement is
`C19_Full`; `C19_full_fails` refutes it from the documented witness.
-/
import Flatland.C19
import Flatland.Spec.C19
import Proofs.Lemmas.C19Stack
import Proofs.Lemmas.C19Discipline
import Proofs.Lemmas.C19Transforms
import Proofs.Lemmas.C19Tabindex
import Proofs.Lemmas.C19Scope
import Proofs.Lemmas.C19Applies
namespace Flatland.C19.Proofs
open Flatland.Markup Flatland.C19 Flatland.C19.Spec

/-! ### generated-table side conditions -/

/-- the built-in default of an option is a bool, in `_default_context` and in the generator's
    base frame (no `_default_settings` entry overrides it) -/
def optionDefaultOK (T : Tables) (key : Str) (b : Bool) : Bool :=
  Dict.get? T.defaultContext key == some (.bool b) &&
  Dict.get? (frameUpdate T.defaultContext T.defaultSettings) key == some (.bool b)

def optionTable : List (Str × Bool) :=
  [("auto_name".toList, true), ("auto_value".toList, true), ("auto_domid".toList, false),
   ("auto_for".toList, false), ("auto_tabindex".toList, false), ("auto_filter".toList, false)]

/-- regenerated `_default_context`: the six options have exactly these built-in defaults -/
theorem defaults_ok : optionTable.all (fun kb => optionDefaultOK Tables.current kb.1 kb.2) = true := by
  decide

/-! ### the generator right after `Generator(markup, **settings)` -/

theorem init_shape {T : Tables} {markup : Str} {settings : List (Str × CVal)} {g : Gen}
    (h : Gen.init T markup settings = .ok g) :
    g.ctx.below = [frameUpdate T.defaultContext T.defaultSettings] ∧
    g.ctx.top = applyLog (frameUpdate T.defaultContext T.defaultSettings) settings := by
  have hpush : Ctx.push ⟨frameUpdate T.defaultContext T.defaultSettings, []⟩ [] =
      .ok ⟨frameUpdate T.defaultContext T.defaultSettings, [frameUpdate T.defaultContext T.defaultSettings]⟩ := by
    simp [Ctx.push, Ctx.update, Ctx.setAll, pure, Except.pure]
  simp only [Gen.init, bind, Except.bind, pure, Except.pure, Ctx.init, hpush] at h
  cases hu : Ctx.update ⟨frameUpdate T.defaultContext T.defaultSettings,
      [frameUpdate T.defaultContext T.defaultSettings]⟩ settings with
  | error e =>
    rw [hu] at h
    repeat' split at h
    all_goals simp_all [throw, throwThe, MonadExceptOf.throw]
  | ok c3 =>
    rw [hu] at h
    obtain ⟨hb, ht, _⟩ := update_ok hu
    simp only at hb ht
    repeat' split at h
    all_goals first
      | (simp at h; done)
      | (simp_all [throw, throwThe, MonadExceptOf.throw]; done)
      | (simp_all only [Except.ok.injEq]; subst h; exact ⟨hb, ht⟩)

theorem init_depth {T : Tables} {markup : Str} {settings : List (Str × CVal)} {g : Gen}
    (h : Gen.init T markup settings = .ok g) : g.ctx.depth = 2 := by
  simp [Ctx.depth, (init_shape h).1]

theorem init_matches {T : Tables} {markup : Str} {settings : List (Str × CVal)} {g : Gen}
    (h : Gen.init T markup settings = .ok g) : Matches (frames g.ctx) (initHist settings) := by
  obtain ⟨hb, ht⟩ := init_shape h
  simp only [frames, hb, initHist, Matches, ht, and_true]

/-! ### resolution -/

/-- `_pop_toggle` in terms of the top-frame value of the option -/
theorem popToggle_eq (T : Tables) (key : Str) (attrs : Attrs) (ctx : Ctx) (b : Bool) (v : CVal) (t : Trool)
    (hdef : Dict.get? T.defaultContext key = some (.bool b))
    (hv : Dict.get? ctx.top key = some v) (ht : T.parseTroolC v = .ok t) :
    popToggle T key attrs ctx = .ok (Dict.erase attrs key,
      match T.parseTrool ((Dict.get? attrs key).getD .maybe) with
      | .yes => (true, true)
      | .no => (false, false)
      | .maybe => (match t with | .yes => true | .no => false | .maybe => b, false)) := by
  unfold popToggle
  simp only [bind, Except.bind, pure, Except.pure, Ctx.getItem, hv, ht, hdef]
  cases T.parseTrool ((Dict.get? attrs key).getD .maybe) <;> cases t <;> rfl

/-- readings of the levels, from the innermost level that mentions the key -/
theorem codeResolve_firstGiven (T : Tables) (b : Bool) (h : Hist) (key : Str)
    (htv : troolValued T h key = true) :
    codeResolve b (levelTrools T h key) =
      match firstGiven h key with
      | none => b
      | some v => match readTrool T v with
        | some .yes => true | some .no => false | _ => b := by
  induction h with
  | nil => rfl
  | cons lv rest ih =>
    simp only [troolValued, List.all_cons, Bool.and_eq_true] at htv
    have ih' := ih (by simpa [troolValued] using htv.2)
    simp only [levelTrools, List.map_cons, firstGiven] at ih' ⊢
    cases hg : lv.given key with
    | none => simpa [codeResolve, hg] using ih'
    | some v =>
      have h1 := htv.1
      rw [hg] at h1
      simp only at h1
      simp only [Option.bind_some, Option.or_some]
      cases hr : readTrool T v with
      | none => rw [hr] at h1; simp at h1
      | some t => cases t <;> simp [codeResolve, hr]

theorem firstGiven_readable (T : Tables) (H : Hist) (key : Str) (v : CVal)
    (htv : troolValued T H key = true) (hfg : firstGiven H key = some v) :
    ∃ t, T.parseTroolC v = .ok t := by
  induction H with
  | nil => simp [firstGiven] at hfg
  | cons lv rest ih =>
    simp only [troolValued, List.all_cons, Bool.and_eq_true] at htv
    simp only [firstGiven] at hfg
    cases hg : lv.given key with
    | none =>
      rw [hg] at hfg; simp only [Option.none_or] at hfg
      exact ih (by simpa [troolValued] using htv.2) hfg
    | some w =>
      rw [hg] at hfg; simp only [Option.some_or, Option.some.injEq] at hfg
      subst hfg
      have h1 := htv.1
      rw [hg] at h1
      simp only [readTrool] at h1
      cases hp : T.parseTroolC w with
      | ok t => exact ⟨t, rfl⟩
      | error e => rw [hp] at h1; simp at h1

/-- THE RESOLUTION THEOREM.  After any history `ops` on a freshly constructed generator, for any
    of the six options (`hdef`: its built-in default is `b`), any attribute dict of a tag call:
    `_pop_toggle` returns the attributes without the option and exactly the decision of the
    four-level rule — provided every value given for the option is an option value and no level
    says `auto` while an outer level says on/off. -/
theorem toggle_resolution (T : Tables) (R : RenderCfg) (markup : Str) (settings : List (Str × CVal))
    (g0 : Gen) (hinit : Gen.init T markup settings = .ok g0) (ops : List Op)
    (key : Str) (b : Bool) (hdef : optionDefaultOK T key b = true) (attrs : Attrs)
    (htv : troolValued T (runS T R g0 (initHist settings) ops).2 key = true)
    (hns : noShadowingAuto b (levelTrools T (runS T R g0 (initHist settings) ops).2 key) = true) :
    popToggle T key attrs (runGen T R g0 ops).ctx =
      .ok (Dict.erase attrs key,
           resolve b (T.parseTrool ((Dict.get? attrs key).getD .maybe))
             (levelTrools T (runS T R g0 (initHist settings) ops).2 key)) := by
  simp only [optionDefaultOK, Bool.and_eq_true, beq_iff_eq] at hdef
  obtain ⟨hd1, hd2⟩ := hdef
  have hm := matches_run T R ops g0 (initHist settings) (init_matches hinit)
  have hbase := base_run T R ops g0 (initHist settings) _
    (by rw [(init_shape hinit).1]; rfl)
  rw [runS_fst] at hm hbase
  generalize hH : (runS T R g0 (initHist settings) ops).2 = H at *
  generalize hG : runGen T R g0 ops = G at *
  obtain ⟨top, base, htop, hlast, hget⟩ := lookup_matches (frames G.ctx) H key hm
  simp only [frames, List.head?_cons, Option.some.injEq] at htop
  subst htop
  have hbase' : base = frameUpdate T.defaultContext T.defaultSettings := by
    have hne : G.ctx.below ≠ [] := by intro e; rw [e] at hbase; simp at hbase
    simp only [frames] at hlast
    rw [getLast?_cons_of_ne_nil _ _ hne, hbase] at hlast
    simp at hlast; exact hlast.symm
  rw [hbase', hd2] at hget
  have hcr := codeResolve_firstGiven T b H key htv
  have hrule := codeResolve_eq_rule b (levelTrools T H key) hns
  cases hfg : firstGiven H key with
  | none =>
    rw [hfg] at hget hcr
    simp only [Option.none_or] at hget
    rw [popToggle_eq T key attrs G.ctx b (.bool b) (if b then .yes else .no) hd1 hget
      (by cases b <;> rfl)]
    simp only [resolve, ← hrule, hcr]
    cases T.parseTrool ((Dict.get? attrs key).getD .maybe) <;> cases b <;> rfl
  | some v =>
    rw [hfg] at hget hcr
    simp only [Option.some_or] at hget
    -- the value is readable because the level that gives it is trool-valued
    have hread := firstGiven_readable T H key v htv hfg
    obtain ⟨t, ht⟩ := hread
    rw [popToggle_eq T key attrs G.ctx b v t hd1 hget ht]
    simp only [resolve, ← hrule, hcr, readTrool, ht]
    cases T.parseTrool ((Dict.get? attrs key).getD .maybe) <;> cases t <;> rfl

end Flatland.C19.Proofs

namespace Flatland.C19.Proofs
open Flatland.Markup Flatland.C19 Flatland.C19.Spec

deriving instance DecidableEq for Except

/-! ### the unrestricted statement is false of the code as it is (KF-C19-a) -/

/-- the property as stated: the four-level rule, with `auto` ALWAYS deferring to the next level -/
def C19_Full : Prop :=
  ∀ (markup : Str) (settings : List (Str × CVal)) (g0 : Gen),
    Gen.init Tables.current markup settings = .ok g0 →
    ∀ (ops : List Op) (key : Str) (b : Bool), optionDefaultOK Tables.current key b = true →
    ∀ (attrs : Attrs),
    troolValued Tables.current (runS Tables.current RenderCfg.current g0 (initHist settings) ops).2 key = true →
    popToggle Tables.current key attrs (runGen Tables.current RenderCfg.current g0 ops).ctx =
      .ok (Dict.erase attrs key,
           resolve b (Tables.current.parseTrool ((Dict.get? attrs key).getD .maybe))
             (levelTrools Tables.current (runS Tables.current RenderCfg.current g0 (initHist settings) ops).2 key))

/-- `Generator(auto_name='off')` -/
def kfSettings : List (Str × CVal) := [("auto_name".toList, .text "off".toList)]
/-- `begin(auto_name='auto')` -/
def kfOps : List Op := [.begin [("auto_name".toList, .text "auto".toList)]]
def kfGen : Gen :=
  match Gen.init Tables.current "xhtml".toList kfSettings with
  | .ok g => g
  | .error _ => ⟨false, ⟨[], []⟩⟩

theorem kfGen_init : Gen.init Tables.current "xhtml".toList kfSettings = .ok kfGen := by decide

/-- what the code does on the witness: the name transform is ON (built-in default) … -/
theorem kf_code : popToggle Tables.current "auto_name".toList []
    (runGen Tables.current RenderCfg.current kfGen kfOps).ctx = .ok ([], true, false) := by decide

/-- … while the rule of the statement says OFF (the generator's setting, `auto` deferring to it) -/
theorem kf_rule : resolve true (Tables.current.parseTrool ((Dict.get? ([] : Attrs) "auto_name".toList).getD .maybe))
    (levelTrools Tables.current (runS Tables.current RenderCfg.current kfGen (initHist kfSettings) kfOps).2
      "auto_name".toList) = (false, false) := by decide

theorem C19_full_fails : ¬ C19_Full := by
  intro hfull
  have h := hfull "xhtml".toList kfSettings kfGen kfGen_init kfOps "auto_name".toList true (by decide) []
    (by decide)
  rw [kf_code, kf_rule] at h
  simp [Dict.erase] at h

/-- the witness is exactly what `noShadowingAuto` excludes -/
example : noShadowingAuto true (levelTrools Tables.current
    (runS Tables.current RenderCfg.current kfGen (initHist kfSettings) kfOps).2 "auto_name".toList) = false := by
  decide

/-! ### non-vacuity of `toggle_resolution`: a three-level history satisfying every hypothesis,
    on which the rule picks the block's setting over the generator's -/

def nvSettings : List (Str × CVal) := [("auto_domid".toList, .text "on".toList)]
def nvOps : List Op :=
  [.begin [("auto_domid".toList, .text "off".toList)], .begin [], .set [("auto_name".toList, .bool false)]]
def nvGen : Gen :=
  match Gen.init Tables.current "html".toList nvSettings with
  | .ok g => g
  | .error _ => ⟨false, ⟨[], []⟩⟩

example : Gen.init Tables.current "html".toList nvSettings = .ok nvGen := by decide
example : troolValued Tables.current
    (runS Tables.current RenderCfg.current nvGen (initHist nvSettings) nvOps).2 "auto_domid".toList = true := by decide
example : noShadowingAuto false (levelTrools Tables.current
    (runS Tables.current RenderCfg.current nvGen (initHist nvSettings) nvOps).2 "auto_domid".toList) = true := by decide
example : levelTrools Tables.current
    (runS Tables.current RenderCfg.current nvGen (initHist nvSettings) nvOps).2 "auto_domid".toList =
    [none, some .no, some .yes] := by decide
example : resolve false .maybe [none, some .no, some .yes] = (false, false) := by decide
example : resolve false .yes [none, some .no, some .yes] = (true, true) := by decide

end Flatland.C19.Proofs

namespace Flatland.C19.Proofs
open Flatland.Markup Flatland.C19 Flatland.C19.Spec

/-! ### non-vacuity of the stack-discipline, forcing and tabindex theorems
(the theorems themselves are in `Proofs/Lemmas/C19Discipline|Transforms|Tabindex.lean`) -/

def el : Bind := ⟨"fld".toList, "val".toList, .scalar⟩
def tagInput (kw : List (Str × Val)) : Op := .tag "input".toList (some el) kw

/-- a body with a nested block, a set(), tag calls and a rejected call, ending at its own depth -/
def nvBody : List Op :=
  [tagInput [], .begin [("auto_name".toList, .text "off".toList)], .set [("tabindex".toList, .int 7)],
   .update [("bogus".toList, .int 1)], tagInput [("auto_tabindex".toList, .bool true)], .end_,
   .setItem "auto_value".toList (.bool false)]

def nvG1 : Gen := (nvGen.begin [("auto_domid".toList, .bool true)]).gen

example : 2 ≤ nvGen.ctx.depth := by decide
example : nvGen.begin [("auto_domid".toList, .bool true)] = ⟨nvG1, none⟩ := by decide
example : staysAbove Tables.current RenderCfg.current nvG1.ctx.depth nvG1 nvBody = true := by decide
example : (runGen Tables.current RenderCfg.current nvG1 nvBody).ctx.depth = nvG1.ctx.depth := by decide
/-- … and the body really changed settings before the end() restored them -/
example : (runGen Tables.current RenderCfg.current nvG1 nvBody).ctx ≠ nvG1.ctx := by decide

example : hasUnknown nvGen [("auto_name".toList, .text "off".toList), ("bogus".toList, .int 1)] :=
  ⟨("bogus".toList, .int 1), by simp, by decide⟩

example : nvGen.ctx.depth = 2 := by decide

/-- forcing: a `<div>` with an existing name gets the bind's name -/
example : Tables.current.parseTrool ((Dict.get?
    ([("name".toList, .text "pre".toList), ("auto_name".toList, .text "on".toList)] : Attrs)
    "auto_name".toList).getD .maybe) = .yes := by decide

def tabGen : Gen :=
  match Gen.init Tables.current "xhtml".toList [("auto_tabindex".toList, .bool true), ("tabindex".toList, .int 5)] with
  | .ok g => g
  | .error _ => ⟨false, ⟨[], []⟩⟩

example : counter tabGen = some 5 := by decide
example : handed Tables.current RenderCfg.current tabGen
    [tagInput [], .tag "div".toList none [], tagInput [("tabindex".toList, .text "9".toList)], tagInput []] = [5, 6] := by
  decide


/-- a scope with everything in between: an accepted set(), a nested block with its own counter, a
    rejected update(), a tag that is not given a tabindex — the scope's own tags get 5, 6, 7 -/
def scopeOps : List Op :=
  [tagInput [], .set [("auto_name".toList, .bool false)],
   .begin [("tabindex".toList, .int 50)], tagInput [], tagInput [], .end_,
   .update [("bogus".toList, .int 1)], .tag "div".toList none [], tagInput [], tagInput []]

example : staysAbove Tables.current RenderCfg.current tabGen.ctx.depth tabGen scopeOps = true := by decide
example : noTabWriteAt Tables.current RenderCfg.current tabGen.ctx.depth tabGen scopeOps = true := by decide
example : scopeHanded Tables.current RenderCfg.current tabGen.ctx.depth tabGen scopeOps = [5, 6, 7] := by decide
/-- `handed` is the notion for histories of TAG CALLS ONLY (`tabindex_increasing` asks for `isTag`
    everywhere): it emits the counter at every op that changes the context, so on this mixed
    history it also lists the counter in force at `set` (6), `begin` (6) and `end` (52) next to the
    values the tags got (5 · 50 51 · 6 7).  Mixed histories are what `scopeHanded` is for. -/
example : handed Tables.current RenderCfg.current tabGen scopeOps = [5, 6, 6, 50, 51, 52, 6, 7] := by decide
/-- the nested block's own scope (one level deeper, from the generator as `begin` leaves it): 50, 51 -/
example : scopeHanded Tables.current RenderCfg.current (tabGen.ctx.depth + 1)
    (run Tables.current RenderCfg.current tabGen (scopeOps.take 3)).1 [tagInput [], tagInput []] = [50, 51] := by decide

end Flatland.C19.Proofs
