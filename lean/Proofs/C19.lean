import Flatland.C19
namespace Flatland.C19.Proofs
end Flatland.C19.Proofs
