/-
C07 on the tree model — the deep positional invariant is preserved by every operation of the tree
model.  Base layer: the invariant, its one-level unfolding, and the elementary building blocks.

`dp` (`Flatland/C07Tree.lean`) alone is NOT preserved — neither by calls applied inside a tree
(`stepAt`) nor by a call on the node itself: it does not say that the items of a List's underlying
list are ListSlot nodes.  An item that is itself a List-kind node could be lengthened by a call
addressed to it (breaking "every slot holds exactly one element" of the List above), and
`lst[i] = element` re-fills the item with an element under an arbitrary key (breaking the item's
own numbering).  Both counterexamples are checked in `Proofs/C07TreeInv.lean`.  The development
therefore runs for the strengthening

    dps   —   `dp`, plus "every item of a List's underlying list is a node of kind `.slot`"

which is Bool-valued, implies `dp` (`dp_of_dps`), holds of everything the construction routes build,
and is preserved by every call.
-/
import Flatland.C07Tree
import Proofs.C09Positional
import Proofs.C08Placed
namespace Flatland.C07Tree.Proofs.Inv
open Flatland.Tree Flatland.PyList Flatland.C08 Flatland.C07Tree
open Flatland.C09.Proofs (WellNumbered wn_nil wn_renumber wn_append wn_set wn_attachAll wn_appendEl
  wn_extendArgs wn_setNode wn_defaultSlots wn_setDefault wn_imulLoop positional_step)

/-! ### the invariant -/

/-- every item is a ListSlot node -/
def slotKinds (ks : List Node) : Bool := ks.all (fun s => s.kind == .slot)

mutual
/-- **deep positional, slotted**: `dp`, and every item of a List's underlying list is a node of
    kind `.slot` -/
def dps : Node → Bool
  | .mk _ s kids =>
    (!(s.kind == .list) || (wnFrom 0 kids && single kids && slotKinds kids)) && dpsL kids
def dpsL : List Node → Bool
  | [] => true
  | k :: ks => dps k && dpsL ks
end

mutual
/-- the strong invariant implies `dp` -/
theorem dp_of_dps : ∀ n : Node, dps n = true → dp n = true
  | .mk i s kids, h => by
    rw [dps] at h
    rw [dp]
    simp only [Bool.and_eq_true, Bool.or_eq_true] at h ⊢
    refine ⟨?_, dpL_of_dpsL kids h.2⟩
    rcases h.1 with h1 | h1
    · exact .inl h1
    · exact .inr h1.1
theorem dpL_of_dpsL : ∀ ks : List Node, dpsL ks = true → dpL ks = true
  | [], _ => by rw [dpL]
  | k :: ks, h => by
    rw [dpsL] at h
    rw [dpL]
    simp only [Bool.and_eq_true] at h ⊢
    exact ⟨dp_of_dps k h.1, dpL_of_dpsL ks h.2⟩
end

theorem dpsL_iff (ks : List Node) : dpsL ks = true ↔ ∀ k ∈ ks, dps k = true := by
  induction ks with
  | nil => simp [dpsL]
  | cons k ks ih => simp [dpsL, ih]

theorem dpL_iff (ks : List Node) : dpL ks = true ↔ ∀ k ∈ ks, dp k = true := by
  induction ks with
  | nil => simp [dpL]
  | cons k ks ih => simp [dpL, ih]

theorem wnFrom_iff (i : Nat) (ks : List Node) :
    wnFrom i ks = true ↔ ks.map Node.key = (List.range' i ks.length).map (fun k => (toString k).toList) := by
  induction ks generalizing i with
  | nil => simp [wnFrom]
  | cons k ks ih =>
    simp only [wnFrom, Bool.and_eq_true, decide_eq_true_eq, ih, List.map_cons, List.length_cons,
      List.range'_succ, List.cons.injEq]

/-- (a) the Bool check is C09's `WellNumbered` -/
theorem wn_iff (ks : List Node) : wnFrom 0 ks = true ↔ WellNumbered ks := by
  rw [wnFrom_iff, WellNumbered, List.range_eq_range']

theorem single_iff (ks : List Node) : single ks = true ↔ ∀ s ∈ ks, s.kids.length = 1 := by
  simp [single]

theorem slotKinds_iff (ks : List Node) : slotKinds ks = true ↔ ∀ s ∈ ks, s.kind = .slot := by
  simp [slotKinds]

/-- **`dp`, unfolded one level.** -/
theorem dp_iff (n : Node) :
    dp n = true ↔
      (n.kind = .list → WellNumbered n.kids ∧ ∀ s ∈ n.kids, s.kids.length = 1) ∧ ∀ k ∈ n.kids, dp k = true := by
  cases n with
  | mk i s kids =>
    rw [dp]
    simp only [Bool.and_eq_true, Bool.or_eq_true, Bool.not_eq_true', beq_eq_false_iff_ne, ne_eq,
      dpL_iff, wn_iff, single_iff, Node.kind, Node.sch, Node.kids]
    constructor
    · rintro ⟨h1, h2⟩
      refine ⟨fun hk => ?_, h2⟩
      rcases h1 with h1 | h1
      · exact absurd hk h1
      · exact h1
    · rintro ⟨h1, h2⟩
      refine ⟨?_, h2⟩
      by_cases hk : s.kind = .list
      · exact .inr (h1 hk)
      · exact .inl hk

/-- what the invariant asks of one item of the underlying list of a node (`L`: the node is a List) -/
def Item (L : Prop) (k : Node) : Prop :=
  dps k = true ∧ (L → k.kids.length = 1 ∧ k.kind = .slot)

/-- all items of an underlying list (mirror of C08's `KidsWP`) -/
def KidsDP (L : Prop) (ks : List Node) : Prop := ∀ k ∈ ks, Item L k

/-- the invariant, unfolded one level -/
theorem dps_mk_iff (i : NInfo) (s : Schema) (kids : List Node) :
    dps (.mk i s kids) = true ↔
      (s.kind = .list → WellNumbered kids) ∧ KidsDP (s.kind = .list) kids := by
  rw [dps]
  simp only [Bool.and_eq_true, Bool.or_eq_true, Bool.not_eq_true', beq_eq_false_iff_ne, ne_eq,
    dpsL_iff, wn_iff, single_iff, slotKinds_iff, KidsDP, Item]
  constructor
  · rintro ⟨h1, h2⟩
    refine ⟨fun hk => ?_, fun k hk => ⟨h2 k hk, fun hl => ?_⟩⟩
    · rcases h1 with h1 | h1
      · exact absurd hk h1
      · exact h1.1.1
    · rcases h1 with h1 | h1
      · exact absurd hl h1
      · exact ⟨h1.1.2 k hk, h1.2 k hk⟩
  · rintro ⟨h1, h2⟩
    refine ⟨?_, fun k hk => (h2 k hk).1⟩
    by_cases hk : s.kind = .list
    · exact .inr ⟨⟨h1 hk, fun k hkm => ((h2 k hkm).2 hk).1⟩, fun k hkm => ((h2 k hkm).2 hk).2⟩
    · exact .inl hk

theorem dps_iff' (n : Node) :
    dps n = true ↔ (n.kind = .list → WellNumbered n.kids) ∧ KidsDP (n.kind = .list) n.kids := by
  cases n with
  | mk i s kids => exact dps_mk_iff i s kids

/-- **`dps`, unfolded one level.** -/
theorem dps_iff (n : Node) :
    dps n = true ↔
      (n.kind = .list → WellNumbered n.kids ∧ ∀ s ∈ n.kids, s.kids.length = 1 ∧ s.kind = .slot) ∧
      ∀ k ∈ n.kids, dps k = true := by
  rw [dps_iff']
  constructor
  · rintro ⟨h1, h2⟩
    exact ⟨fun hl => ⟨h1 hl, fun s hs => (h2 s hs).2 hl⟩, fun k hk => (h2 k hk).1⟩
  · rintro ⟨h1, h2⟩
    exact ⟨fun hl => (h1 hl).1, fun k hk => ⟨h2 k hk, fun hl => (h1 hl).2 k hk⟩⟩

/-! ### header surgery does not touch the invariant -/

theorem dps_withKey (x : Node) (k : Str) : dps (x.withKey k) = dps x := by
  cases x; simp only [Node.withKey, dps, Node.sch, Node.kids]
theorem dps_withParent (x : Node) (p : Option Nat) : dps (x.withParent p) = dps x := by
  cases x; simp only [Node.withParent, dps, Node.sch, Node.kids]
theorem dps_withScalar (x : Node) (v : Val) (u : Str) : dps (x.withScalar v u) = dps x := by
  cases x; simp only [Node.withScalar, dps, Node.sch, Node.kids]
theorem dps_ni (i i' : NInfo) (s : Schema) (ks : List Node) : dps (.mk i s ks) = dps (.mk i' s ks) := by
  simp only [dps]

theorem kids_withKey (x : Node) (k : Str) : (x.withKey k).kids = x.kids := by cases x; rfl
theorem kids_withParent (x : Node) (p : Option Nat) : (x.withParent p).kids = x.kids := by cases x; rfl
theorem kids_withScalar (x : Node) (v : Val) (u : Str) : (x.withScalar v u).kids = x.kids := by cases x; rfl
theorem kids_withKids (x : Node) (ks : List Node) : (x.withKids ks).kids = ks := by cases x; rfl
theorem kind_withKey (x : Node) (k : Str) : (x.withKey k).kind = x.kind := by cases x; rfl
theorem kind_withParent (x : Node) (p : Option Nat) : (x.withParent p).kind = x.kind := by cases x; rfl
theorem kind_withScalar (x : Node) (v : Val) (u : Str) : (x.withScalar v u).kind = x.kind := by cases x; rfl
theorem kind_withKids (x : Node) (ks : List Node) : (x.withKids ks).kind = x.kind := by cases x; rfl
theorem key_withKids (x : Node) (ks : List Node) : (x.withKids ks).key = x.key := by cases x; rfl

theorem kind_of_hdr {a b : Node} (h : a.hdr = b.hdr) : a.kind = b.kind := by
  have : a.sch = b.sch := congrArg (fun t => t.2.2.1) h
  unfold Node.kind; rw [this]
theorem key_of_hdr {a b : Node} (h : a.hdr = b.hdr) : a.key = b.key := congrArg (fun t => t.2.2.2.1) h

theorem dps_withKids (n : Node) (ks : List Node) :
    dps (n.withKids ks) = true ↔ (n.kind = .list → WellNumbered ks) ∧ KidsDP (n.kind = .list) ks := by
  cases n with
  | mk i s kids => exact dps_mk_iff i s ks

/-- a node that is not a List: only the deep part -/
theorem dps_mk_notList (i : NInfo) (s : Schema) (ks : List Node) (h : s.kind ≠ .list) :
    dps (.mk i s ks) = true ↔ ∀ k ∈ ks, dps k = true := by
  rw [dps_mk_iff]
  constructor
  · rintro ⟨_, h2⟩ k hk; exact (h2 k hk).1
  · intro h2; exact ⟨fun hl => absurd hl h, fun k hk => ⟨h2 k hk, fun hl => absurd hl h⟩⟩

theorem dps_withKids_notList (n : Node) (ks : List Node) (h : n.kind ≠ .list) :
    dps (n.withKids ks) = true ↔ ∀ k ∈ ks, dps k = true := by
  cases n with
  | mk i s kids => exact dps_mk_notList i s ks h

theorem dps_mk_nil (i : NInfo) (s : Schema) : dps (.mk i s []) = true := by
  rw [dps_mk_iff]; exact ⟨fun _ => wn_nil, fun k hk => by cases hk⟩

theorem dps_withKids_nil (n : Node) : dps (n.withKids []) = true := by
  cases n; exact dps_mk_nil _ _

/-- a result with the same class as `n` whose items are good and (for a List) numbered -/
theorem dps_of_hdr {r n : Node} (h : r.hdr = n.hdr) (hw : n.kind = .list → WellNumbered r.kids)
    (hk : KidsDP (n.kind = .list) r.kids) : dps r = true := by
  rw [dps_iff', kind_of_hdr h]; exact ⟨hw, hk⟩

/-! ### items -/

theorem item_withKey {L : Prop} {x : Node} (h : Item L x) (k : Str) : Item L (x.withKey k) := by
  unfold Item at *; rw [dps_withKey, kids_withKey, kind_withKey]; exact h

theorem item_notList {L : Prop} (hL : ¬ L) {x : Node} (h : dps x = true) : Item L x :=
  ⟨h, fun hl => absurd hl hL⟩

theorem kd_nil (L : Prop) : KidsDP L [] := by intro x hx; cases hx

theorem kd_sub {L : Prop} {l l' : List Node} (h : KidsDP L l) (hs : ∀ x ∈ l', x ∈ l) : KidsDP L l' :=
  fun x hx => h x (hs x hx)

theorem kd_renumberFrom (L : Prop) (k : Nat) (l : List Node) (h : KidsDP L l) :
    KidsDP L (renumberFrom k l) := by
  induction l generalizing k with
  | nil => intro x hx; cases hx
  | cons y ys ih =>
    intro x hx
    simp only [renumberFrom, List.mem_cons] at hx
    rcases hx with hx | hx
    · rw [hx]; exact item_withKey (h y (by simp)) _
    · exact ih (k + 1) (fun z hz => h z (by simp [hz])) x hx

theorem kd_renumber (L : Prop) (l : List Node) (h : KidsDP L l) : KidsDP L (renumber l) :=
  kd_renumberFrom L 0 l h

theorem kd_append {L : Prop} {kids : List Node} (h : KidsDP L kids) (new : Node) (hn : Item L new) :
    KidsDP L (kids ++ [new]) := by
  intro x hx
  rcases List.mem_append.mp hx with h1 | h1
  · exact h x h1
  · simp only [List.mem_singleton] at h1; rw [h1]; exact hn

theorem kd_cons {L : Prop} {kids : List Node} (new : Node) (hn : Item L new) (h : KidsDP L kids) :
    KidsDP L (new :: kids) := by
  intro x hx
  rcases List.mem_cons.mp hx with h1 | h1
  · rw [h1]; exact hn
  · exact h x h1

/-- a non-List: items only need the deep part -/
theorem kd_of_forall {L : Prop} (hL : ¬ L) {ks : List Node} (h : ∀ k ∈ ks, dps k = true) : KidsDP L ks :=
  fun k hk => item_notList hL (h k hk)

theorem kd_deep {L : Prop} {ks : List Node} (h : KidsDP L ks) : ∀ k ∈ ks, dps k = true :=
  fun k hk => (h k hk).1

/-- `ListSlot(name, parent=lst, element)` around a good element is a good item of a List -/
theorem item_mkSlot (L : Prop) (id lst nm : Nat) (e : Node) (he : dps e = true) :
    Item L (mkSlot id lst nm e) := by
  refine ⟨?_, fun _ => ⟨rfl, rfl⟩⟩
  unfold mkSlot
  rw [dps_mk_notList _ _ _ (by decide)]
  intro k hk
  simp only [List.mem_singleton] at hk
  rw [hk, dps_withParent]; exact he

theorem dps_mkSlot (id lst nm : Nat) (e : Node) (he : dps e = true) : dps (mkSlot id lst nm e) = true :=
  (item_mkSlot True id lst nm e he).1

/-- `slot.element = x`: a slot re-filled with one good element is still a good item -/
theorem item_slot_withKids {L : Prop} {slot : Node} (hs : Item L slot) (hL : L) (x : Node)
    (hx : dps x = true) : Item L (slot.withKids [x]) := by
  have h2 := hs.2 hL
  refine ⟨?_, fun _ => ⟨by rw [kids_withKids]; rfl, by rw [kind_withKids]; exact h2.2⟩⟩
  rw [dps_withKids_notList _ _ (by rw [h2.2]; decide)]
  intro k hk
  simp only [List.mem_singleton] at hk
  rw [hk]; exact hx

/-- the element a good slot holds is good -/
theorem dps_slotElement {L : Prop} {slot el : Node} (hs : Item L slot) (h : slotElement slot = some el) :
    dps el = true := by
  have helm : el ∈ slot.kids := by
    unfold slotElement at h
    exact List.mem_of_mem_head? h
  exact ((dps_iff slot).mp hs.1).2 el helm

/-! ### `schema(parent=…)` -/

mutual
theorem blank_dps : ∀ (s : Schema) (parent : Option Nat) (key : Str) (next : Nat),
    dps (blank s parent key next).1 = true
  | .mk info dflt subs, parent, key, next => by
    rw [blank]
    split
    · rename_i hk
      rw [dps_mk_notList _ _ _ (by show info.kind ≠ .list; rw [hk]; decide)]
      exact blankFields_dps subs next false (next + 1)
    · rename_i hk
      split
      · rw [dps_mk_notList _ _ _ (by show info.kind ≠ .list; rw [hk]; decide)]
        exact blankFields_dps subs next true (next + 1)
      · exact dps_mk_nil _ _
    · exact dps_mk_nil _ _
theorem blankFields_dps : ∀ (subs : List Schema) (pid : Nat) (b : Bool) (next : Nat),
    ∀ k ∈ (blankFields subs pid b next).1, dps k = true
  | [], _, _, _ => by intro k hk; simp [blankFields] at hk
  | f :: fs, pid, b, next => by
    rw [blankFields]
    split
    · exact blankFields_dps fs pid b next
    · intro k hk
      rcases List.mem_cons.mp hk with h | h
      · rw [h]; exact blank_dps f (some pid) f.key next
      · exact blankFields_dps fs pid b _ k h
end

/-! ### `append` of a built element, `extend` of built elements -/

theorem appendEl_dps (n w : Node) (hn : dps n = true) (hw : dps w = true) (next : Nat) :
    dps (appendEl n w next).1 = true := by
  have h := (dps_iff' n).mp hn
  unfold appendEl
  split
  · rename_i hl
    rw [dps_withKids]
    exact ⟨fun _ => wn_append (h.1 hl) _ _ _, kd_append h.2 _ (item_mkSlot _ _ _ _ w hw)⟩
  · rename_i hl
    rw [dps_withKids]
    exact ⟨fun h' => absurd h' hl, kd_append h.2 _ (item_notList hl (by rw [dps_withParent]; exact hw))⟩

theorem attachAll_dps (vals : List Node) : ∀ (n : Node) (next : Nat), dps n = true → (∀ v ∈ vals, dps v = true) →
    dps (attachAll n vals next).1 = true := by
  induction vals with
  | nil => intro n next h _; exact h
  | cons e es ih =>
    intro n next h hv
    rw [Flatland.C09.Proofs.attachAll_eq]
    exact ih _ _ (appendEl_dps n e h (hv e (by simp)) next) (fun v hv' => hv v (by simp [hv']))

end Flatland.C07Tree.Proofs.Inv
