/-
Line-protocol driver: one JSON case per line on stdin, one JSON observation per line on stdout.
Dispatches on the "p" field to the per-property runner.
-/
import Flatland.Run.All
open Lean

def handle (line : String) : String :=
  match Json.parse line with
  | .error e => (Json.mkObj [("driver_error", Json.str s!"parse: {e}")]).compress
  | .ok j =>
    match j.getObjValAs? String "p" with
    | .error e => (Json.mkObj [("driver_error", Json.str e)]).compress
    | .ok p =>
      match Flatland.Run.dispatch p j with
      | .ok out => out.compress
      | .error e => (Json.mkObj [("driver_error", Json.str e)]).compress

partial def loop (h : IO.FS.Stream) (out : IO.FS.Stream) : IO Unit := do
  let line ← h.getLine
  if line.isEmpty then return ()
  out.putStrLn (handle line)
  loop h out

def main : IO Unit := do
  let stdin ← IO.getStdin
  let stdout ← IO.getStdout
  loop stdin stdout
