-- root of the model library: everything the driver can run
import Flatland.Run.All
