import Flatland.JsonUtil
import Flatland.C05
import Flatland.Spec.C05
