"""Pins for C15: constants of flatland.validation that the hand-written model re-implements.
Compared with the CURRENT /repo on every run; a difference is a broken translator obligation
(the model may no longer describe the code), reported before the failing-input search."""
import ast
import os
import re
import sys

from harness import core, extract

DOMAIN_PATTERN = r"^(?:[a-z0-9\-]+\.)*[a-z0-9\-]+$"
URL_PARTS = ["scheme", "netloc", "path", "params", "query", "fragment"]
HTTP_PARTS = ["scheme", "username", "password", "hostname", "port", "path", "params", "query", "fragment"]
# code points the model's `isSpaceChar` accepts
SPACE = ([9, 10, 11, 12, 13, 28, 29, 30, 31, 32, 133, 160, 5760] + list(range(8192, 8203)) +
         [8232, 8233, 8239, 8287, 12288])
LUHN_SRC = '''def luhn10_check(number):
    """Return True if the number passes the Luhn checksum algorithm."""

    try:
        if number < 0 or number != int(number):
            return False
    except (ArithmeticError, ValueError):
        # NaN or an infinity (float or Decimal): not a string of digits
        return False
    number = int(number)

    sum = 0
    while number:
        r = number % 100
        number //= 100
        z = r % 10
        r = r // 10 * 2
        sum += r // 10 + r % 10 + z

    return 0 == sum % 10
'''


def _func_dump(path, name):
    tree = ast.parse(open(path, encoding="utf-8").read())
    for node in ast.walk(tree):
        if isinstance(node, ast.FunctionDef) and node.name == name:
            return ast.dump(node)
    return None


# the `note_error` shapes the model can produce (lean/Proofs/Lemmas/C15Messages.lean `shapes`, proved complete for
# the model by `verdict_shape`): (class, message attribute) -> keyword names.  Compared with every call site of the
# CURRENT source, so a call site that drops or adds a keyword breaks an obligation.
SHAPES = {
    ("Present", "missing"): [], ("IsTrue", "false"): [], ("IsFalse", "true"): [], ("Converted", "incorrect"): [],
    ("ValueIn", "fail"): [], ("ShorterThan", "exceeded"): [], ("LongerThan", "short"): [], ("LengthBetween", "breached"): [],
    ("ValueLessThan", "failure"): [], ("ValueAtMost", "failure"): [], ("ValueGreaterThan", "failure"): [],
    ("ValueAtLeast", "failure"): [], ("ValueBetween", "failure_inclusive"): [], ("ValueBetween", "failure_exclusive"): [],
    ("MapEqual", "unequal"): ["labels", "last_label"],
    ("NotDuplicated", "failure"): ["position", "container_label"],
    ("HasAtLeast", "failure"): ["child_label"], ("HasAtMost", "failure"): ["child_label"],
    ("HasBetween", "exact"): ["child_label"], ("HasBetween", "range"): ["child_label"],
    ("SetWithKnownFields", "unexpected"): ["unexpected", "n_unexpected"],
    ("SetWithAllFields", "both"): ["n_missing", "missing", "n_unexpected", "unexpected"],
    ("SetWithAllFields", "missing"): ["n_missing", "missing", "n_unexpected", "unexpected"],
    ("SetWithAllFields", "unexpected"): ["n_missing", "missing", "n_unexpected", "unexpected"],
    ("Luhn10", "invalid"): [], ("IsEmail", "invalid"): [],
    ("URLValidator", "bad_format"): [], ("URLValidator", "blocked_scheme"): [], ("URLValidator", "blocked_part"): [],
    ("HTTPURLValidator", "bad_format"): [], ("HTTPURLValidator", "required_part"): [], ("HTTPURLValidator", "forbidden_part"): [],
    ("URLCanonicalizer", "bad_format"): [],
}


def check_call_sites():
    """every note_error call site of the source passes exactly the keywords the model's shape has"""
    from harness.extractors import c16
    problems = []
    classes, ps = c16.ast_classes()
    problems += ps
    seen = set()
    for cname, info in classes.items():
        for key, kws, star in info["calls"]:
            if star:
                problems.append("%s: note_error(**…) call site cannot be compared with the model's shapes" % cname)
                continue
            attrs = [key] if key is not None else sorted(info["messages"])
            for attr in attrs:
                want = SHAPES.get((cname, attr))
                if want is None:
                    problems.append("%s.%s: note_error call site has no shape in the model" % (cname, attr))
                elif sorted(kws) != sorted(want):
                    problems.append("%s.%s: call site passes keywords %r, the model's shape has %r" % (cname, attr, sorted(kws), sorted(want)))
                seen.add((cname, attr))
    for k in SHAPES:
        if k not in seen:
            problems.append("%s.%s: the model notes this message but no call site of the source emits it" % k)
    return problems


@extract.register("C15")
def pins_c15():
    problems = check_call_sites()
    import flatland.validation as V
    from flatland.validation import network
    from flatland.validation.number import Luhn10  # noqa: F401

    def pin(what, got, want):
        if got != want:
            problems.append("pin %s: source has %r, the model was written for %r" % (what, got, want))

    pin("IsEmail.domain_pattern", V.IsEmail.domain_pattern.pattern, DOMAIN_PATTERN)
    pin("IsEmail.domain_pattern flags", bool(V.IsEmail.domain_pattern.flags & re.IGNORECASE), True)
    pin("IsEmail.non_local", V.IsEmail.non_local, True)
    pin("IsEmail.local_part_pattern", V.IsEmail.local_part_pattern, None)
    pin("network._url_parts", list(network._url_parts), URL_PARTS)
    pin("URLValidator.allowed_schemes", tuple(V.URLValidator.allowed_schemes), ("*",))
    pin("URLValidator.allowed_parts", sorted(V.URLValidator.allowed_parts), sorted(URL_PARTS))
    pin("HTTPURLValidator.all_parts", list(V.HTTPURLValidator.all_parts), HTTP_PARTS)
    pin("HTTPURLValidator.required_parts", dict(V.HTTPURLValidator.required_parts),
        {"scheme": ("http", "https"), "hostname": True})
    pin("HTTPURLValidator.forbidden_parts", dict(V.HTTPURLValidator.forbidden_parts), {"username": True, "password": True})
    pin("URLCanonicalizer.discard_parts", tuple(V.URLCanonicalizer.discard_parts), ("fragment",))
    pin("HasAtLeast.minimum", V.HasAtLeast.minimum, 1)
    pin("HasAtMost.maximum", V.HasAtMost.maximum, 1)
    pin("HasBetween.minimum/maximum", (V.HasBetween.minimum, V.HasBetween.maximum), (1, 1))
    pin("ValueBetween.inclusive", V.ValueBetween.inclusive, True)
    pin("ShorterThan.maxlength/LongerThan.minlength", (V.ShorterThan.maxlength, V.LongerThan.minlength), (0, 0))
    pin("NoLongerThan is ShorterThan", V.NoLongerThan is V.ShorterThan, True)
    pin("str.isspace code points", [c for c in range(sys.maxunicode + 1) if chr(c).isspace()], SPACE)
    # the loop the Luhn theorem is about, statement by statement
    path = os.path.join(core.REPO, "src", "flatland", "validation", "number.py")
    want = ast.dump(ast.parse(LUHN_SRC).body[0])
    got = _func_dump(path, "luhn10_check")
    if got != want:
        problems.append("pin luhn10_check: the function body differs from the loop the model `luhnLoop` transcribes")
    return problems
