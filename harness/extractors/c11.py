"""C11 translator obligations: the four escape chains, VOID_ELEMENTS, _static_attribute_order.

Parses the CURRENT source with `ast`, checks the shape of the functions around the chains and
rewrites lean/Flatland/Generated/C11Tables.lean.  A shape the translator does not understand is
reported as a broken obligation (and the last good table is left in place, so the build tells
nothing new; the failing-input search then decides)."""
import ast
import os

from harness import core, extract
from harness.extractors.leanfmt import lean_char, lean_str, lean_list, lean_str_list

SRC = os.path.join(core.REPO, "src", "flatland")


def _parse(rel):
    with open(os.path.join(SRC, rel), encoding="utf-8") as f:
        return ast.parse(f.read())


def _find_func(tree, name, cls=None):
    body = tree.body
    if cls is not None:
        for node in body:
            if isinstance(node, ast.ClassDef) and node.name == cls:
                body = node.body
                break
        else:
            return None
    for node in body:
        if isinstance(node, ast.FunctionDef) and node.name == name:
            return node
    return None


def _chain(expr, base_check):
    """expr = base.replace(a, b).replace(c, d)... -> [(a, b), (c, d), ...] or raises ValueError."""
    steps = []
    cur = expr
    while True:
        if isinstance(cur, ast.Call) and isinstance(cur.func, ast.Attribute) and cur.func.attr == "replace":
            if len(cur.args) != 2 or cur.keywords:
                raise ValueError("replace() with unexpected arguments")
            a, b = cur.args
            if not (isinstance(a, ast.Constant) and isinstance(a.value, str) and isinstance(b, ast.Constant) and isinstance(b.value, str)):
                raise ValueError("replace() arguments are not string literals")
            if len(a.value) != 1:
                raise ValueError("replace() pattern %r is not a single character" % a.value)
            steps.append((a.value, b.value))
            cur = cur.func.value
        else:
            break
    if not base_check(cur):
        raise ValueError("chain does not start at the expected expression: %s" % ast.dump(cur)[:80])
    steps.reverse()
    return steps


def _is_name(node, name):
    return isinstance(node, ast.Name) and node.id == name


def _strip_doc(body):
    if body and isinstance(body[0], ast.Expr) and isinstance(body[0].value, ast.Constant) and isinstance(body[0].value.value, str):
        return body[1:]
    return body


def _escape_function(tree, fname):
    """`def f(string): if not string: return '' / elif hasattr(string,'__html__'): return _unpack(string)
    / else: return string.replace(..)...`"""
    fn = _find_func(tree, fname)
    if fn is None:
        raise ValueError("function %s not found" % fname)
    if [a.arg for a in fn.args.args] != ["string"]:
        raise ValueError("%s: unexpected signature" % fname)
    body = _strip_doc(fn.body)
    if len(body) != 1 or not isinstance(body[0], ast.If):
        raise ValueError("%s: body is not a single if/elif/else" % fname)
    top = body[0]
    t = top.test
    if not (isinstance(t, ast.UnaryOp) and isinstance(t.op, ast.Not) and _is_name(t.operand, "string")):
        raise ValueError("%s: first test is not `not string`" % fname)
    if not (len(top.body) == 1 and isinstance(top.body[0], ast.Return) and isinstance(top.body[0].value, ast.Constant) and top.body[0].value.value == ""):
        raise ValueError("%s: empty branch does not return ''" % fname)
    if len(top.orelse) != 1 or not isinstance(top.orelse[0], ast.If):
        raise ValueError("%s: no elif branch" % fname)
    mid = top.orelse[0]
    t = mid.test
    ok = (isinstance(t, ast.Call) and _is_name(t.func, "hasattr") and len(t.args) == 2 and _is_name(t.args[0], "string")
          and isinstance(t.args[1], ast.Constant) and t.args[1].value == "__html__")
    if not ok:
        raise ValueError("%s: elif is not hasattr(string, '__html__')" % fname)
    r = mid.body[0] if len(mid.body) == 1 else None
    ok = (isinstance(r, ast.Return) and isinstance(r.value, ast.Call) and _is_name(r.value.func, "_unpack")
          and len(r.value.args) == 1 and _is_name(r.value.args[0], "string"))
    if not ok:
        raise ValueError("%s: __html__ branch does not return _unpack(string)" % fname)
    if len(mid.orelse) != 1 or not isinstance(mid.orelse[0], ast.Return):
        raise ValueError("%s: else branch is not a single return" % fname)
    return _chain(mid.orelse[0].value, lambda n: _is_name(n, "string"))


def _sugar_property(tree, pname):
    fn = _find_func(tree, pname, cls="Element")
    if fn is None:
        raise ValueError("Element.%s not found" % pname)
    if not any(_is_name(d, "property") for d in fn.decorator_list):
        raise ValueError("Element.%s is not a property" % pname)
    body = _strip_doc(fn.body)
    if len(body) != 1 or not isinstance(body[0], ast.Return):
        raise ValueError("Element.%s: body is not a single return" % pname)

    def base(n):
        return isinstance(n, ast.Attribute) and n.attr == "u" and _is_name(n.value, "self")
    return _chain(body[0].value, base)


def _literal_assign(tree, name):
    for node in tree.body:
        if isinstance(node, ast.Assign) and len(node.targets) == 1 and _is_name(node.targets[0], name):
            v = node.value
            if isinstance(v, ast.Call) and _is_name(v.func, "frozenset") and len(v.args) == 1:
                v = v.args[0]
            return ast.literal_eval(v)
    raise ValueError("%s not found" % name)


def _lean_chain(steps):
    return lean_list("(%s, %s)" % (lean_char(a), lean_str(b)) for a, b in steps)


def _tag_shape(tree):
    """Pin the serialisation of one attribute and the closers in Tag._open/__call__/_close."""
    problems = []
    src_needed = {
        "_open": ["f'{k}=\"{_attribute_escape(v)}\"'", '" ".join(', '"<" + tagname + " " + guts', '"<" + tagname'],
        "__call__": ['" />" if self._context.xml else ">"', 'header + ">" + contents + self._close()', "self.tagname in VOID_ELEMENTS"],
        "_close": ['"</" + self.tagname + ">"'],
    }
    for meth, needles in src_needed.items():
        fn = _find_func(tree, meth, cls="Tag")
        if fn is None:
            problems.append("Tag.%s not found" % meth)
            continue
        text = ast.unparse(fn).replace("'", '"')
        for n in needles:
            if n.replace("'", '"') not in text:
                problems.append("Tag.%s no longer contains `%s`" % (meth, n))
    return problems


@extract.register("C11")
def extract_c11():
    problems = []
    tables = {}
    try:
        markup = _parse("out/markup.py")
        generic = _parse("out/generic.py")
        base = _parse("schema/base.py")
    except (OSError, SyntaxError) as e:
        return ["cannot parse source: %s" % e]
    for key, fn in (("attrChain", lambda: _escape_function(markup, "_attribute_escape")),
                    ("textChain", lambda: _escape_function(generic, "_markup_escape")),
                    ("xChain", lambda: _sugar_property(base, "x")),
                    ("xaChain", lambda: _sugar_property(base, "xa"))):
        try:
            tables[key] = fn()
        except ValueError as e:
            problems.append("shape of %s: %s" % (key, e))
    try:
        voids = sorted(_literal_assign(markup, "VOID_ELEMENTS"))
        order = list(_literal_assign(markup, "_static_attribute_order"))
        if not all(isinstance(s, str) for s in voids + order):
            raise ValueError("non-string entry")
    except ValueError as e:
        problems.append("tables: %s" % e)
        voids = order = None
    problems += _tag_shape(markup)
    if len(tables) == 4 and voids is not None:
        text = ("/- GENERATED by harness/extractors/c11.py from the current /repo source; do not edit. -/\n"
                "namespace Flatland.Generated.C11\n\n"
                "/-- `_attribute_escape` (out/markup.py): the `.replace` chain, in source order -/\n"
                "def attrChain : List (Char × List Char) := %s\n\n"
                "/-- `_markup_escape` (out/generic.py) -/\n"
                "def textChain : List (Char × List Char) := %s\n\n"
                "/-- `Element.x` (schema/base.py) -/\n"
                "def xChain : List (Char × List Char) := %s\n\n"
                "/-- `Element.xa` (schema/base.py) -/\n"
                "def xaChain : List (Char × List Char) := %s\n\n"
                "/-- `VOID_ELEMENTS` (sorted) -/\n"
                "def voidElements : List (List Char) := %s\n\n"
                "/-- `_static_attribute_order` -/\n"
                "def staticAttributeOrder : List (List Char) := %s\n\n"
                "end Flatland.Generated.C11\n") % (
            _lean_chain(tables["attrChain"]), _lean_chain(tables["textChain"]),
            _lean_chain(tables["xChain"]), _lean_chain(tables["xaChain"]),
            lean_str_list(voids), lean_str_list(order))
        extract.write_if_changed("C11Tables.lean", text)
    return problems
