"""Helpers shared by the markup extractors (C11/C19/C12): Lean literals for generated tables."""

_SAFE = set("abcdefghijklmnopqrstuvwxyzABCDEFGHIJKLMNOPQRSTUVWXYZ0123456789&;#<>=/_-.:%! ")


def lean_char(c):
    if c in _SAFE:
        return "'%s'" % c
    return "(Char.ofNat %d)" % ord(c)


def lean_str(s):
    """A Python str as a Lean `List Char` literal (explicit characters, kernel-reducible)."""
    return "[" + ", ".join(lean_char(c) for c in s) + "]"


def lean_list(items):
    return "[" + ", ".join(items) + "]"


def lean_str_list(strs):
    return lean_list(lean_str(s) for s in strs)
