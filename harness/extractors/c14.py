"""Translator obligations of C13/C14 (path language).

1. Pins: the hand-written scanner of lean/Flatland/Path.lean was written for these exact regex
   source texts (`_tokenize_re`, `_unescape_re`) and for these exact shapes of `_parse_slice`,
   `_canonicalize`, `_path_segment` constants.  The texts are re-read from the CURRENT source
   with `ast` on every run and compared; a difference is a broken obligation.
2. Tables taken from the running interpreter (CPython is trusted, not modelled): the zero
   code points of all Unicode `Nd` decades (what `\\d` and `int()` accept), the characters
   `int()` strips as whitespace, and `sys.get_int_max_str_digits()`; written to
   lean/Flatland/Generated/C14Unicode.lean.
"""
import ast
import os
import re
import sys
import unicodedata

from harness import core, extract

TOKENIZE_RE = r"""
    (
      # name
      (?:\\[/.\[]|[^/\[])+
    | # /
      (?<!\\)/
    | # [1:2:3]
      (?<!\\)\[(-?\d*:?-?\d*\:?-?\d*)(?<!\\)\](?=$|/|\[)
    | # [bogus]
      (?<!\\)\[[^\]]*(?<!\\)\](?=$|/|\[)
    | # . or .. at start
      ^\.\.?
    | # . or .. in expression
      (?<=[^\\]/)\.\.?
    |
      \[
    )
    """
UNESCAPE_RE = r"\\(/|\[|\]|\.)"


def _module(rel):
    path = os.path.join(core.REPO, "src", "flatland", rel)
    return ast.parse(open(path, encoding="utf-8").read()), path


def _assigned_call(tree, name):
    for node in tree.body:
        if isinstance(node, ast.Assign) and len(node.targets) == 1:
            t = node.targets[0]
            if isinstance(t, ast.Name) and t.id == name:
                return node.value
    return None


def _func(tree, name):
    for node in ast.walk(tree):
        if isinstance(node, ast.FunctionDef) and node.name == name:
            return node
    return None


def _walk_src(node):
    """ast nodes in source order"""
    ns = [n for n in ast.walk(node) if hasattr(n, "lineno")]
    return sorted(ns, key=lambda n: (n.lineno, n.col_offset))


def _strings(node):
    return [n.value for n in _walk_src(node) if isinstance(n, ast.Constant) and isinstance(n.value, str)]


def _ints(node):
    return [n.value for n in _walk_src(node) if isinstance(n, ast.Constant) and isinstance(n.value, int)
            and not isinstance(n.value, bool)]


def _pins():
    problems = []
    tree, path = _module("schema/paths.py")
    for name, want, flags in (("_tokenize_re", TOKENIZE_RE, "VERBOSE"), ("_unescape_re", UNESCAPE_RE, None)):
        call = _assigned_call(tree, name)
        if not (isinstance(call, ast.Call) and isinstance(call.func, ast.Attribute) and call.func.attr == "compile"
                and call.args and isinstance(call.args[0], ast.Constant)):
            problems.append("pin %s: not a re.compile(<literal>) assignment any more" % name)
            continue
        if call.args[0].value != want:
            problems.append("pin %s: regex source text differs from the text the Lean scanner was written for" % name)
        got_flags = [a.attr for a in call.args[1:] if isinstance(a, ast.Attribute)]
        if (flags and got_flags != [flags]) or (not flags and len(call.args) != 1):
            problems.append("pin %s: regex flags changed (%s)" % (name, got_flags))
    # _parse_slice: literals of the function body (split char, maxsplit, defaults 0 / 1 / -1 / +1)
    f = _func(tree, "_parse_slice")
    if f is None:
        problems.append("pin _parse_slice: function not found")
    else:
        doc = ast.get_docstring(f)
        strs = [s for s in _strings(f) if s != doc]
        if strs != [":", "::", ":", "-", ":"]:
            problems.append("pin _parse_slice: string literals changed: %r" % (strs,))
        if _ints(f) != [1, 1, 2, 0, 0, 0, 1, 1, 3, 2, 2, 1, 0]:
            problems.append("pin _parse_slice: integer literals changed: %r" % (_ints(f),))
    f = _func(tree, "_canonicalize")
    if f is None:
        problems.append("pin _canonicalize: function not found")
    else:
        names = [n.id for n in _walk_src(f) if isinstance(n, ast.Name) and n.id in ("HERE", "UP", "TOP", "NAME", "SLICE")]
        if names != ["HERE", "UP", "TOP", "UP"]:
            problems.append("pin _canonicalize: symbol tests changed: %r" % (names,))
    f = _func(tree, "tokenize")
    if f is None:
        problems.append("pin tokenize: function not found")
    else:
        doc = ast.get_docstring(f)
        strs = [s for s in _strings(f) if s != doc]
        if strs != ["/", "/", ".", "..", "[", "\\1", "\\1"]:
            problems.append("pin tokenize: string literals changed: %r" % (strs,))
    btree, _ = _module("schema/base.py")
    f = _func(btree, "_path_segment")
    if f is None:
        problems.append("pin _path_segment: function not found")
    else:
        doc = ast.get_docstring(f)
        strs = [s for s in _strings(f) if s != doc]
        # ("" = the empty step of an unnamed element, 05c4adc)
        if strs != ["member_schema", "", ".", "..", ".", "\\.", "/", "\\/", "[", "\\[",
                    "\\.", "\\\\.", "\\]", "\\\\]"]:
            problems.append("pin _path_segment: string literals changed: %r" % (strs,))
    # fq_name: "/" for the root, "/" + "/".join(parts), and one more "/" after an empty last step (05c4adc) —
    # the shape `fqName` / `lastEmpty` of Flatland/Path.lean follows
    f = _func(btree, "fq_name")
    if f is None:
        problems.append("pin fq_name: function not found")
    else:
        doc = ast.get_docstring(f, clean=False)
        strs = [s for s in _strings(f) if s != doc and s.strip() != (doc or "").strip()]
        if strs != ["/", "/", "/", "", "/"]:
            problems.append("pin fq_name: string literals changed: %r" % (strs,))
        if _ints(f) != [1, 1]:   # the two `[-1]` (the minus is a unary operator)
            problems.append("pin fq_name: int literals changed: %r" % (_ints(f),))
    # the compiled objects the running code uses must carry the same text (no monkeypatching)
    try:
        from flatland.schema import paths
        if paths._tokenize_re.pattern != TOKENIZE_RE or paths._tokenize_re.flags & re.VERBOSE == 0:
            problems.append("pin _tokenize_re: compiled pattern differs")
        if paths._unescape_re.pattern != UNESCAPE_RE:
            problems.append("pin _unescape_re: compiled pattern differs")
    except Exception as e:  # pragma: no cover
        problems.append("pin: cannot import flatland.schema.paths: %s" % e)
    return problems


def _accepts(s):
    try:
        int(s)
        return True
    except ValueError:
        return False


def _unicode_tables():
    problems = []
    nd = [c for c in range(0x110000) if unicodedata.category(chr(c)) == "Nd"]
    zeros = [c for c in nd if unicodedata.decimal(chr(c)) == 0]
    if len(zeros) * 10 != len(nd) or not all(
            unicodedata.decimal(chr(z + i), None) == i for z in zeros for i in range(10)):
        problems.append("unicode: Nd digits are no longer contiguous decades")
    digit_re = re.compile(r"\d")
    for c in range(0x110000):
        if 0xD800 <= c <= 0xDFFF:
            continue
        is_nd = unicodedata.category(chr(c)) == "Nd"
        if bool(digit_re.fullmatch(chr(c))) != is_nd or _accepts(chr(c)) != is_nd:
            problems.append("unicode: \\d / int() disagree with category Nd at U+%04X" % c)
            break
    spaces = [c for c in range(0x110000) if not (0xD800 <= c <= 0xDFFF) and chr(c) not in "+-"
              and unicodedata.category(chr(c)) != "Nd" and _accepts(chr(c) + "1")]
    if [c for c in spaces if not _accepts("1" + chr(c))]:
        problems.append("unicode: int() strips different characters left and right")
    limit = sys.get_int_max_str_digits()
    if limit:
        ok = (_accepts("0" * limit) and not _accepts("0" * (limit + 1)) and _accepts(" -" + "0_" * (limit - 1) + "0 ")
              and not _accepts("0_" * limit + "0"))
        if not ok:
            problems.append("int(): the digit limit is not 'more than %d digit characters'" % limit)
    lines = [
        "-- GENERATED by harness/extractors/c14.py from the running interpreter; do not edit.",
        "namespace Flatland.Generated.C14",
        "",
        "/-- code points of the zero digit of every Unicode `Nd` decade (`\\\\d`, `int()`) -/",
        "def ndZeros : List Nat := [%s]" % ", ".join(str(z) for z in zeros),
        "",
        "/-- characters `int()` strips around the literal -/",
        "def intSpaces : List Nat := [%s]" % ", ".join(str(c) for c in spaces),
        "",
        "/-- `sys.get_int_max_str_digits()` (0 = unlimited) -/",
        "def intMaxDigits : Nat := %d" % limit,
        "",
        "end Flatland.Generated.C14",
        "",
    ]
    extract.write_if_changed("C14Unicode.lean", "\n".join(lines))
    return problems


@extract.register("C14")
def c14_pins_and_tables():
    return _pins() + _unicode_tables()


@extract.register("C13")
def c13_pins():
    # C13 depends on the same scanner and on _path_segment; the tables are written by the C14 hook
    return _pins()
