"""C19 (and C12) translator obligations: YES/NO/MAYBE of parse_trool, `_default_context`, `_auto_tags`
(built by the @transformer/@defaults decorators: read from the AST and cross-checked against the
imported module), `_default_settings`, the `_id_invalid_re` pin, the set of characters `str.strip()`
removes, and the fact that `str.lower()` can be replaced by ASCII lowering for table lookups."""
import ast
import os
import sys

from harness import core, extract
from harness.extractors.leanfmt import lean_str, lean_list, lean_str_list
from harness.extractors.c11 import _parse, _find_func, _is_name, _strip_doc

ID_INVALID_RE = r"[^A-Za-z0-9_:.\-]"


def _module_tuple(tree, name):
    for node in tree.body:
        if isinstance(node, ast.Assign) and len(node.targets) == 1 and _is_name(node.targets[0], name):
            v = ast.literal_eval(node.value)
            if isinstance(v, (tuple, list)) and all(isinstance(s, str) for s in v):
                return list(v)
            raise ValueError("%s is not a tuple of strings" % name)
    raise ValueError("%s not found" % name)


def _parse_trool_shape(tree):
    fn = _find_func(tree, "parse_trool")
    if fn is None:
        return ["parse_trool not found"]
    want = ("def parse_trool(value):\n"
            "    if value is True or value is False or value is Maybe:\n        return value\n"
            "    if isinstance(value, bytes):\n        value = value.decode('utf8', 'replace')\n"
            "    value = value.lower()\n"
            "    if value in YES:\n        return True\n"
            "    if value in NO:\n        return False\n"
            "    if value in MAYBE:\n        return Maybe\n"
            "    return Maybe")
    if ast.unparse(fn) != want:
        return ["parse_trool no longer has the shape the model follows"]
    return []


def _lean_cval(v):
    if v is True:
        return ".bool true"
    if v is False:
        return ".bool false"
    if isinstance(v, int):
        return ".int %d" % v if v >= 0 else ".int (%d)" % v
    if isinstance(v, str):
        return ".text %s" % lean_str(v)
    if v == ():
        return ".opaque %s" % lean_str("()")
    raise ValueError("unsupported default value %r" % (v,))


def _decorated_tables(tree):
    """walk generic.py top to bottom, replaying the decorators (applied bottom-up per function)"""
    default_context = []  # ordered (key, value-or-marker)
    auto_tags = []
    transforms = []

    def put(k, v):
        for i, (k0, _) in enumerate(default_context):
            if k0 == k:
                default_context[i] = (k, v)
                return
        default_context.append((k, v))

    for node in tree.body:
        if isinstance(node, ast.Assign) and len(node.targets) == 1:
            t = node.targets[0]
            if (isinstance(t, ast.Subscript) and _is_name(t.value, "_default_context")
                    and isinstance(t.slice, ast.Constant)):
                if t.slice.value == "markup_wrapper" and _is_name(node.value, "Markup"):
                    put("markup_wrapper", "<Markup>")
                else:
                    raise ValueError("unexpected assignment into _default_context")
        elif isinstance(node, ast.FunctionDef):
            for d in reversed(node.decorator_list):
                if isinstance(d, ast.Call) and _is_name(d.func, "defaults"):
                    data = ast.literal_eval(d.args[0])
                    for k, v in data.items():
                        put(k, v)
                elif isinstance(d, ast.Call) and _is_name(d.func, "transformer"):
                    name = ast.literal_eval(d.args[0])
                    tags = list(ast.literal_eval(d.args[1]))
                    auto_tags.append((name, tags))
                    transforms.append(node.name)
                else:
                    raise ValueError("unexpected decorator on %s" % node.name)
        elif (isinstance(node, ast.Expr) and isinstance(node.value, ast.Call)
              and ast.unparse(node.value.func) == "_transforms.append"):
            transforms.append(ast.unparse(node.value.args[0]))
    return default_context, auto_tags, transforms


def _lower_is_ascii_for(tables):
    """For strings s: `s.lower() in T` iff `asciiLower(s) in T`, provided every code point outside A-Z that
    str.lower() changes lowers to something containing a character outside the alphabet of T."""
    # entries with an ASCII capital ("True", "False") can match neither s.lower() nor asciiLower(s)
    live = [t for t in tables if not any("A" <= c <= "Z" for c in t)]
    alphabet = set("".join(live))
    if any(ord(c) > 127 for c in alphabet):
        return ["YES/NO/MAYBE contain non-ASCII characters; the model's ASCII lowering is not justified"]
    bad = []
    for cp in range(sys.maxunicode + 1):
        if 0xD800 <= cp <= 0xDFFF:
            continue
        c = chr(cp)
        if "A" <= c <= "Z":
            continue
        low = c.lower()
        # context-sensitive final sigma can only produce non-ASCII characters
        if low != c and all(x in alphabet for x in low):
            bad.append(cp)
    if bad:
        return ["str.lower() maps U+%04X into the YES/NO/MAYBE alphabet; ASCII lowering is not equivalent" % bad[0]]
    return []


def _kw_lower_check():
    """`type` keywords are compared after str.lower(); the model lowers A-Z and U+212A (KELVIN SIGN -> 'k') only: check
    that no other code point lower-cases into ASCII lower-case letters"""
    odd = []
    for cp in range(sys.maxunicode + 1):
        if 0xD800 <= cp <= 0xDFFF:
            continue
        c = chr(cp)
        if "A" <= c <= "Z":
            continue
        low = c.lower()
        if low != c and all("a" <= x <= "z" for x in low):
            odd.append(cp)
    if odd != [0x212A]:
        return ["str.lower() maps %s into ASCII letters; the model's keyword lower-casing knows only A-Z and U+212A" % [hex(x) for x in odd]]
    return []


FILTERS_SHAPE = ("def transform_filters(tagname, attributes, contents, context, bind):\n"
                 "    proceed, forced = _pop_toggle('auto_filter', attributes, context)\n"
                 "    filters = context['filters']\n"
                 "    if not proceed:\n        return contents\n"
                 "    for fn in filters:\n"
                 "        want = getattr(fn, 'tags', None)\n"
                 "        if want and tagname not in want:\n            continue\n"
                 "        contents = fn(tagname, attributes, contents, context, bind)\n"
                 "    return contents")


def _filters_shape(tree):
    """pin: `transform_filters` has the statement order `Flatland.C19.transformFiltersF` follows (round h9)"""
    fn = _find_func(tree, "transform_filters")
    if fn is None:
        return ["transform_filters not found"]
    fn = ast.FunctionDef(name=fn.name, args=fn.args, body=fn.body, decorator_list=[], returns=None, type_comment=None,
                         lineno=0, col_offset=0)
    if ast.unparse(ast.fix_missing_locations(fn)) != FILTERS_SHAPE:
        return ["pin: transform_filters no longer has the shape the model (C19Filters.lean) follows"]
    return []


_CACHE = {}


@extract.register("C19")
def extract_c19():
    if "r" not in _CACHE:
        _CACHE["r"] = _extract_c19()
    return list(_CACHE["r"])


def _extract_c19():
    problems = []
    try:
        util = _parse("out/util.py")
        generic = _parse("out/generic.py")
        markup = _parse("out/markup.py")
    except (OSError, SyntaxError) as e:
        return ["cannot parse source: %s" % e]
    try:
        yes, no, maybe = (_module_tuple(util, n) for n in ("YES", "NO", "MAYBE"))
    except ValueError as e:
        return ["trool tables: %s" % e]
    problems += _parse_trool_shape(util)
    problems += _kw_lower_check()
    problems += _lower_is_ascii_for(yes + no + maybe)
    try:
        default_context, auto_tags, transforms = _decorated_tables(generic)
    except (ValueError, SyntaxError, IndexError) as e:
        return problems + ["decorator tables: %s" % e]
    problems += _filters_shape(generic)
    if transforms != ["transform_name", "transform_value", "transform_domid", "transform_for",
                      "transform_tabindex", "transform_filters"]:
        problems.append("order of _transforms changed: %s" % transforms)
    # cross-check with the imported module (the decorators really ran)
    try:
        import flatland.out.generic as g
        live_ctx = {k: ("<Markup>" if k == "markup_wrapper" and v is g.Markup else v) for k, v in g._default_context.items()}
        if live_ctx != dict(default_context) or list(live_ctx) != [k for k, _ in default_context]:
            problems.append("_default_context read from the AST differs from the imported module")
        if {k: sorted(v) for k, v in g._auto_tags.items()} != {k: sorted(v) for k, v in auto_tags}:
            problems.append("_auto_tags read from the AST differs from the imported module")
        if g._id_invalid_re.pattern != ID_INVALID_RE:
            problems.append("pin: _id_invalid_re is %r, the model's recogniser was written for %r" % (g._id_invalid_re.pattern, ID_INVALID_RE))
    except Exception as e:  # noqa
        problems.append("cannot import flatland.out.generic for the cross-check: %s" % e)
    try:
        settings = None
        for node in markup.body:
            if isinstance(node, ast.Assign) and _is_name(node.targets[0], "_default_settings"):
                settings = ast.literal_eval(node.value)
        if not isinstance(settings, dict):
            raise ValueError("_default_settings not found")
    except ValueError as e:
        return problems + [str(e)]
    for k, v in default_context:
        if k.startswith("auto_") and not isinstance(v, bool):
            problems.append("default of %s is not a bool" % k)
    spaces = [cp for cp in range(sys.maxunicode + 1) if chr(cp).isspace()]
    try:
        ctx_items = []
        for k, v in default_context:
            ctx_items.append("(%s, %s)" % (lean_str(k), ".opaque %s" % lean_str("Markup") if v == "<Markup>" else _lean_cval(v)))
        set_items = ["(%s, %s)" % (lean_str(k), _lean_cval(v)) for k, v in settings.items()]
    except ValueError as e:
        return problems + [str(e)]
    text = ("/- GENERATED by harness/extractors/c19.py from the current /repo source; do not edit. -/\n"
            "import Flatland.Markup.Basic\n"
            "namespace Flatland.Generated.C19\nopen Flatland.Markup\n\n"
            "/-- out/util.py -/\n"
            "def yes : List (List Char) := %s\n"
            "def no : List (List Char) := %s\n"
            "def maybe : List (List Char) := %s\n\n"
            "/-- `_default_context` after all @defaults decorators ran (insertion order) -/\n"
            "def defaultContext : List (List Char × CVal) := %s\n\n"
            "/-- `_default_settings` of out/markup.py (added to the base frame by Generator.__init__) -/\n"
            "def defaultSettings : List (List Char × CVal) := %s\n\n"
            "/-- `_auto_tags` as filled by @transformer -/\n"
            "def autoTags : List (List Char × List (List Char)) := %s\n\n"
            "/-- code points c with `chr(c).isspace()` (what `str.strip()` removes) -/\n"
            "def spaces : List Nat := %s\n\n"
            "end Flatland.Generated.C19\n") % (
        lean_str_list(yes), lean_str_list(no), lean_str_list(maybe),
        lean_list(ctx_items), lean_list(set_items),
        lean_list("(%s, %s)" % (lean_str(k), lean_str_list(v)) for k, v in auto_tags),
        lean_list(str(c) for c in spaces))
    extract.write_if_changed("C19Tables.lean", text)
    return problems


# C12 relies on the same generated tables
@extract.register("C12")
def extract_c12():
    return [p for p in extract_c19() if "pin:" in p or "_auto_tags" in p or "decorator" in p]
