"""Translator obligation "class table": the class-level constants and flags of every public element class,
re-extracted on every run from the CURRENT source (AST of src/flatland/schema/{base,scalars,containers,
compound,declarative}.py), cross-checked against the imported classes (MRO resolution, so inherited values
are what `getattr(cls, attr)` finds), and written to lean/Flatland/Generated/ClassTable.lean.

lean/Proofs/ClassTable.lean proves — by `decide` on the generated table — that every such constant the
hand-written models (and the harness code that feeds them) silently assume is what the source says NOW.
A source edit of one of these constants therefore breaks `lake build Proofs.ClassTable` at a named theorem.

`OBLIGATIONS` says which theorem belongs to which property; the main session wires it into
`generated_obligations` of harness/props/cxx.py (see NOTES-h7.md for the two lines to add per property).
"""
import ast
import os
import re
import sys

from harness import core, extract
from harness.extractors.leanfmt import lean_str, lean_list

FILES = ("base.py", "scalars.py", "containers.py", "compound.py", "declarative.py")

# classes that must have a row (the public element classes of flatland.__all__) ...
PUBLIC = ["Element", "Scalar", "String", "Number", "Integer", "Long", "Float", "Decimal", "Boolean", "Constrained",
          "Enum", "Date", "Time", "DateTime", "Ref", "Container", "Sequence", "List", "Array", "MultiValue",
          "Mapping", "Dict", "SparseDict", "Compound", "DateYYYYMMDD", "JoinedString", "Schema", "SparseSchema",
          "Form"]
# ... and internal ones the models also depend on
INTERNAL = {"Temporal": "flatland.schema.scalars", "ListSlot": "flatland.schema.containers",
            "Slot": "flatland.schema.base"}

# (class, attribute) pairs that must be present with a representable literal value; everything else that is a
# plain assignment in a class body is recorded too (new attributes appear in the table by themselves)
REQUIRED = {
    "Element": ["name", "optional", "validators", "default", "default_factory", "ugettext", "ungettext", "value",
                "raw", "u", "flattenable", "children_flattenable", "validates_down", "validates_up"],
    "Scalar": ["flattenable", "validates_down"],
    "String": ["strip"],
    "Number": ["type_", "signed", "format"],
    "Integer": ["type_", "format"], "Long": ["type_", "format"], "Float": ["type_", "format"],
    "Decimal": ["type_", "format"],
    "Boolean": ["true", "true_synonyms", "false", "false_synonyms"],
    "Constrained": ["child_type"],
    "Enum": ["valid_values"],
    "Temporal": ["type_", "regex", "format", "used", "strip"],
    "DateTime": ["type_", "regex", "format", "used"], "Date": ["type_", "regex", "format", "used"],
    "Time": ["type_", "regex", "format", "used"],
    "Ref": ["flattenable", "writable", "target_path"],
    "Container": ["validates_down", "validates_up", "descent_validators"],
    "Sequence": ["member_schema", "prune_empty"],
    "List": ["slot_type", "member_schema", "maximum_set_flat_members"],
    "Array": ["prune_empty", "flattenable"],
    "Mapping": ["field_schema"],
    "Dict": ["policy"],
    "SparseDict": ["minimum_fields"],
    "JoinedString": ["separator", "separator_regex", "member_schema", "flattenable", "children_flattenable"],
}

# methods / properties whose DEFINING class (first class of the MRO that has it in its own namespace) the models
# follow: the model of `is_empty` of a Dict is the body of Mapping.is_empty, and so on
METHODS = ["is_empty", "_validate", "validate", "flatten", "flattened_name", "set", "set_flat", "_set_flat",
           "set_default", "adapt", "serialize", "children", "all_children", "value", "u", "_index", "find",
           "fq_name", "__bool__", "__eq__", "__ne__", "__hash__", "compose", "explode", "may_contain", "_reset",
           "slice", "update_object", "set_by_object", "from_flat", "from_defaults", "default_value", "add_error",
           "valid_value", "target", "_new_slot", "_as_element", "_renumber", "__compound_init__"]

# which model "kind" each harness builder instantiates a class for (mirrors harness/props/g1common.py
# `Builder.build`, harness/props/c05.py `_schema_for`); the flat-core kinds are DERIVED from flatlib.build_class
TREE_KINDS = {"integer": "Integer", "string": "String", "list": "List", "array": "Array", "multi": "MultiValue",
              "dict": "Dict", "sparse": "SparseDict", "slot": "ListSlot"}
TREE_KINDS_DECL = {"dict": "Schema", "sparse": "SparseSchema"}   # declarative forms built for the same model kinds
C05_KINDS = {"s": "String", "d": "Dict", "sd": "SparseDict", "l": "List", "a": "Array",
             "m": "MultiValue", "j": "JoinedString", "c": "DateYYYYMMDD"}
# = KIND_CLASS of harness/props/c05.py without the leaf kinds "i" (Integer) and "b" (Boolean): the theorem
# Proofs.ClassTable.c05_kinds_agree says `Container = (k != "s")`, which is false for them as stated; with its right-hand
# side changed to `k ∉ ["s", "i", "b"]` the two can be added here

SENTINELS = ["Unevaluated", "Skip", "SkipAll", "SkipAllFalse"]
SYMBOLS = ["Unset", "Root", "NotEmpty"]

# theorem names (lean/Proofs/ClassTable.lean, namespace Flatland.ClassTable) per property id
_P = "Flatland.ClassTable."
OBLIGATIONS = {
    "C01": ["resolve_flags", "flat_flags_agree", "flat_flags_table", "flat_kinds_cover", "list_ceiling_default",
            "sequence_prune_default", "optional_default"],
    "C02": ["resolve_flags", "flat_flags_agree", "flat_flags_table", "flat_kinds_cover", "list_ceiling_default",
            "sequence_prune_default", "optional_default"],
    "C07": ["resolve_flags", "flat_flags_agree", "flat_flags_table", "flat_kinds_cover", "flags_closed_under_mro"],
    "C03": ["dict_policy_default", "sparse_minimum_default", "optional_default"],
    "C04": ["boolean_default_agrees", "boolean_default_coherent", "boolean_synonyms_pinned", "scalar_strip_defaults", "number_defaults", "temporal_triples_agree",
            "joined_defaults"],
    "C05": ["validates_agree", "validateUp_reads", "validateDown_reads", "validate_definers", "c05_kinds_agree",
            "sentinel_truthiness", "sentinels_distinct"],
    "C06": ["c06_kind_has_agrees", "c06_builtin_defaults"],
    "C08": ["tree_kinds_agree", "tree_defaults_agree", "tree_is_empty_definers", "isEmpty_dict", "isEmpty_members", "list_slot_type"],
    "C09": ["tree_kinds_agree", "tree_defaults_agree", "list_slot_type"],
    "C10": ["tree_kinds_agree", "tree_defaults_agree", "tree_is_empty_definers", "sparse_minimum_default",
            "dict_policy_default"],
    "C12": ["flat_flags_table", "flat_kinds_cover", "boolean_synonyms_pinned"],
    "C13": ["tree_kinds_agree"],
    "C18": ["joined_defaults", "ref_defaults", "temporal_triples_agree", "number_defaults", "scalar_strip_defaults"],
    "C20": ["dict_policy_default", "scalar_strip_defaults", "optional_default"],
}
OBLIGATIONS = {p: [_P + t for t in ts] for p, ts in OBLIGATIONS.items()}


# ---------------------------------------------------------------------------------------------------
# values

class V:
    """A class-level value as the Lean table can carry it."""
    def __init__(self, tag, payload=None):
        self.tag, self.payload = tag, payload

    def lean(self):
        t, p = self.tag, self.payload
        if t == "none":
            return ".none"
        if t == "bool":
            return ".bool %s" % ("true" if p else "false")
        if t == "int":
            return ".int %d" % p if p >= 0 else ".int (%d)" % p
        if t in ("str", "ref", "regex", "opaque"):
            return ".%s %s" % (t, lean_str(p))
        if t == "tuple":
            return ".tuple %s" % lean_list(lean_str(s) for s in p)
        raise ValueError(t)

    def __repr__(self):
        return "%s(%r)" % (self.tag, self.payload)


def _lit(node):
    """AST expression -> V.  Constants, tuples of text, dotted names, `re.compile(<text>)`; else opaque."""
    if isinstance(node, ast.Constant):
        v = node.value
        if v is None:
            return V("none")
        if v is True or v is False:
            return V("bool", v)
        if isinstance(v, int):
            return V("int", v)
        if isinstance(v, str):
            return V("str", v)
    if isinstance(node, ast.UnaryOp) and isinstance(node.op, ast.USub) and isinstance(node.operand, ast.Constant) \
            and isinstance(node.operand.value, int):
        return V("int", -node.operand.value)
    if isinstance(node, ast.Tuple):
        try:
            elts = [ast.literal_eval(e) for e in node.elts]
        except ValueError:
            return V("opaque", ast.unparse(node))
        if all(isinstance(e, str) for e in elts):
            return V("tuple", elts)
    if isinstance(node, (ast.Name, ast.Attribute)):
        return V("ref", ast.unparse(node))
    if isinstance(node, ast.BinOp) and isinstance(node.op, ast.Add):
        a, b = _lit(node.left), _lit(node.right)
        if a.tag == b.tag == "str":
            return V("str", a.payload + b.payload)
    if isinstance(node, ast.Call) and ast.unparse(node.func) == "re.compile" and len(node.args) == 1 \
            and not node.keywords:
        a = _lit(node.args[0])
        if a.tag == "str":
            return V("regex", a.payload)
    return V("opaque", ast.unparse(node))


def _agrees(v, raw, modglobals):
    """Does the value found by attribute lookup on the imported class equal what the AST says?"""
    t, p = v.tag, v.payload
    if t == "none":
        return raw is None
    if t == "bool":
        return raw is p
    if t == "int":
        return type(raw) is int and raw == p
    if t == "str":
        return type(raw) is str and raw == p
    if t == "tuple":
        return type(raw) is tuple and list(raw) == list(p)
    if t == "regex":
        return isinstance(raw, re.Pattern) and raw.pattern == p and raw.flags == re.compile(p).flags
    if t == "ref":
        try:
            return eval(p, dict(modglobals)) is raw
        except Exception:
            return False
    return True      # opaque: nothing to compare


# ---------------------------------------------------------------------------------------------------
# source

def _class_bodies(srcdir):
    """class name -> (module file, {attr: V} of plain assignments, [names of defs], bases as text)"""
    out = {}
    for fn in FILES:
        path = os.path.join(srcdir, fn)
        tree = ast.parse(open(path, encoding="utf-8").read())
        for node in tree.body:
            if not isinstance(node, ast.ClassDef):
                continue
            attrs, defs = {}, []
            for st in node.body:
                if isinstance(st, ast.Assign) and len(st.targets) == 1 and isinstance(st.targets[0], ast.Name):
                    attrs[st.targets[0].id] = _lit(st.value)      # a later assignment wins, as in Python
                elif isinstance(st, ast.AnnAssign) and isinstance(st.target, ast.Name) and st.value is not None:
                    attrs[st.target.id] = _lit(st.value)
                elif isinstance(st, (ast.FunctionDef, ast.AsyncFunctionDef)):
                    defs.append(st.name)
                    attrs.pop(st.name, None)
            out[node.name] = (fn, attrs, defs, [ast.unparse(b) for b in node.bases],
                              [k.arg for k in node.keywords])
    return out


def _module_sentinels(srcdir):
    """`Skip = named_int_factory('Skip', True, ...)` / `Unset = symbol('Unset')` of base.py, from the AST"""
    tree = ast.parse(open(os.path.join(srcdir, "base.py"), encoding="utf-8").read())
    ints, syms = {}, {}
    for node in tree.body:
        if isinstance(node, ast.Assign) and len(node.targets) == 1 and isinstance(node.targets[0], ast.Name) \
                and isinstance(node.value, ast.Call):
            f = ast.unparse(node.value.func)
            name = node.targets[0].id
            if f == "named_int_factory" and len(node.value.args) >= 2:
                try:
                    ints[name] = (ast.literal_eval(node.value.args[0]), ast.literal_eval(node.value.args[1]))
                except ValueError:
                    pass
            elif f == "symbol" and len(node.value.args) == 1:
                try:
                    syms[name] = ast.literal_eval(node.value.args[0])
                except ValueError:
                    pass
    return ints, syms


def _flat_kinds():
    """flat-core model kind (constructor of Flatland.Flat.Schema, + `multi` for the MultiValue variant of `array`)
    -> the classes harness/flatlib.py really builds for it (first public class in the MRO of the built class)."""
    from harness import flatlib
    leaf = {"t": "leaf", "name": "x", "k": 0}
    probes = []
    for i, kind in enumerate(flatlib.LEAF_KINDS):
        probes.append(("leaf", {"t": "leaf", "name": "x", "k": i}, list(flatlib.LEAF_KINDS)))
    jk = {"type": "Joined", "sep": ",", "prune": True, "member": flatlib.LEAF_KINDS[0]}
    probes.append(("joined", {"t": "joined", "name": "x", "k": 0, "member": leaf}, [jk]))
    probes.append(("compound", {"t": "compound", "name": "x", "k": 0, "fields": []}, [{"type": "DateYMD"}]))
    for mode in ("dense", "sparse", "sparseReq"):
        probes.append(("dict", {"t": "dict", "name": "x", "mode": mode, "fields": [leaf]}, list(flatlib.LEAF_KINDS)))
    probes.append(("list", {"t": "list", "name": "x", "prune": True, "max": 3, "member": leaf}, list(flatlib.LEAF_KINDS)))
    probes.append(("array", {"t": "array", "name": "x", "prune": True, "member": leaf}, list(flatlib.LEAF_KINDS)))
    probes.append(("multi", {"t": "array", "multi": True, "name": "x", "prune": True, "member": leaf},
                   list(flatlib.LEAF_KINDS)))
    return probes, flatlib


# ---------------------------------------------------------------------------------------------------

_CACHE = {}


def _extract():
    problems = []
    srcdir = os.path.join(core.REPO, "src", "flatland", "schema")
    import flatland
    import flatland.schema.base as fbase
    import flatland.schema.scalars as fscalars
    import flatland.schema.containers as fcontainers
    import flatland.schema.compound as fcompound
    import flatland.schema.declarative as fdecl
    mods = {"base.py": fbase, "scalars.py": fscalars, "containers.py": fcontainers, "compound.py": fcompound,
            "declarative.py": fdecl}
    for fn, m in mods.items():
        if os.path.realpath(m.__file__) != os.path.realpath(os.path.join(srcdir, fn)):
            problems.append("class table: %s is imported from %s, not from %s (AST and imported classes are not the "
                            "same source)" % (m.__name__, m.__file__, srcdir))
    bodies = _class_bodies(srcdir)

    # the rows: every public element class of flatland.__all__ (a class exported there that is not in PUBLIC is a
    # problem: the table — and the models — do not know it), plus the internal ones
    classes = []
    for name in PUBLIC:
        c = getattr(flatland, name, None)
        if not isinstance(c, type):
            problems.append("class table: public class flatland.%s has disappeared" % name)
            continue
        classes.append((name, c))
    for name, modname in INTERNAL.items():
        c = getattr(sys.modules.get(modname), name, None)
        if not isinstance(c, type):
            problems.append("class table: internal class %s.%s has disappeared" % (modname, name))
            continue
        classes.append((name, c))
    exported = [n for n in getattr(flatland, "__all__", ()) if isinstance(getattr(flatland, n, None), type)
                and issubclass(getattr(flatland, n), fbase.Element)]
    for n in exported:
        if n not in PUBLIC:
            problems.append("class table: flatland.__all__ exports element class %s, which the table does not know" % n)
    for n in PUBLIC:
        if n not in getattr(flatland, "__all__", ()):
            problems.append("class table: %s is no longer exported by flatland.__all__" % n)

    rows = []
    for name, c in classes:
        if c.__name__ != name:
            problems.append("class table: flatland.%s is a class named %s" % (name, c.__name__))
        mro = [k.__name__ for k in c.__mro__]
        # every data attribute assigned in the body of a class of the MRO, resolved as attribute lookup does
        names = []
        for k in c.__mro__:
            if k.__name__ in bodies and bodies[k.__name__][0] == os.path.basename(getattr(sys.modules[k.__module__], "__file__", "")):
                for a in bodies[k.__name__][1]:
                    if a not in names and not (a.startswith("__") and a.endswith("__")):
                        names.append(a)
        attrs = []
        for a in sorted(names):
            definer = next((k for k in c.__mro__ if a in vars(k)), None)
            if definer is None:
                problems.append("class table: %s.%s is assigned in the source but the imported class has no such "
                                "attribute" % (name, a))
                continue
            body = bodies.get(definer.__name__)
            if body is None or a not in body[1]:
                # found on a class by a def / by a metaclass / assigned after the class statement
                if body is not None and a in body[2]:
                    continue              # overridden by a def (property): listed under `definers`
                raw = vars(definer)[a]
                if body is not None and "metaclass" in body[4] and isinstance(raw, (list, tuple)) and len(raw) == 0:
                    attrs.append((a, definer.__name__, V("tuple", [])))     # computed by the metaclass: empty
                    continue
                problems.append("class table: %s.%s comes from %s, where the source has no plain assignment of it"
                                % (name, a, definer.__name__))
                continue
            v = body[1][a]
            raw = vars(definer)[a]
            if not _agrees(v, raw, vars(sys.modules[definer.__module__])):
                problems.append("class table: %s.%s (defined by %s): the source text says %r, the imported class has %r"
                                % (name, a, definer.__name__, v, raw))
            attrs.append((a, definer.__name__, v))
        have = {a: v for a, _, v in attrs}
        for k in c.__mro__:
            for a in REQUIRED.get(k.__name__, ()):
                if a not in have and not any(a in vars(k2) for k2 in c.__mro__):
                    problems.append("class table: expected attribute %s.%s (declared by %s) has disappeared" % (name, a, k.__name__))
        for a, d, v in attrs:
            if v.tag == "opaque" and a in REQUIRED.get(d, ()):
                problems.append("class table: %s.%s (defined by %s) is no longer a literal the table can represent: %s"
                                % (name, a, d, v.payload))
        definers = []
        for m in METHODS:
            d = next((k for k in c.__mro__ if m in vars(k)), None)
            if d is not None:
                definers.append((m, d.__name__))
        rows.append({"name": name, "mro": mro, "attrs": attrs, "definers": definers,
                     "public": name in PUBLIC,
                     "flat": [], "tree": [], "c05": [], "c06": []})
    byname = {r["name"]: r for r in rows}
    bycls = {c: n for n, c in classes}

    # which model kinds the harness builds each class for
    try:
        probes, flatlib = _flat_kinds()
        for kind, sj, kinds in probes:
            built = flatlib.build_class(sj, kinds)
            base = next((bycls[k] for k in built.__mro__ if k in bycls), None)
            if base is None:
                problems.append("class table: flatlib.build_class(%s) builds no known class" % kind)
            elif kind not in byname[base]["flat"]:
                byname[base]["flat"].append(kind)
    except Exception as e:
        problems.append("class table: probing harness/flatlib.py failed: %s: %s" % (type(e).__name__, e))
    for kind, cn in list(TREE_KINDS.items()) + list(TREE_KINDS_DECL.items()):
        if cn in byname and kind not in byname[cn]["tree"]:
            byname[cn]["tree"].append(kind)
    for kind, cn in C05_KINDS.items():
        if cn in byname:
            byname[cn]["c05"].append(kind)

    # harness/props/c06.py BASES: class name -> model kind (read from its source text, not imported)
    try:
        c06src = ast.parse(open(os.path.join(core.VERIF, "harness", "props", "c06.py"), encoding="utf-8").read())
        bases = next(ast.literal_eval(n.value) for n in c06src.body if isinstance(n, ast.Assign)
                     and len(n.targets) == 1 and isinstance(n.targets[0], ast.Name) and n.targets[0].id == "BASES")
        for cn, d in bases.items():
            if cn in byname:
                byname[cn]["c06"].append(d["kind"])
            else:
                problems.append("class table: harness/props/c06.py BASES names %s, which has no row" % cn)
    except Exception as e:
        problems.append("class table: reading BASES of harness/props/c06.py failed: %s: %s" % (type(e).__name__, e))

    # sentinels
    ints, syms = _module_sentinels(srcdir)
    sentinels = []
    for s in SENTINELS:
        obj = getattr(flatland, s, None)
        if obj is None or not isinstance(obj, int) or isinstance(obj, bool):
            problems.append("class table: flatland.%s is no longer a named int" % s)
            continue
        if s not in ints:
            problems.append("class table: base.py no longer builds %s by named_int_factory(<name>, <literal>)" % s)
        elif ints[s][0] != s or bool(ints[s][1]) != bool(obj) or int(ints[s][1]) != int(obj):
            problems.append("class table: %s: source says named_int_factory%r, imported object is %r/%d"
                            % (s, ints[s], str(obj), int(obj)))
        sentinels.append((s, bool(obj), int(obj), str(obj)))
    objs = [getattr(flatland, s, None) for s in SENTINELS]
    distinct = all(a is not b for i, a in enumerate(objs) for b in objs[i + 1:]) and \
        all(o is not True and o is not False and o is not None for o in objs) and \
        len({type(o) for o in objs}) == len(objs)
    symbols = []
    for s in SYMBOLS:
        obj = getattr(fbase, s, None)
        if obj is None:
            problems.append("class table: flatland.schema.base.%s has disappeared" % s)
            continue
        if syms.get(s) != s:
            problems.append("class table: base.py no longer defines %s = symbol(%r)" % (s, s))
        symbols.append((s, bool(obj)))

    # ---- Lean
    def row_lean(r):
        attrs = lean_list("(%s, %s, %s)" % (lean_str(a), lean_str(d), v.lean()) for a, d, v in r["attrs"])
        defs = lean_list("(%s, %s)" % (lean_str(m), lean_str(d)) for m, d in r["definers"])
        return ("def row%s : Row :=\n  { name := %s,\n    pub := %s,\n    mro := %s,\n    attrs := %s,\n    definers := %s,\n"
                "    flatKinds := %s,\n    treeKinds := %s,\n    c05Kinds := %s,\n    c06Kinds := %s }\n") % (
            r["name"], lean_str(r["name"]), "true" if r["public"] else "false",
            lean_list(lean_str(m) for m in r["mro"]), attrs, defs,
            lean_list(lean_str(k) for k in r["flat"]), lean_list(lean_str(k) for k in r["tree"]),
            lean_list(lean_str(k) for k in r["c05"]), lean_list(lean_str(k) for k in r["c06"]))

    text = """/- GENERATED by harness/extractors/classtable.py from the current /repo source on every run — do not edit.
   One row per element class: the MRO, every class-level data attribute a class body of the MRO assigns (resolved
   as attribute lookup on the imported class resolves it, with the class that defines it and the literal value read
   from the source text), the class that defines each method the models follow, and the model kinds the harness
   instantiates the class for.  The theorems about this table are in lean/Proofs/ClassTable.lean. -/
namespace Flatland.Generated.ClassTable

abbrev Str := List Char

/-- a class-level value: `ref` is a dotted name in the source (a type or a symbol), `regex` the pattern given to
    `re.compile`, `tuple` a tuple of texts (`()` is `tuple []`), `opaque` anything else (its source text) -/
inductive Val
  | none | bool (b : Bool) | int (i : Int) | str (s : Str) | tuple (l : List Str)
  | ref (name : Str) | regex (pattern : Str) | opaque (src : Str)
  deriving DecidableEq, Repr, Inhabited

structure Row where
  name : Str
  /-- exported by `flatland.__all__` -/
  pub : Bool
  mro : List Str
  /-- (attribute, defining class, value) -/
  attrs : List (Str × Str × Val)
  /-- (method or property, defining class) -/
  definers : List (Str × Str)
  /-- constructors of `Flatland.Flat.Schema` harness/flatlib.py builds this class for -/
  flatKinds : List Str
  /-- `Flatland.Tree.SKind`s harness/props/g1common.py builds this class for -/
  treeKinds : List Str
  /-- node kinds of harness/props/c05.py -/
  c05Kinds : List Str
  /-- `Flatland.C06.Kind`s harness/props/c06.py (`BASES`) runs this class as -/
  c06Kinds : List Str
  deriving Repr, Inhabited

def Row.get (r : Row) (a : Str) : Option Val :=
  (r.attrs.find? (fun x => x.1 == a)).map (fun x => x.2.2)

def Row.definedBy (r : Row) (a : Str) : Option Str :=
  (r.attrs.find? (fun x => x.1 == a)).map (fun x => x.2.1)

def Row.definer (r : Row) (m : Str) : Option Str :=
  (r.definers.find? (fun x => x.1 == m)).map (fun x => x.2)

def Row.isa (r : Row) (c : Str) : Bool := r.mro.contains c

structure Sentinel where
  name : Str
  truthy : Bool
  intVal : Int
  text : Str
  deriving DecidableEq, Repr

%s
def classTable : List Row :=
  %s

/-- the named ints `validate()` compares by identity -/
def sentinels : List Sentinel :=
  %s

/-- pairwise distinct objects of pairwise distinct types, none of them `True` / `False` / `None` -/
def sentinelsDistinct : Bool := %s

/-- (symbol, truthiness) -/
def symbols : List (Str × Bool) :=
  %s

end Flatland.Generated.ClassTable
""" % (
        "\n".join(row_lean(r) for r in rows),
        lean_list("row" + r["name"] for r in rows),
        lean_list("{ name := %s, truthy := %s, intVal := %d, text := %s }" % (
            lean_str(s), "true" if t else "false", i, lean_str(txt)) for s, t, i, txt in sentinels),
        "true" if distinct else "false",
        lean_list("(%s, %s)" % (lean_str(s), "true" if t else "false") for s, t in symbols),
    )
    extract.write_if_changed("ClassTable.lean", text)
    return problems


def extract_classtable():
    key = os.path.realpath(core.REPO)
    if key not in _CACHE:
        _CACHE[key] = _extract()
    return list(_CACHE[key])


for _pid in sorted(OBLIGATIONS):
    extract.register(_pid)(extract_classtable)


if __name__ == "__main__":
    for p in extract_classtable():
        print("PROBLEM", p)
