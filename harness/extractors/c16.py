"""Translator part of C16 (and of the message texts used by C15).

Re-extracted from the CURRENT /repo on every run:
  * every message template of every validator class in flatland.validation, by importing the
    package and walking the class dictionaries, cross-checked against the AST (N_/P_ calls);
  * per message: the keyword names its note_error call sites pass, the validator's attributes;
  * the three shipped .po catalogues + flatland.pot (small .po parser, no polib);
  * .mo == .po (the compiled catalogue gettext really loads says what the .po text says).
Output: lean/Flatland/Generated/C16Catalogues.lean.  Problems are returned as strings.
"""
import ast
import gettext
import glob
import importlib
import os
import re
import sys

from harness import core, extract

MODULES = ["base", "scalars", "containers", "network", "number"]
LANGS = ["de", "es", "fr"]


def repo_src():
    return os.path.join(core.REPO, "src", "flatland")


# ------------------------------------------------------------------ .po parsing

_STR = re.compile(r'"((?:[^"\\]|\\.)*)"\s*$')
_ESC = {"n": "\n", "t": "\t", "r": "\r", '"': '"', "\\": "\\", "a": "\a", "b": "\b", "f": "\f", "v": "\v"}


def _unq(tok, where):
    m = _STR.match(tok.strip())
    if not m:
        raise ValueError("%s: cannot parse string token %r" % (where, tok))
    s = m.group(1)
    out = []
    i = 0
    while i < len(s):
        c = s[i]
        if c == "\\":
            i += 1
            e = s[i]
            if e in _ESC:
                out.append(_ESC[e])
            elif e in "01234567":
                j = i
                while j < len(s) and j < i + 3 and s[j] in "01234567":
                    j += 1
                out.append(chr(int(s[i:j], 8)))
                i = j - 1
            elif e == "x":
                j = i + 1
                while j < len(s) and s[j] in "0123456789abcdefABCDEF":
                    j += 1
                out.append(chr(int(s[i + 1:j], 16)))
                i = j - 1
            else:
                raise ValueError("%s: unknown escape \\%s" % (where, e))
        else:
            out.append(c)
        i += 1
    return "".join(out)


def parse_po(path):
    """Return (entries, problems); entry = dict(msgid, msgid_plural|None, msgstr=[...], fuzzy, obsolete)."""
    entries = []
    problems = []
    cur = None
    field = None
    flags = set()

    def flush():
        nonlocal cur, flags
        if cur is not None and "msgid" in cur:
            ms = cur.get("msgstr", {})
            n = (max(ms) + 1) if ms else 0
            lst = [ms.get(i, "") for i in range(n)]
            entries.append({"msgid": cur["msgid"], "msgid_plural": cur.get("msgid_plural"),
                            "msgstr": lst, "fuzzy": "fuzzy" in flags, "ctx": cur.get("msgctxt")})
        cur = None
        flags = set()

    with open(path, encoding="utf-8") as f:
        for lineno, line in enumerate(f, 1):
            where = "%s:%d" % (os.path.basename(path), lineno)
            line = line.rstrip("\n")
            if not line.strip():
                flush()
                field = None
                continue
            if line.startswith("#~"):
                continue  # obsolete entry
            if line.startswith("#,"):
                if cur is not None and "msgstr" in cur:
                    flush()
                flags |= {x.strip() for x in line[2:].split(",")}
                continue
            if line.startswith("#"):
                if cur is not None and "msgstr" in cur:
                    flush()
                continue
            try:
                m = re.match(r"(msgctxt|msgid_plural|msgid|msgstr(?:\[(\d+)\])?)\s+(.*)$", line)
                if m:
                    kw = m.group(1)
                    if kw == "msgid" or kw == "msgctxt":
                        if cur is not None and ("msgstr" in cur or (kw == "msgctxt" and "msgid" in cur)):
                            flush()
                        if cur is None:
                            cur = {}
                        cur[kw] = _unq(m.group(3), where)
                        field = (kw, None)
                    elif kw == "msgid_plural":
                        cur["msgid_plural"] = _unq(m.group(3), where)
                        field = (kw, None)
                    else:
                        idx = int(m.group(2)) if m.group(2) is not None else 0
                        cur.setdefault("msgstr", {})[idx] = _unq(m.group(3), where)
                        field = ("msgstr", idx)
                elif line.lstrip().startswith('"') and field is not None and cur is not None:
                    s = _unq(line, where)
                    if field[0] == "msgstr":
                        cur["msgstr"][field[1]] += s
                    else:
                        cur[field[0]] += s
                else:
                    problems.append("%s: unparsable line %r" % (where, line[:60]))
            except (ValueError, IndexError, TypeError) as e:
                problems.append(str(e))
    flush()
    return entries, problems


def po_header_field(header, name):
    for l in header.split("\n"):
        if l.lower().startswith(name.lower() + ":"):
            return l.split(":", 1)[1].strip()
    return None


def load_catalogue_files():
    """{'pot': entries, 'de': entries, ...}, problems"""
    base = os.path.join(repo_src(), "i18n")
    out = {}
    problems = []
    for name, path in [("pot", os.path.join(base, "flatland.pot"))] + [
            (l, os.path.join(base, l, "LC_MESSAGES", "flatland.po")) for l in LANGS]:
        if not os.path.exists(path):
            problems.append("catalogue file missing: %s" % path)
            out[name] = []
            continue
        ents, ps = parse_po(path)
        problems += ps
        out[name] = ents
    return out, problems


def mo_catalog(lang):
    t = gettext.translation("flatland", localedir=os.path.join(repo_src(), "i18n"), languages=[lang])
    return t


def check_mo_equals_po(lang, entries):
    """The compiled catalogue must contain exactly the translated entries of the .po text."""
    problems = []
    try:
        t = mo_catalog(lang)
    except Exception as e:  # missing / corrupt .mo
        return ["%s: cannot load flatland.mo: %s: %s" % (lang, type(e).__name__, e)]
    cat = dict(t._catalog)
    expect = {}
    for e in entries:
        if e["fuzzy"] and e["msgid"] != "":
            continue
        if e["msgid_plural"] is None:
            if e["msgstr"] and e["msgstr"][0] != "":
                expect[e["msgid"]] = e["msgstr"][0]
        else:
            if all(s != "" for s in e["msgstr"]) and e["msgstr"]:
                for i, s in enumerate(e["msgstr"]):
                    expect[(e["msgid"], i)] = s
    for k, v in expect.items():
        if k == "":
            # header: gettext('') returns it verbatim (an empty substituted value shows it), so the whole text
            if cat.get("", "") != v:
                problems.append("%s: .mo header differs from the .po header" % lang)
            continue
        if k not in cat:
            problems.append("%s: .mo lacks entry %r present in .po" % (lang, k))
        elif cat[k] != v:
            problems.append("%s: .mo entry %r = %r differs from .po %r" % (lang, k, cat[k], v))
    for k in cat:
        if k != "" and k not in expect:
            problems.append("%s: .mo has entry %r that is not in .po" % (lang, k))
    return problems


# ------------------------------------------------------------------ message templates from the source


def _const_str(node):
    if isinstance(node, ast.Constant) and isinstance(node.value, str):
        return node.value
    if isinstance(node, ast.BinOp) and isinstance(node.op, ast.Add):
        a, b = _const_str(node.left), _const_str(node.right)
        if a is not None and b is not None:
            return a + b
    return None


def ast_classes():
    """{class name: {"module", "bases": [names], "messages": {attr: str | (s, p, k)},
                     "init_attrs": set, "class_attrs": set, "calls": [(key | None, [kw names], has_starstar)]}}"""
    out = {}
    problems = []
    for mod in MODULES:
        path = os.path.join(repo_src(), "validation", mod + ".py")
        tree = ast.parse(open(path, encoding="utf-8").read(), path)
        for node in tree.body:
            if not isinstance(node, ast.ClassDef):
                continue
            info = {"module": mod, "bases": [b.id if isinstance(b, ast.Name) else getattr(b, "attr", "?") for b in node.bases],
                    "messages": {}, "init_attrs": set(), "class_attrs": set(), "calls": []}
            for st in node.body:
                if isinstance(st, ast.Assign) and len(st.targets) == 1 and isinstance(st.targets[0], ast.Name):
                    name = st.targets[0].id
                    info["class_attrs"].add(name)
                    v = st.value
                    if isinstance(v, ast.Call) and isinstance(v.func, ast.Name) and v.func.id in ("N_", "P_"):
                        args = [_const_str(a) for a in v.args]
                        if None in args or v.keywords:
                            problems.append("%s.%s: %s(...) argument is not a string literal" % (node.name, name, v.func.id))
                            continue
                        if v.func.id == "N_":
                            if len(args) != 1:
                                problems.append("%s.%s: N_ takes one string" % (node.name, name))
                                continue
                            info["messages"][name] = args[0]
                        else:
                            if len(args) != 3:
                                problems.append("%s.%s: P_ takes (single, plural, n_key)" % (node.name, name))
                                continue
                            info["messages"][name] = tuple(args)
                elif isinstance(st, ast.FunctionDef):
                    for sub in ast.walk(st):
                        if isinstance(sub, ast.Assign):
                            for t in sub.targets:
                                if isinstance(t, ast.Attribute) and isinstance(t.value, ast.Name) and t.value.id == "self":
                                    info["init_attrs"].add(t.attr)
                        if isinstance(sub, ast.Call) and isinstance(sub.func, ast.Attribute) \
                                and sub.func.attr in ("note_error", "note_warning") \
                                and isinstance(sub.func.value, ast.Name) and sub.func.value.id == "self":
                            key = None
                            if len(sub.args) >= 3:
                                key = _const_str(sub.args[2])
                            kws = [k.arg for k in sub.keywords if k.arg is not None and k.arg not in ("key", "message")]
                            for k in sub.keywords:
                                if k.arg == "key":
                                    key = _const_str(k.value)
                            star = any(k.arg is None for k in sub.keywords)
                            info["calls"].append((key, kws, star))
            out[node.name] = info
    return out, problems


def collect_messages():
    """List of dicts(cls, attr, single, plural, nkey, supplied, vattrs) for every public validator
    class of flatland.validation, problems."""
    problems = []
    for m in list(sys.modules):
        pass
    import flatland.validation as V
    from flatland.validation.base import Validator
    import flatland.validation.number as number_mod

    classes, ps = ast_classes()
    problems += ps
    public = {}
    for modname in MODULES:
        mod = importlib.import_module("flatland.validation." + modname)
        for name, obj in vars(mod).items():
            if isinstance(obj, type) and issubclass(obj, Validator) and obj.__module__ == mod.__name__:
                public[obj.__name__] = obj
    msgs = []
    for cname in sorted(public):
        cls = public[cname]
        if cname not in classes:
            problems.append("class %s found at run time but not in the AST" % cname)
            continue
        mro = [c.__name__ for c in cls.__mro__ if c.__name__ in classes]
        # message attributes: AST-declared along the MRO (nearest wins)
        declared = {}
        for c in reversed(mro):
            declared.update(classes[c]["messages"])
        # run-time cross-check
        for attr, val in declared.items():
            rt = getattr(cls, attr, None)
            if isinstance(val, tuple):
                ok = isinstance(rt, tuple) and tuple(rt) == val
            else:
                ok = rt == val
            if not ok:
                problems.append("%s.%s: run-time value %r differs from the source literal %r" % (cname, attr, rt, val))
        for attr in dir(cls):
            if attr.startswith("_"):
                continue
            rt = getattr(cls, attr)
            looks = (isinstance(rt, str) and "%(" in rt) or (
                isinstance(rt, tuple) and len(rt) == 3 and all(isinstance(x, str) for x in rt))
            if looks and attr not in declared:
                problems.append("%s.%s looks like a message but is not declared with N_/P_" % (cname, attr))
        # note_error call sites along the MRO
        calls = []
        for c in mro:
            calls += classes[c]["calls"]
        # data attributes of the validator: class attributes that are neither methods nor message templates, plus
        # what __init__ assigns
        vattrs = sorted({a for a in dir(cls) if not a.startswith("_") and not callable(getattr(cls, a))
                         and a not in declared} |
                        {a for c in mro for a in classes[c]["init_attrs"]})
        for attr in sorted(declared):
            val = declared[attr]
            # keywords that EVERY call site able to emit this message passes (a dynamic key can emit any message)
            supplied = None
            used = False
            for key, kws, star in calls:
                if key == attr or key is None:
                    supplied = set(kws) if supplied is None else (supplied & set(kws))
                    used = True
            supplied = supplied or set()
            if not used and cname != "Validator":
                problems.append("%s.%s: no note_error call site emits this message" % (cname, attr))
            if isinstance(val, tuple):
                single, plural, nkey = val
            else:
                single, plural, nkey = val, None, None
            msgs.append({"cls": cname, "attr": attr, "single": single, "plural": plural, "nkey": nkey,
                         "supplied": sorted(supplied), "vattrs": vattrs})
    return msgs, problems


def element_attrs():
    """data attributes every element has (methods are not substitutable values)"""
    import flatland
    return sorted(a for a in dir(flatland.Element) if not a.startswith("_") and not callable(getattr(flatland.Element, a)))


# ------------------------------------------------------------------ Lean emission


def lean_char(ch):
    o = ord(ch)
    if ch == "'":
        return "'\\''"
    if ch == "\\":
        return "'\\\\'"
    if ch == "\n":
        return "'\\n'"
    if ch == "\t":
        return "'\\t'"
    if ch == "\r":
        return "'\\r'"
    if o < 32 or o == 127:
        return "'\\x%02x'" % o
    return "'%s'" % ch


def lean_str(s):
    """A `List Char` literal (kernel evaluation of `"…".toList` is ~10 ms per character)."""
    return "[" + ",".join(lean_char(c) for c in s) + "]"


def lean_opt(s):
    return "none" if s is None else "(some %s)" % lean_str(s)


def lean_list(items, indent="    "):
    if not items:
        return "[]"
    return "[\n" + ",\n".join(indent + i for i in items) + "]"


def emit(msgs, cats, eattrs):
    L = []
    L.append("-- GENERATED by harness/extractors/c16.py from /repo's current source; do not edit.")
    L.append("import Flatland.C16.Tables")
    L.append("namespace Flatland.Generated.C16")
    L.append("open Flatland.C16")
    L.append("")
    L.append("def elementAttrs : List Str := [%s]" % ", ".join(lean_str(a) for a in eattrs))
    L.append("")
    items = []
    for m in msgs:
        items.append("{ cls := %s, attr := %s, single := %s,\n      plural := %s, nkey := %s,\n      supplied := [%s],\n      vattrs := [%s] }" % (
            '"%s"' % m["cls"], '"%s"' % m["attr"], lean_str(m["single"]), lean_opt(m["plural"]), lean_opt(m["nkey"]),
            ", ".join(lean_str(k) for k in m["supplied"]), ", ".join(lean_str(k) for k in m["vattrs"])))
    L.append("def builtinMessages : List BuiltinMsg := " + lean_list(items))
    L.append("")

    def entries(ents):
        its = []
        for e in ents:
            if e["msgid"] == "":
                continue
            its.append("{ msgid := %s,\n      msgidPlural := %s,\n      msgstr := [%s] }" % (
                lean_str(e["msgid"]), lean_opt(e["msgid_plural"]), ", ".join(lean_str(s) for s in e["msgstr"])))
        return lean_list(its)

    names = []
    for lang in LANGS:
        ents = cats[lang]
        header = next((e["msgstr"][0] for e in ents if e["msgid"] == "" and e["msgstr"]), "")
        pf = po_header_field(header, "Plural-Forms") or ""
        m = re.match(r"nplurals\s*=\s*(\d+)\s*;\s*plural\s*=\s*(.*?);?\s*$", pf)
        npl = int(m.group(1)) if m else 0
        rule = (m.group(2) if m else "").replace(" ", "")
        gt1 = rule in ("(n>1)", "n>1")
        L.append("def %s : Catalogue :=\n  { lang := \"%s\", nplurals := %d, pluralGt1 := %s,\n    header := %s,\n    entries := %s }" % (
            lang, lang, npl, "true" if gt1 else "false", lean_str(header), entries(ents)))
        L.append("")
        names.append(lang)
    L.append("def catalogues : List Catalogue := [%s]" % ", ".join(names))
    L.append("")
    L.append("end Flatland.Generated.C16")
    return "\n".join(L) + "\n"


def extract_all():
    problems = []
    msgs, ps = collect_messages()
    problems += ps
    cats, ps = load_catalogue_files()
    problems += ps
    for lang in LANGS:
        ents = cats[lang]
        header = next((e["msgstr"][0] for e in ents if e["msgid"] == "" and e["msgstr"]), "")
        pf = (po_header_field(header, "Plural-Forms") or "").replace(" ", "")
        if pf.rstrip(";") not in ("nplurals=2;plural=(n!=1)", "nplurals=2;plural=(n>1)", "nplurals=2;plural=n!=1", "nplurals=2;plural=n>1"):
            problems.append("%s: Plural-Forms %r is outside the modelled rules ((n != 1), (n > 1))" % (lang, pf))
        for e in ents:
            if e["fuzzy"] and e["msgid"] != "":
                problems.append("%s: fuzzy entry %r is not compiled into the .mo" % (lang, e["msgid"][:40]))
            if e["ctx"] is not None:
                problems.append("%s: msgctxt entries are not modelled" % lang)
        problems += check_mo_equals_po(lang, ents)
    # the template file lists exactly the built-in messages, and every catalogue exactly the template's ids
    want = {(m["single"], m["plural"]) for m in msgs}
    have = {(e["msgid"], e["msgid_plural"]) for e in cats["pot"] if e["msgid"] != ""}
    for k in sorted(want - have, key=str):
        problems.append("flatland.pot lacks the built-in message %r" % (k[0][:50],))
    for k in sorted(have - want, key=str):
        problems.append("flatland.pot lists %r which no validator declares" % (k[0][:50],))
    for lang in LANGS:
        got = {(e["msgid"], e["msgid_plural"]) for e in cats[lang] if e["msgid"] != ""}
        for k in sorted(got - have, key=str):
            problems.append("%s: entry %r is not in flatland.pot" % (lang, k[0][:50]))
    return msgs, cats, problems


DICT_METHODS = ["clear", "copy", "fromkeys", "get", "items", "keys", "pop", "popitem", "setdefault", "update", "values"]
LIST_METHODS = ["append", "clear", "copy", "count", "extend", "index", "insert", "pop", "remove", "reverse", "sort"]


@extract.register("C16")
def extract_c16():
    msgs, cats, problems = extract_all()
    # public attributes of dict / list, which the model gives the keyword dict and dict / list states
    for typ, want in ((dict, DICT_METHODS), (list, LIST_METHODS)):
        got = sorted(a for a in dir(typ) if not a.startswith("_"))
        if got != want:
            problems.append("pin public attributes of %s: interpreter has %r, the model was written for %r" % (typ.__name__, got, want))
    extract.write_if_changed("C16Catalogues.lean", emit(msgs, cats, element_attrs()))
    return problems
