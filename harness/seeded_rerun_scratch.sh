#!/bin/bash
# usage: harness/seeded_rerun_scratch.sh [seeded-dir-name ...]   (default: all)
# Re-runs the registered check of each stored mutation against a SCRATCH worktree of /repo with the patch applied
# (FLATLAND_REPO=<worktree>; /repo itself is never touched; evidence of these runs goes under .work/).
# Records the outcome in seeded/<name>/meta.json ("recheck_final") and prints one line per mutation.
set -u
cd /verif
NAMES=("$@"); [ ${#NAMES[@]} -eq 0 ] && NAMES=($(ls seeded))
mkdir -p /tmp/sr
for NAME in "${NAMES[@]}"; do
  D="seeded/$NAME"; [ -f "$D/patch.diff" ] || continue
  PID=$(/venv/bin/python -c "import json;print(json.load(open('$D/meta.json'))['property'])")
  WT="/tmp/sr/$NAME"
  git -C /repo worktree remove --force "$WT" >/dev/null 2>&1
  git -C /repo worktree add -q --detach "$WT" HEAD || { echo "$NAME: worktree failed"; continue; }
  cp /repo/src/flatland/_version.py "$WT/src/flatland/_version.py"
  if ! git -C "$WT" apply "/verif/$D/patch.diff" 2>/dev/null && ! git -C "$WT" apply -3 "/verif/$D/patch.diff" 2>/dev/null; then
    echo "$NAME: PATCH-DOES-NOT-APPLY"; RC=-1; V="patch does not apply to the repaired tree"
  else
    PYTHONPATH="$WT/src" timeout 120 /venv/bin/python "$D/demo.py" >/dev/null 2>&1; DEMO=$?
    O=$(FLATLAND_REPO="$WT" PYTHONPATH="$WT/src" ./check "$PID" 2>&1); RC=$?
    V=$(echo "$O" | grep -a "^VIOLATION" | head -1)
    echo "$NAME: rc=$RC demo_rc=$DEMO $V"
  fi
  git -C /repo worktree remove --force "$WT" >/dev/null 2>&1
  /venv/bin/python - "$D/meta.json" "$PID" "$RC" "$V" <<'PY'
import json,sys
f,pid,rc,v=sys.argv[1:5]
m=json.load(open(f)); m["recheck_final"]={"check":pid,"rc":int(rc),"line":v,"concrete_replay": (int(rc)==1 and "no-failing-input-found" not in v), "how":"scratch worktree of /repo HEAD with the patch applied, FLATLAND_REPO=<worktree> ./check <id>"}
json.dump(m,open(f,"w"),indent=1)
PY
done
git -C /repo worktree prune
