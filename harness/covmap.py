"""Which lines of /repo/src/flatland do the checks' runners and oracles execute?  (coverage map of the harness)
usage: /venv/bin/python -m harness.covmap [n_per_property]   -> .work/covmap.json + summary on stdout"""
import json, os, random, sys, time
import coverage

def main():
    n = int(sys.argv[1]) if len(sys.argv) > 1 else 300
    cov = coverage.Coverage(source=["/repo/src/flatland"], data_file=None, branch=False)
    cov.start()
    from harness import core
    per = {}
    for i in range(1, 21):
        pid = "C%02d" % i
        prop = core.load_property(pid)
        rng = random.Random(0)
        cases = list(prop.corpus()) + list(prop.generate(rng, n, "quick"))
        t0 = time.time(); bad = 0
        for c in cases:
            try:
                prop.run_impl(c); prop.oracle(c)
            except BaseException as e:
                bad += 1
        per[pid] = (len(cases), bad, round(time.time() - t0, 1))
        print(pid, per[pid], file=sys.stderr)
    cov.stop()
    out = {}
    for f in sorted(cov.get_data().measured_files()):
        _, stmts, _, missing, _ = cov.analysis2(f)
        out[f.replace("/repo/src/", "")] = {"statements": len(stmts), "missing": missing}
    tot = sum(v["statements"] for v in out.values()); miss = sum(len(v["missing"]) for v in out.values())
    os.makedirs("/verif/.work", exist_ok=True)
    json.dump(out, open("/verif/.work/covmap.json", "w"), indent=1)
    for f, v in out.items():
        if v["statements"]:
            print("%-45s %4d stmts %4d missed  %s" % (f, v["statements"], len(v["missing"]), _ranges(v["missing"])[:160]))
    print("TOTAL %d statements, %d missed (%.1f%% executed)" % (tot, miss, 100.0 * (tot - miss) / tot))

def _ranges(ls):
    out = []; s = p = None
    for x in ls:
        if s is None: s = p = x
        elif x == p + 1: p = x
        else: out.append((s, p)); s = p = x
    if s is not None: out.append((s, p))
    return ",".join("%d" % a if a == b else "%d-%d" % (a, b) for a, b in out)

main()
