#!/bin/bash
# usage: harness/seed_confirm.sh <propid> <mutdir> [seedname] [extra check ids...]
# Confirms a mutation produced by a fresh sub-agent (patch.diff + demo.py in <mutdir>/out, worktree in <mutdir>/repo),
# runs the registered check against it in /repo (apply, check, undo), stores it under /verif/seeded/<name>/.
set -u
PID="$1"; MD="$2"; NAME="${3:-$PID}"; shift 3 2>/dev/null
WT="$MD/repo"; OUT="$MD/out"
[ -f "$WT/src/flatland/_version.py" ] || cp /repo/src/flatland/_version.py "$WT/src/flatland/_version.py"
cd "$WT" || exit 2
git checkout -q -- . ; git apply "$OUT/patch.diff" || { echo "patch does not apply"; exit 2; }
T_WITH=$(PYTHONPATH="$WT/src" /venv/bin/python -m pytest -q -p no:cacheprovider --timeout=900 2>&1 | tail -1)
PYTHONPATH="$WT/src" timeout 120 /venv/bin/python "$OUT/demo.py" >/dev/null 2>&1; D_WITH=$?
git checkout -q -- .
PYTHONPATH="$WT/src" timeout 120 /venv/bin/python "$OUT/demo.py" >/dev/null 2>&1; D_WITHOUT=$?
echo "tests with patch: $T_WITH | demo with patch rc=$D_WITH | demo without rc=$D_WITHOUT"
cd /verif
if [ "${SCRATCH:-0}" = "1" ]; then
  # run the checks against the sub-agent's own worktree (patch applied there) instead of patching /repo;
  # harness/seeded_rerun.sh later repeats the run the official way (apply to /repo, check, undo)
  (cd "$WT" && git apply "$OUT/patch.diff")
  export FLATLAND_REPO="$WT" PYTHONPATH="$WT/src"
else
  git -C /repo apply "$OUT/patch.diff" || { echo "patch does not apply to /repo"; exit 2; }
fi
RES=""
for c in "$PID" "$@"; do
  O=$(./check "$c" 2>&1); RC=$?
  V=$(echo "$O" | grep -a "^VIOLATION" | head -2 | tr '\n' ';')
  RES="$RES$c: rc=$RC $V| "
  echo "$O" | grep -a "^VIOLATION\|^\[$c\] \(ok\|VIOL\)"
done
if [ "${SCRATCH:-0}" = "1" ]; then unset FLATLAND_REPO PYTHONPATH; else git -C /repo checkout -q -- .; fi
mkdir -p "seeded/$NAME"
cp "$OUT/patch.diff" "seeded/$NAME/patch.diff"; cp "$OUT/demo.py" "seeded/$NAME/demo.py"; [ -f "$OUT/notes.md" ] && cp "$OUT/notes.md" "seeded/$NAME/notes.md"
/venv/bin/python - "$PID" "$NAME" "$T_WITH" "$D_WITH" "$D_WITHOUT" "$RES" <<'PY'
import json,sys
pid,name,t,dw,dwo,res=sys.argv[1:7]
json.dump({"property":pid,"source":"fresh sub-agent given only the property text and a scratch worktree",
 "tests_with_patch":t,"demo_rc_with_patch":int(dw),"demo_rc_without_patch":int(dwo),
 "confirmed": ("passed" in t and "failed" not in t and int(dw)!=0 and int(dwo)==0),
 "checks_run_against_it":res,
 "ran":"git -C /repo apply patch.diff; ./check <id>; git -C /repo checkout -- .",
 "needs":"see notes.md"}, open(f"seeded/{name}/meta.json","w"), indent=1)
PY
cat "seeded/$NAME/meta.json"
