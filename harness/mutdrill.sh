#!/bin/bash
# usage: harness/mutdrill.sh <sed-expr> <file-relative-to-repo> <check ids...>
# Copies /repo to a scratch dir outside /repo and /verif, applies the edit, runs tests + checks, removes the copy.
set -u
EXPR="$1"; FILE="$2"; shift 2
D=$(mktemp -d /tmp/mutdrill.XXXXXX)
cp -r /repo/src /repo/tests /repo/pyproject.toml "$D"/ 2>/dev/null
sed -i "$EXPR" "$D/$FILE"
if diff -q "$D/$FILE" "/repo/$FILE" >/dev/null; then echo "EDIT DID NOT APPLY"; rm -rf "$D"; exit 3; fi
diff "/repo/$FILE" "$D/$FILE"
(cd "$D" && PYTHONPATH="$D/src" /venv/bin/python -m pytest -q -p no:cacheprovider -x 2>&1 | tail -1)
for c in "$@"; do
  (cd /verif && FLATLAND_REPO="$D" PYTHONPATH="$D/src" ./check "$c" 2>&1 | grep -a "VIOLATION\|KNOWN\|^\[$c\] \(ok\|VIOL\)"; echo "rc=$?")
done
rm -rf "$D"
