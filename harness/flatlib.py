"""Shared Python side of the flat-core checks (C01, C02, C03, C07): schema generator, real class
construction, state extraction, environment tables for the Lean model, reference functions."""
import datetime
import decimal
import json
import sys
import unicodedata

# ----------------------------------------------------------------------------------------
# scalar kinds

LEAF_KINDS = [
    {"type": "String", "strip": True},
    {"type": "String", "strip": False},
    {"type": "Integer", "signed": True},
    {"type": "Integer", "signed": False},
    {"type": "Boolean"},
    {"type": "Enum", "values": ["a", "b", ""]},
    {"type": "Date"},
    {"type": "Time"},
    {"type": "DateTime"},
    {"type": "Long", "signed": True},
    {"type": "EnumInt", "values": [1, 2, 3]},
    {"type": "Float", "signed": True},
    {"type": "Decimal", "signed": True},
    {"type": "Boolean", "true": "yes", "false": "no"},      # custom tokens: serialize() writes them, adapt() must read them back
]
COMMON_KINDS = LEAF_KINDS[:9] + [LEAF_KINDS[13]]
EXACT_TYPES = {"String", "Integer", "Boolean", "Enum", "Date", "Time", "Long", "EnumInt"}


def kind_class(kind):
    import flatland
    t = kind["type"]
    if t == "String":
        return flatland.String.using(strip=kind["strip"])
    if t == "Integer":
        return flatland.Integer.using(signed=kind["signed"])
    if t == "Long":
        return flatland.Long.using(signed=kind["signed"])
    if t == "Float":
        return flatland.Float.using(signed=kind["signed"])
    if t == "Decimal":
        return flatland.Decimal.using(signed=kind["signed"])
    if t == "Boolean":
        if "true" in kind:
            return flatland.Boolean.using(true=kind["true"], false=kind["false"])
        return flatland.Boolean
    if t == "Enum":
        return flatland.Enum.valued(*kind["values"])
    if t == "EnumInt":
        return flatland.Enum.using(child_type=flatland.Integer).valued(*kind["values"])
    if t == "Date":
        return flatland.Date
    if t == "Time":
        return flatland.Time
    if t == "DateTime":
        return flatland.DateTime
    if t == "Joined":
        member = kind_class(kind["member"])
        return flatland.JoinedString.using(separator=kind["sep"], prune_empty=kind["prune"], member_schema=member)
    if t == "DateYMD":
        return flatland.DateYYYYMMDD
    raise ValueError(t)


def nd_zeros():
    zs = []
    for cp in range(sys.maxunicode + 1):
        ch = chr(cp)
        if unicodedata.category(ch) == "Nd" and unicodedata.digit(ch) == 0:
            zs.append(cp)
    return zs


_ND = None


def nd_table():
    global _ND
    if _ND is None:
        _ND = nd_zeros()
    return _ND


# ----------------------------------------------------------------------------------------
# schemas (JSON form shared with the Lean runner)

def _derive_from_used(s):
    """Deterministic per schema node: build this node's class by DERIVING it from a parent class that has
    already been used (instantiated, set, set_flat) under another name / field list — what applications
    do all the time, and the only way state memoised on a class can leak into a derived class."""
    import hashlib
    h = hashlib.sha1(json.dumps(s, sort_keys=True, default=str).encode()).digest()[0]
    return h % 3 == 0


def _use(cls, value=None, pairs=None):
    """Exercise a (parent) class a little; whatever it does with the input is irrelevant here."""
    try:
        el = cls()
        if value is not None:
            el.set(value)
        if pairs is not None:
            cls().set_flat(pairs)
        el.flatten()
    except Exception:
        pass


def build_class(s, kinds):
    """Real flatland class for a schema JSON."""
    import flatland
    t = s["t"]
    used = _derive_from_used(s)
    if t == "leaf":
        cls = kind_class(kinds[s["k"]])
        if used:
            cls = cls.named("zzparent")
            _use(cls, "x")
    elif t == "joined":
        cls = kind_class(kinds[s["k"]])
        if used:
            cls = cls.named("zzparent")
            _use(cls, "x,y")
    elif t == "compound":
        cls = flatland.DateYYYYMMDD
    elif t == "dict":
        base = {"dense": flatland.Dict, "sparse": flatland.SparseDict,
                "sparseReq": flatland.SparseDict.using(minimum_fields="required")}[s["mode"]]
        fields = [build_class(f, kinds) for f in s["fields"]]
        if used:
            # a parent mapping with another field list, used before the real one is derived from it
            base = base.of(flatland.String.named("zzf"), *fields[:1]).named("zzparent")
            _use(base, {"zzf": "x"}, [("zzparent_zzf", "y")])
        cls = base.of(*fields)
        if "policy" in s:
            cls = cls.using(policy={"strict": "strict", "subset": "subset", "duck": "duck", "off": None}[s["policy"]])
    elif t == "list":
        if s.get("max_default") or s["max"] is None:
            # no explicit ceiling: the CLASS DEFAULT of maximum_set_flat_members applies in the real code.  The
            # schema still says "max": DOC_LIST_CEILING for every model / oracle that reads it (`resolve_ceilings`
            # fills it in for the `"max": null` spelling) — the documented default, pinned against the source by
            # Proofs.ClassTable.list_ceiling_default.
            cls = flatland.List.of(build_class(s["member"], kinds)).using(prune_empty=s["prune"])
        else:
            cls = flatland.List.of(build_class(s["member"], kinds)).using(
                prune_empty=s["prune"], maximum_set_flat_members=s["max"])
        if used:
            cls = cls.named("zzparent")
            _use(cls, None, [("zzparent_0", "x"), ("zzparent_1_zz", "y")])
    elif t == "array":
        base = flatland.MultiValue if s.get("multi") else flatland.Array
        cls = base.of(build_class(s["member"], kinds)).using(prune_empty=s["prune"])
        if used:
            cls = cls.named("zzparent")
            _use(cls, ["x"], [("zzparent", "y")])
    else:
        raise ValueError(t)
    cls = cls.named(s["name"])
    if s.get("opt"):
        cls = cls.using(optional=True)
    return cls


def extract(el, s):
    """State of a real element as the model's Elem JSON."""
    t = s["t"]
    if t == "leaf":
        return {"leaf": el.u}
    if t == "joined":
        return {"joined": [el.u, [{"leaf": m.u} for m in list.__iter__(el)]]}
    if t in ("dict", "compound"):
        fields = {f["name"]: f for f in s["fields"]}
        return {"dict": [[k, extract(v, fields[k])] for k, v in dict.items(el) if k in fields]}
    if t == "list":
        return {"list": [extract(m, s["member"]) for m in el]}
    if t == "array":
        return {"array": [extract(m, s["member"]) for m in list.__iter__(el)]}
    raise ValueError(t)


def walk_schema(s):
    yield s
    if s["t"] in ("dict", "compound"):
        for f in s["fields"]:
            yield from walk_schema(f)
    elif s["t"] in ("list", "array", "joined"):
        yield from walk_schema(s["member"])


def walk_elements(el, s):
    """(element, schema) for every element of the tree (no slots)."""
    yield el, s
    t = s["t"]
    if t in ("dict", "compound"):
        fields = {f["name"]: f for f in s["fields"]}
        for k, v in dict.items(el):
            if k in fields:
                yield from walk_elements(v, fields[k])
    elif t == "list":
        for m in el:
            yield from walk_elements(m, s["member"])
    elif t in ("array", "joined"):
        for m in list.__iter__(el):
            yield from walk_elements(m, s["member"])


def schema_names(s):
    return [x["name"] for x in walk_schema(s) if x["name"] is not None]


def sep_safe(sep, names, nd_rule=True):
    """No separator inside a name, and in x+sep+y (x, y names or indexes) the separator occurs
    exactly once, at offset len(x)."""
    if sep == "":
        return False
    if nd_rule and any(unicodedata.category(c) == "Nd" for c in sep):
        # outside the Lean model of the index recogniser (not an overlap in itself)
        return False
    toks = list(dict.fromkeys(list(names) + ["0", "19"]))
    for n in toks:
        if n == "" or sep in n:
            return False
    for x in toks:
        for y in toks:
            s = x + sep + y
            occ = [i for i in range(len(s)) if s.startswith(sep, i)]
            if occ != [len(x)]:
                return False
    return True


# ----------------------------------------------------------------------------------------
# environment tables for the Lean model (scalars / compounds run in isolation on real code)

def norm_text(kind, text):
    cls = kind_class(kind)
    el = cls()
    try:
        el.set(text)
    except Exception as e:  # scalar set() must not raise: C04's subject; visible here too
        return "!raise:" + type(e).__name__, None
    if kind["type"] == "Joined":
        return el.u, [m.u for m in list.__iter__(el)]
    return el.u, None


def compose_text(pairs):
    """u of a DateYYYYMMDD whose members show the given texts."""
    import flatland
    el = flatland.DateYYYYMMDD()
    for name, u in pairs:
        el[name].set(u)
    return el.u


def make_env(kinds, texts, compounds):
    """texts: iterable of strings that may be set on leaves; compounds: iterable of tuples of
    (field, u) member texts observed on real compound elements."""
    norm, jm = [], []
    texts = list(dict.fromkeys(texts))
    for k, kind in enumerate(kinds):
        if kind["type"] == "DateYMD":
            continue
        for t in texts:
            u, members = norm_text(kind, t)
            norm.append([k, t, u])
            if members is not None:
                jm.append([k, t, members])
    comp = []
    ck = [k for k, kind in enumerate(kinds) if kind["type"] == "DateYMD"]
    for pairs in dict.fromkeys(tuple(map(tuple, c)) for c in compounds):
        for k in ck:
            comp.append([k, [list(p) for p in pairs], compose_text(pairs)])
    return {"norm": norm, "compose": comp, "jm": jm, "nd": nd_table(),
            "maxdigits": sys.get_int_max_str_digits()}


def observed_compounds(el, s):
    out = []
    for e, sc in walk_elements(el, s):
        if sc["t"] == "compound":
            out.append(tuple((f["name"], e[f["name"]].u) for f in sc["fields"] if f["name"] in e))
    return out


# ----------------------------------------------------------------------------------------
# native values as tagged JSON

def decode_native(j):
    if isinstance(j, list):
        return [decode_native(x) for x in j]
    if not isinstance(j, dict):
        return j
    if "none" in j:
        return None
    if "s" in j:
        return j["s"]
    if "i" in j:
        return int(j["i"])
    if "b" in j:
        return bool(j["b"])
    if "date" in j:
        return datetime.date(*j["date"])
    if "time" in j:
        return datetime.time(*j["time"])
    if "dt" in j:
        return datetime.datetime(*j["dt"])
    if "f" in j:
        return float(j["f"])
    if "dec" in j:
        return decimal.Decimal(j["dec"])
    if "d" in j:
        return {k: decode_native(v) for k, v in j["d"]}
    if "pairs" in j:
        return [(k, decode_native(v)) for k, v in j["pairs"]]
    raise ValueError(j)


# ----------------------------------------------------------------------------------------
# generators

NAME_POOL = ["a", "b", "c", "ab", "abc", "a1", "name", "x", "y", "0", "12", "é", "名前", "a.b", "a+", "(x)", "k|v",
             "$", "^", "a b", "A", "zz", "year", "s", "m", "d", "l", "n-1", "q?", "*", "[z]", "a\\", "ß", "٣"]
SEP_POOL = ["_", "_", "_", "_", ".", "|", "-", "/", ":", "__", "::", " ", "$", "(", "*", "+", "\x00", "\\", "->", "é", "_-",
            "1_", "7:"]      # separators that START with a decimal digit: the index regex must backtrack (oracle only, see digit_sep)


def digit_sep(sep):
    """Separators beginning with a decimal digit are outside the Lean model of the List index recogniser
    (the model reads the maximal digit run; the regex backtracks) — such cases run through the real code
    and the oracle only."""
    return bool(sep) and unicodedata.category(sep[0]) == "Nd"
TEXTS = ["", "x", " x ", "abc", "5", "-3", " 7 ", "007", "1_0", "true", "on", "0", "off", "a", "b", "2020-01-02", "01:02:03",
         "2020-01-02 03:04:05", "2020-13-45", "1.5", "1e3", "nan", "zzz", "a,b", "a,,b", " , ", "٣", "１２", "\n", " ", "é",
         "x" * 40, "0x10", "+4", "--1", "9" * 30, "2", "1"]


def rand_name(rng, sep, used):
    for _ in range(50):
        n = rng.choice(NAME_POOL)
        if rng.random() < 0.15:
            n = n + rng.choice(NAME_POOL)
        if n in used or sep in n:
            continue
        return n
    i = 0
    while "f%d" % i in used:
        i += 1
    return "f%d" % i


# the documented default of List.maximum_set_flat_members (docs/source/schema/containers; the class attribute is pinned
# to this value by Proofs.ClassTable.list_ceiling_default / assumedListCeiling)
DOC_LIST_CEILING = 1024


def _default_ceiling(s):
    """a List schema generated with "max": "default" carries NO explicit ceiling: `build_class` leaves
    maximum_set_flat_members at the class default; "max" keeps the documented number so that every reader of the
    schema (models, oracles, the Lean parsers) sees the ceiling that is supposed to apply"""
    if s["max"] == "default":
        s["max"] = DOC_LIST_CEILING
        s["max_default"] = True
    return s


def resolve_ceilings(s):
    """copy of the schema with the `"max": null` spelling of "no explicit ceiling" turned into the marked form"""
    import copy
    s = copy.deepcopy(s)
    for x in walk_schema(s):
        if x.get("t") == "list" and x.get("max") is None:
            x["max"] = DOC_LIST_CEILING
            x["max_default"] = True
    return s


def gen_schema(rng, sep, depth, kinds, root=True, named=None, allow_unsafe=False):
    """Random schema JSON; appends needed kinds to `kinds` (list of kind configs)."""
    def kind_index(kind):
        if kind not in kinds:
            kinds.append(kind)
        return kinds.index(kind)

    def leaf(name):
        return {"t": "leaf", "name": name, "opt": rng.random() < 0.3,
                "k": kind_index(rng.choice(COMMON_KINDS if rng.random() < 0.9 else LEAF_KINDS))}

    def node(d, name, can_be_anon):
        r = rng.random()
        if d <= 0 or r < 0.30:
            return leaf(name)
        if r < 0.55:
            used = set()
            fields = []
            for _ in range(rng.randint(1, 4)):
                fn = rand_name(rng, sep, used)
                # prefix-of-sibling names on purpose
                if fields and rng.random() < 0.2:
                    cand = fields[0]["name"] + rng.choice(["", "x", "1", "b"])
                    if cand and cand not in used and sep not in cand:
                        fn = cand
                used.add(fn)
                fields.append(node(d - 1, fn, False))
            mode = rng.choice(["dense", "dense", "dense", "sparse", "sparseReq"])
            return {"t": "dict", "name": name, "opt": rng.random() < 0.2, "mode": mode, "fields": fields}
        if r < 0.75:
            mname = None if rng.random() < 0.5 else rand_name(rng, sep, set())
            return _default_ceiling({"t": "list", "name": name, "opt": rng.random() < 0.2, "prune": rng.random() < 0.5,
                    "max": rng.choice([1024, "default", 3, 2, 1, 0, 5]), "member": node(d - 1, mname, True)})
        if r < 0.87:
            mname = None if rng.random() < 0.5 else rand_name(rng, sep, set())
            return {"t": "array", "name": name, "opt": rng.random() < 0.2, "prune": rng.random() < 0.6,
                    "multi": rng.random() < 0.4, "member": leaf(mname)}
        if r < 0.94:
            jk = {"type": "Joined", "sep": rng.choice([",", ",", ";", ", ", "|"]), "prune": rng.random() < 0.6,
                  "member": rng.choice([LEAF_KINDS[0], LEAF_KINDS[0], LEAF_KINDS[1], LEAF_KINDS[2]])}
            return {"t": "joined", "name": name, "opt": False, "k": kind_index(jk),
                    "member": {"t": "leaf", "name": None, "opt": False, "k": kind_index(jk["member"])}}
        ik = kind_index({"type": "DateYMD"})
        return {"t": "compound", "name": name, "opt": False, "k": ik, "fields": [
            {"t": "leaf", "name": n, "opt": False, "k": kind_index({"type": "DateMember", "name": n})}
            for n in ("year", "month", "day")]}

    name = named if named is not None else (rand_name(rng, sep, set()) if rng.random() < 0.6 else None)
    s = node(depth, name, True)
    if root and s["t"] in ("leaf", "joined") and s["name"] is None:
        s["name"] = rand_name(rng, sep, set())
    return s


def _date_member_class(kind):
    import flatland
    fmt = {"year": "%04i", "month": "%02i", "day": "%02i"}[kind["name"]]
    return flatland.Integer.using(format=fmt)


_orig_kind_class = kind_class


def kind_class(kind):  # noqa: F811  (extends the table above with DateYYYYMMDD's generated members)
    if kind["type"] == "DateMember":
        return _date_member_class(kind)
    return _orig_kind_class(kind)


def gen_value(rng, s, kinds, hostile=0.15):
    """A tagged-JSON native value for set() on schema s: mostly valid, sometimes hostile."""
    t = s["t"]
    if rng.random() < hostile:
        return rng.choice([{"none": 1}, {"s": ""}, {"s": "  "}, {"s": "zzz"}, {"i": 7}, [], {"d": []}, {"b": True}])
    if t == "leaf":
        return gen_leaf_value(rng, kinds[s["k"]])
    if t == "joined":
        jk = kinds[s["k"]]
        parts = [rng.choice(["a", "b", " c ", "", "1", "22", " ", "x y"]) for _ in range(rng.randint(0, 4))]
        if rng.random() < 0.5:
            return {"s": jk["sep"].join(parts)}
        return [{"s": p} for p in parts]
    if t == "compound":
        r = rng.random()
        if r < 0.5:
            return {"date": [rng.randint(1, 9999), rng.randint(1, 12), rng.randint(1, 28)]}
        if r < 0.7:
            return {"s": "%04d-%02d-%02d" % (rng.randint(1, 9999), rng.randint(1, 13), rng.randint(1, 31))}
        return rng.choice([{"none": 1}, {"s": "garbage"}, {"s": ""}])
    if t == "dict":
        fs = s["fields"]
        if s["mode"] != "dense" or rng.random() < 0.3:
            fs = [f for f in fs if rng.random() < 0.7]
            if s["mode"] != "dense":
                rng.shuffle(fs)
        return {"d": [[f["name"], gen_value(rng, f, kinds, hostile)] for f in fs]}
    if t in ("list", "array"):
        n = rng.choice([0, 1, 1, 2, 2, 3, 4])
        return [gen_value(rng, s["member"], kinds, hostile) for _ in range(n)]
    raise ValueError(t)


def gen_leaf_value(rng, kind):
    t = kind["type"]
    r = rng.random()
    if r < 0.08:
        return {"none": 1}
    if r < 0.2:
        return {"s": rng.choice(TEXTS)}
    if t == "String":
        return {"s": rng.choice(["x", " padded ", "", "é", "a b", "line\n", "\tt", "0", "名前", " "])}
    if t in ("Integer", "Long", "DateMember"):
        return rng.choice([{"i": rng.randint(-50, 3000)}, {"s": str(rng.randint(-5, 99))}, {"s": " 12 "}, {"s": "1_000"},
                           {"s": "٣٤"}, {"s": "-0"}, {"s": "+7"}, {"b": True}])
    if t == "EnumInt":
        return rng.choice([{"i": 1}, {"i": 2}, {"s": "3"}, {"i": 9}, {"s": " 2 "}])
    if t == "Float":
        return rng.choice([{"f": "1.5"}, {"s": "2.25"}, {"s": "1e3"}, {"i": 3}, {"s": "nan"}, {"s": "inf"}, {"s": "-0.0"}])
    if t == "Decimal":
        return rng.choice([{"dec": "1.5"}, {"s": "2.250"}, {"s": "1E+3"}, {"i": 3}, {"s": "NaN"}])
    if t == "Boolean":
        return rng.choice([{"b": True}, {"b": False}, {"s": "on"}, {"s": "off"}, {"s": "1"}, {"s": ""}, {"s": "yes"}, {"i": 0}])
    if t == "Enum":
        return {"s": rng.choice(["a", "b", "", "c", " a "])}
    if t == "Date":
        return rng.choice([{"date": [rng.randint(1, 9999), rng.randint(1, 12), rng.randint(1, 28)]},
                           {"s": "2021-02-03"}, {"s": " 2021-02-03 "}, {"s": "2021-02-30"}, {"s": "21-2-3"}])
    if t == "Time":
        return rng.choice([{"time": [rng.randint(0, 23), rng.randint(0, 59), rng.randint(0, 59)]},
                           {"s": "04:05:06"}, {"s": "24:00:00"}, {"s": "4:5:6"}])
    if t == "DateTime":
        return rng.choice([{"dt": [rng.randint(1, 9999), 5, 6, 7, 8, 9]}, {"s": "2021-02-03 04:05:06"}, {"s": "2021-02-03"}])
    return {"s": "x"}


def leaf_texts(kinds):
    return list(TEXTS)
