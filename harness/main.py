import argparse
import os
import sys

from harness import core


def main():
    ap = argparse.ArgumentParser()
    ap.add_argument("prop", nargs="?")
    ap.add_argument("--tier", default=None)
    ap.add_argument("--replay", default=None)
    ap.add_argument("--setup", action="store_true")
    a = ap.parse_args()
    if a.setup:
        sys.exit(core.setup())
    if not a.prop:
        ap.error("property id required")
    tier = os.environ.get("VERIF_TIER") or a.tier or "quick"
    if tier not in ("quick", "thorough"):
        tier = "quick"
    try:
        seed = int(os.environ.get("VERIF_SEED", "0"))
    except ValueError:
        seed = 0
    if a.replay:
        sys.exit(core.replay(a.prop, a.replay))
    try:
        rc = core.run_check(a.prop, tier, seed)
    except Exception:
        import traceback
        traceback.print_exc()
        rc = 2
    sys.exit(rc)


if __name__ == "__main__":
    main()
