"""Create a scratch worktree of /repo and the prompt for a fresh mutation sub-agent (given only the property text)."""
import json, os, subprocess, sys, shutil
pid = sys.argv[1]
tag = sys.argv[2] if len(sys.argv) > 2 else pid
base = f"/tmp/mut/{tag}"
os.makedirs(base + "/out", exist_ok=True)
subprocess.run(["git", "-C", "/repo", "worktree", "add", "-q", "--detach", base + "/repo", "HEAD"], check=True)
shutil.copy("/repo/src/flatland/_version.py", base + "/repo/src/flatland/_version.py")
props = {json.loads(l)["id"]: json.loads(l) for l in open("/verif/properties.jsonl")}
p = props[pid]
extra = sys.argv[3] if len(sys.argv) > 3 else ""
txt = f"""You are given a git worktree of the pure-Python library discorporate/flatland at {base}/repo (source in src/flatland, tests in tests/).
Work ONLY inside {base}/ (the worktree {base}/repo and the output directory {base}/out). Do not read or touch /repo, /verif or any other directory; do not commit or push (edit files in the worktree freely). The file src/flatland/_version.py in the worktree is an untracked generated stub: leave it, it is not part of your change.
Run the test-suite with:  cd {base}/repo && PYTHONPATH={base}/repo/src /venv/bin/python -m pytest -q -p no:cacheprovider --timeout=900
(457 tests pass on the unchanged tree). Always set PYTHONPATH={base}/repo/src so that your edited copy is the one imported (check with: PYTHONPATH=... /venv/bin/python -c "import flatland; print(flatland.__file__)").

Here is a semantic property the library is supposed to satisfy:

  id: {pid}
  title: {p['title']}
  statement: {p['statement']}
  quantified over: {p['quantifier']['text']}
  code it is anchored in: {', '.join(p['anchors']['files'])}

TASK: produce ONE realistic change to the library source (the kind of slip a maintainer could make in a refactor or "optimisation": a dropped call, a wrong boundary, a reordered step, a too-eager shortcut, two sites that each look fine alone) that BREAKS this property while the package still imports and the ENTIRE existing test-suite still passes. Prefer a change that needs something specific to manifest (a particular multi-step sequence of operations, an unusual but legitimate input, a particular nesting or ordering, a boundary value) rather than one that ordinary use would expose at once. Do not add new features, do not touch tests/, keep the diff small (ideally < 15 changed lines, one or two sites). {extra}

Deliver in {base}/out/ :
  1. patch.diff  — `git -C {base}/repo diff` of your change (source files only)
  2. demo.py     — a small standalone program (plain asserts, run with PYTHONPATH=<repo>/src /venv/bin/python demo.py) that exercises the public API, PASSES (exit 0) on the unchanged library and FAILS (non-zero exit / AssertionError) with your change applied; it must demonstrate a violation of the property as stated, not merely a behaviour difference
  3. notes.md    — what the change is, why the existing tests do not notice, what exactly is needed for the violation to manifest

Verify all three claims yourself before finishing: (a) with the patch applied the full test-suite passes (report the pytest summary line); (b) demo.py fails with the patch; (c) after `git -C {base}/repo stash` (or checkout of the file) demo.py passes — then re-apply the patch so the worktree is left WITH the change applied. Your final message: the summary of (a),(b),(c) and a one-paragraph description of the mutation.
"""
open(base + "/PROMPT.md", "w").write(txt)
print(base + "/PROMPT.md")
