"""Self-test of C13.classify (run by hand: /venv/bin/python -m harness.selftest_c13_classify).

Four in-process mutants of flatland are evaluated on trees that carry the TRIGGER of an open finding
(a Dict named 'y\\' with children, a field named '', an element stored under a foreign key).  A
classifier that only looks at the trigger files them under KF-C13-a/b/c; the prediction-based one must
return None for every failure the mutant adds (and still recognise the genuine ones)."""
import collections
import json
import sys

from harness.props import c13, c13c14_common as cm

P = c13.PROP
leaf = lambda n: {"k": "s", "name": n, "kids": []}


def run(label, case):
    cm._BUILD_CACHE.clear()
    out = collections.Counter()
    for f in P.oracle(case):
        out[P.classify(case, f)] += 1
    print("   %-4s %s" % (label, dict(out)))
    return out


def main():
    from flatland.schema import base
    tA = cm.number({"k": "d", "name": "root", "kids": [{"k": "d", "name": "y\\", "kids": [
        leaf("z"), {"k": "a", "name": "arr", "member": {"k": "s", "name": "m"}, "kids": [leaf("m"), leaf("m")]},
        {"k": "l", "name": "l", "member": {"k": "s", "name": None}, "kids": [leaf(None), leaf(None)]}]}, leaf("q")]})
    tB = cm.number({"k": "d", "name": "root", "kids": [{"k": "d", "name": "", "kids": [
        leaf("z"), {"k": "l", "name": "l", "member": {"k": "s", "name": None}, "kids": [leaf(None), leaf(None)]}]}, leaf("q")]})
    sdn = {"k": "d", "name": "sd", "sparse": [{"k": "s", "name": "z"}],
           "fields": [{"k": "s", "name": "x"}, {"k": "s", "name": "z"}], "kids": [leaf("x")]}
    tk = cm.number({"k": "d", "name": "r", "kids": [sdn]})
    hk = [{"at": [0], "op": "setfield", "key": "x", "nodes": [dict(leaf("y"), id=cm._max_id(tk) + 1, key="x")]}]
    cC = {"tree": cm.simulate(tk, hk), "starts": [0], "init": tk, "history": hk}
    cases = [("tA", {"tree": tA, "starts": [0]}), ("tB", {"tree": tB, "starts": [0]}), ("wC", cC)]

    print("HEAD (no mutation): every failure is in its class")
    base_counts = {l: run(l, c) for l, c in cases}
    ok = all(None not in c for c in base_counts.values())

    orig_seg, orig_find, orig_fq = base._path_segment, base.Element.find, base.Element.fq_name

    def seg_m1(element):  # regression of adc4b12: Array members addressed by name again
        name = element.name
        if name is None:
            raise TypeError("no name")
        if name in (".", ".."):
            return name.replace(".", "\\.")
        e = name.replace("/", "\\/").replace("[", "\\[")
        return e.replace("\\.", "\\\\.").replace("\\]", "\\\\]")

    def find_m2(self, path, single=False, strict=True):  # an unrelated element instead of LookupError
        try:
            return orig_find(self, path, single=single, strict=strict)
        except LookupError:
            return [next(iter(self.root.children))]

    def fq_m3(self):  # spurious '/0' after list members
        s = orig_fq(self)
        return s + "/0" if isinstance(self.parent, base.Slot) else s

    def find_m4(self, path, single=False, strict=True):  # find() always returns []
        return []

    mutants = [("M1 array members by name (adc4b12 regression)", "_path_segment", seg_m1, None),
               ("M2 find returns an unrelated element", None, None, find_m2),
               ("M3 fq_name of list members gets a spurious /0", "fq", fq_m3, None),
               ("M4 find always returns []", None, None, find_m4)]
    for title, what, fn, find_fn in mutants:
        print(title)
        if what == "_path_segment":
            base._path_segment = fn
        elif what == "fq":
            base.Element.fq_name = fn
        if find_fn:
            base.Element.find = find_fn
        try:
            for l, c in cases:
                got = run(l, c)
                added = sum(got.values()) - sum(base_counts[l].values())
                in_class_extra = sum(v for k, v in got.items() if k is not None) - sum(
                    v for k, v in base_counts[l].items() if k is not None)
                if in_class_extra > 0:
                    ok = False
                    print("      MIS-FILED: %d failures more than at HEAD are filed under a finding" % in_class_extra)
                elif None in got:
                    print("      ok: %d failures unclassified (reported as VIOLATION)" % got[None])
        finally:
            base._path_segment, base.Element.find, base.Element.fq_name = orig_seg, orig_find, orig_fq
    print("RESULT:", "ok" if ok else "FAILED")
    return 0 if ok else 1


if __name__ == "__main__":
    sys.exit(main())
