"""C06 — deriving or instantiating a schema never alters the schema it came from.

Two kinds of cases.

kind="chain": {"base": <type name>, "steps": [step…]}
  class 0 is `T.using()` (a fresh direct subclass of the built-in type, so that nothing global is touched).
  step:
    {"t":"named","c":i,"name":str|null}
    {"t":"class_stmt","c":i}                     `class X(classes[i]): pass` — inherits every list attribute, owns none
    {"t":"using","c":i,"kw":[[attr,val]…]}      attr: name|optional|default|validators|properties|field_schema|bogus
    {"t":"validated_by"|"descent_validated_by","c":i,"vs":[label…]}
    {"t":"including_validators"|"including_descent_validators","c":i,"vs":[label…],"pos":int|null}
    {"t":"with_properties","c":i,"pairs":[[k,v]…]}
    {"t":"of","c":i,"members":[j…]}             Sequence.of / Dict.of with classes of the store
    {"t":"valued","c":i,"values":[str…]}         Enum
    {"t":"to","c":i,"path":str}                  Ref
    {"t":"inst","c":i,"kw":[[attr,val]…],"val":bool}   plain (kw=[]) or overriding instantiation; val: with an
                                                 initial value that is valid for the instance's own schema (set() runs)
  observation: {"steps":[{"r":"ok"|<exception>, "new":[class snapshots created], "changed":[[class, snapshot]…],
                          "inst": instance attribute snapshot|null}]}
  class snapshot = {"parent": id|null, attrs…, "ids": identity labels of list-valued attributes}

kind="schema": {"decls":[{"bases":[i…],"fs":[[name,tag]…]|null,"attrs":[[name,tag,declname|null]…]}…]}
  declarative Schema classes; observation: per class the field_schema as [[name, tag]…] in order.
"""
import copy
import itertools

from harness.core import Property

BASES = {
    "String": {"kind": "scalar"}, "Integer": {"kind": "scalar"}, "Boolean": {"kind": "scalar"},
    "Enum": {"kind": "enum"}, "Ref": {"kind": "ref"},
    "Dict": {"kind": "dict"}, "List": {"kind": "seq"}, "Array": {"kind": "seq"},
    "DateYYYYMMDD": {"kind": "compound"},
    "Long": {"kind": "scalar"}, "Float": {"kind": "scalar"}, "Decimal": {"kind": "scalar"},
    "DateTime": {"kind": "scalar"}, "Date": {"kind": "scalar"}, "Time": {"kind": "scalar"},
    "Constrained": {"kind": "scalar"}, "MultiValue": {"kind": "seq"},
}
# attributes every class of a kind shows (read from /repo/src; a changed default is a disagreement)
COMMON = ["name", "optional", "default", "validators"]
BY_KIND = {
    "scalar": [], "enum": ["valid_values"], "ref": ["target_path"],
    "dict": ["descent_validators", "field_schema", "policy"], "seq": ["descent_validators", "member_schema"],
    "compound": ["descent_validators", "field_schema"],
}
LIST_ATTRS = ("validators", "descent_validators", "field_schema")
KEYS = ["a", "b", "c"]
NAMES = ["x", "y", "z", None]


def attrs_of(kind):
    return COMMON + BY_KIND[kind]


# ---------------------------------------------------------------- real implementation

_VALIDATORS = {}


def _validator(label):
    if label not in _VALIDATORS:
        def v(element, state, _label=label):
            return True
        v.label = label
        _VALIDATORS[label] = v
    return _VALIDATORS[label]


class Real:
    def __init__(self, case):
        import flatland
        self.kind = BASES[case["base"]]["kind"]
        self.classes = [getattr(flatland, case["base"]).using()]
        self.kinds = [self.kind]
        self.parents = [None]
        self.ext = []          # compound classes made outside the store (members of containers), watched
        self.declared = [[]]   # per class: the member descriptors the CASE supplied via field_schema=[…] (inherited)
        self.caller_alias = [] # (class id, attr) whose list object is the very list the caller passed

    def ext_snapshot(self, j):
        cls = self.ext[j]
        out = {a: self.cval(a, getattr(cls, a)) for a in attrs_of("compound") + ["properties"]}
        return out

    # -- canonical values
    def label(self, cls):
        for i, c in enumerate(self.classes):
            if c is cls:
                return i
        return "ext:%s" % cls.__name__

    def field_desc(self, f):
        lab = self.label(f)
        if isinstance(lab, int):
            return lab
        return {"name": f.name, "optional": bool(f.optional), "format": getattr(f, "format", None)}

    def cval(self, attr, v):
        if attr in ("validators", "descent_validators"):
            return [getattr(x, "label", "?") for x in v]
        if attr == "field_schema":
            return [self.field_desc(f) for f in v]
        if attr == "member_schema":
            if not v:
                return None
            lab = self.label(v)
            if isinstance(lab, int):
                return lab
            if getattr(v, "field_schema", None) and lab == "ext:Dict":
                return {"anon_dict": [self.field_desc(f) for f in v.field_schema]}
            return lab
        if attr == "valid_values":
            return list(v)
        if attr == "properties":
            return [[k, x] for k, x in v.items()]
        if v is None or type(v) in (int, str, bool):
            return v
        return {"<foreign>": type(v).__name__}

    def snapshot(self, i, ids):
        cls = self.classes[i]
        snap = {"parent": self.parents[i]}
        idl = {}
        for a in attrs_of(self.kinds[i]) + ["properties"]:
            raw = getattr(cls, a)
            snap[a] = self.cval(a, raw)
            if a in LIST_ATTRS and type(raw) is list:
                idl[a] = ids.setdefault(id(raw), len(ids))
        snap["ids"] = idl
        return snap

    def snapshot_all(self):
        ids = {}
        return [self.snapshot(i, ids) for i in range(len(self.classes))]

    def raw_identities(self):
        """(class, attr) -> (id of the attribute object, shallow copy of a list value)"""
        out = {}
        for i, cls in enumerate(self.classes):
            for a in attrs_of(self.kinds[i]):
                raw = getattr(cls, a)
                out[(i, a)] = (id(raw), list(raw) if type(raw) in (list, tuple) else raw)
        return out

    def add(self, cls, parent, kind=None):
        self.classes.append(cls)
        self.parents.append(parent)
        self.kinds.append(kind or self.kinds[parent])
        supplied = getattr(self, "_supplied", None)
        self.declared.append([self.field_desc(f) for f in supplied] if supplied is not None
                             else list(self.declared[parent]))
        self._supplied = None
        for attr, lst in getattr(self, "_passed_descent", []):
            if cls.__dict__.get(attr) is lst:
                self.caller_alias.append((len(self.classes) - 1, attr))
        self._passed_descent = []

    def kwargs(self, kw):
        out = {}
        self.passed = []
        for attr, val in kw:
            if attr in ("validators", "descent_validators"):
                out[attr] = [_validator(x) for x in val]
                if attr == "validators":
                    self.passed.append(out[attr])     # the caller keeps (and later mutates) this list
                else:
                    # `using` / `__init__` store the caller's descent_validators list as given (no copy): the
                    # caller's own list is not "the schema it came from", so C06 does not forbid it; it is
                    # observed (identity only, never mutated) and counted in the evidence
                    self._passed_descent = getattr(self, "_passed_descent", []) + [(attr, out[attr])]
            elif attr == "properties":
                out[attr] = dict((k, v) for k, v in val)
            elif attr == "field_schema":
                # user-supplied members: Integer classes named arbitrarily, some optional
                import flatland
                members = []
                for m in val:
                    if isinstance(m, dict):
                        # a member given by its descriptor (a ref resolved in the full history, see _final_behaviour)
                        members.append(flatland.Integer.named(m["name"]).using(optional=m["optional"],
                                                                              format=m["format"]))
                    elif len(m) == 2:
                        members.append(flatland.Integer.named(m[0]).using(optional=m[1]))
                    else:
                        # ["ref", i, j, optional|None]: the j-th member of class i's current field_schema,
                        # taken over as it is or derived with .using(optional=…); skipped if there is none
                        _, i, j, o = m
                        fs = list(self.classes[i].field_schema) if i < len(self.classes) else []
                        if j < len(fs):
                            members.append(fs[j] if o is None else fs[j].using(optional=o))
                out[attr] = members
                self._supplied = members
                self.last_members = [self.field_desc(f) for f in members]
            else:
                out[attr] = val
        return out

    def do(self, step):
        """returns (result tag, instance or None)"""
        self.passed = []
        self._supplied = None
        self._passed_descent = []
        try:
            return self._do(step)
        except (TypeError, AttributeError, AssertionError, ValueError, KeyError) as e:
            return type(e).__name__, None
        finally:
            # the caller goes on using the list it passed as validators=…: the schema must hold a copy
            for lst in self.passed:
                lst.append(_validator(99))

    def _do(self, step):
        t = step["t"]
        c = step["c"]
        if c >= len(self.classes) or any(j >= len(self.classes) for j in step.get("members", [])):
            return "BadCase", None
        cls = self.classes[c]
        if t == "named":
            self.add(cls.named(step["name"]), c)
        elif t == "using":
            self.add(cls.using(**self.kwargs(step["kw"])), c)
        elif t == "class_stmt":
            self.add(type("Stmt%d" % len(self.classes), (cls,), {}), c)
        elif t in ("validated_by", "descent_validated_by"):
            self.add(getattr(cls, t)(*[_validator(x) for x in step["vs"]]), c)
        elif t in ("including_validators", "including_descent_validators"):
            kw = {} if step["pos"] is None else {"position": step["pos"]}
            self.add(getattr(cls, t)(*[_validator(x) for x in step["vs"]], **kw), c)
        elif t == "with_properties":
            pairs = [(k, v) for k, v in step["pairs"]]
            form = step.get("form", "list")
            if form == "list":        # the documented form: one iterable of pairs
                new = cls.with_properties(pairs)
            elif form == "mapping":
                new = cls.with_properties(dict(pairs))
            elif form == "kw":
                new = cls.with_properties(**dict(pairs))
            elif form == "split":     # a list of pairs plus keywords (keywords win, positions of first mention)
                m = len(pairs) // 2
                new = cls.with_properties(pairs[:m], **dict(pairs[m:]))
            else:                     # "none": no positional argument at all
                new = cls.with_properties() if not pairs else cls.with_properties(**dict(pairs))
            self.add(new, c)
        elif t == "of":
            self.add(cls.of(*[self.classes[j] for j in step["members"]]), c)
        elif t == "of_date":
            # a container holding a lazily prepared compound type that nobody has instantiated yet
            import flatland
            m = flatland.DateYYYYMMDD.named("d").using(optional=bool(step.get("opt")))
            self.ext.append(m)
            self.add(cls.of(m), c)
        elif t == "valued":
            self.add(cls.valued(*step["values"]), c)
        elif t == "to":
            self.add(cls.to(step["path"]), c)
        elif t == "inst":
            kw = self.kwargs(step["kw"])
            if step.get("val") and self.kinds[c] in ("dict", "scalar", "seq"):
                inst = cls(value_for(cls, kw.get("field_schema")), **kw)
            else:
                inst = cls(**kw)
            if type(inst) is not cls:
                # _MetaCompound.__call__ derived a class on the fly
                assert type(inst).__mro__[1] is cls
                self.add(type(inst), c)
            return "ok", inst
        else:
            raise AssertionError(t)
        return "ok", None

    def inst_snapshot(self, inst, c):
        out = {}
        for a in attrs_of(self.kinds[c]):
            if a in inst.__dict__:
                out[a] = self.cval(a, inst.__dict__[a])
        if "properties" in inst.__dict__ and type(inst.__dict__["properties"]) is dict:
            out["properties"] = [[k, v] for k, v in inst.__dict__["properties"].items()]
        return out


def value_for(cls, fields=None):
    """a value every member of which the schema accepts: the instance's own field list (a keyword override)
    or the class's; nested Dicts recursively, Integer members 1, sequences empty, other scalars "1"""
    import flatland
    if issubclass(cls, flatland.Dict):
        fields = cls.field_schema if fields is None else fields
        return {f.name: value_for(f) for f in fields}
    if issubclass(cls, (flatland.List, flatland.Array)):
        return []
    if issubclass(cls, flatland.DateYYYYMMDD):
        return None
    if issubclass(cls, flatland.Integer):
        return 1
    return "1"


def final_phase(real):
    """what every class shows at the end: field_schema_mapping keys (read only now — reading it earlier
    would be an observation the property's histories do not contain), then a plain instantiation of each"""
    mapping = []
    for cls, kind in zip(real.classes, real.kinds):
        mapping.append(list(cls.field_schema_mapping) if kind in ("dict", "compound") else None)
    plain, values = [], []
    for i in range(len(real.classes)):
        r, inst = real.do({"t": "inst", "c": i, "kw": [], "val": True})
        plain.append(r)
        try:
            values.append(repr(inst.value) if inst is not None else None)
        except Exception as e:  # noqa: BLE001
            values.append(type(e).__name__)
    return {"mapping": mapping, "plain": plain}, values


def run_chain(case):
    real = Real(case)
    prev = real.snapshot_all()
    steps = []
    for step in case["steps"]:
        n = len(real.classes)
        r, inst = real.do(step)
        now = real.snapshot_all()
        changed = [[i, now[i]] for i in range(n) if now[i] != prev[i]]
        steps.append({"r": r, "new": now[n:], "changed": changed,
                      "inst": real.inst_snapshot(inst, step["c"]) if inst is not None else None})
        prev = now
    final, values = final_phase(real)
    alias = [[i, a] for i, a in real.caller_alias]
    return {"_caller_alias": alias, "start": [prev0 for prev0 in [Real(case).snapshot_all()[0]]], "steps": steps, "final": final,
            "_values": values}


# ---------------------------------------------------------------- declarative schemas

TAGS = {"S": "String", "I": "Integer", "B": "Boolean"}


def run_schema(case):
    import flatland
    classes = []
    out = []
    tagged = {}

    def field(name, tag):
        f = getattr(flatland, TAGS[tag]).named(name)
        tagged[f] = tag
        return f

    def tag_of(f):
        for k in f.__mro__:
            if k in tagged:
                return tagged[k]
        return "?"

    for i, d in enumerate(case["decls"]):
        bases = tuple(classes[b] for b in d["bases"]) or (flatland.Schema,)
        members = {}
        if d.get("fs") is not None:
            members["field_schema"] = [field(n, t) for n, t in d["fs"]]
        for attr, tag, declname in d["attrs"]:
            members[attr] = field(declname, tag) if declname is not None else getattr(flatland, TAGS[tag])
            if declname is None:
                # an unnamed type: remember its tag through a subclass so it can be recognised
                members[attr] = field(None, tag)
        try:
            cls = type("S%d" % i, bases, members)
        except TypeError:
            out.append("TypeError")
            classes.append(classes[d["bases"][0]] if d["bases"] else flatland.Schema)
            continue
        classes.append(cls)
        out.append([[f.name, tag_of(f)] for f in cls.field_schema])
    return {"schemas": out}


# ---------------------------------------------------------------- oracle

def _behaviour(cls):
    """what a blank instance does (forces lazy preparation)"""
    try:
        import flatland
        if issubclass(cls, flatland.Dict):
            mapping = list(cls.field_schema_mapping)
            full = cls(value_for(cls))
            with_value = {"mapping": mapping, "value": repr(full.value),
                          "flat": [[k, v] for k, v in full.flatten()]}
        elif issubclass(cls, flatland.DateYYYYMMDD):
            import datetime
            full = cls()
            full.set(datetime.date(2001, 2, 3))
            with_value = {"u": full.u, "kids": [[k.name, k.u, bool(k.optional)] for k in full.children]}
        else:
            with_value = None
        el = cls()
        kids = [k.name for k in el.children] if hasattr(el, "children") else []
        return {"with_value": with_value, "flat": [[k, v] for k, v in el.flatten()] if el.flattenable or kids else [],
                "valid": bool(el.validate()), "kids": kids, "optional": bool(el.optional),
                "kid_optional": [bool(k.optional) for k in el.children] if hasattr(el, "children") else [],
                "kid_valid": [bool(k.valid) for k in el.children] if hasattr(el, "children") else []}
    except Exception as e:  # noqa: BLE001
        return type(e).__name__


def _is_prepared(cls):
    return bool(cls.__dict__.get("_compound_prepared"))


def _generated(optional):
    return [{"name": nm, "optional": bool(optional), "format": fmt}
            for nm, fmt in (("year", "%04i"), ("month", "%02i"), ("day", "%02i"))]


def _member_closure(cls, seen=None):
    """the class and, transitively, the member classes an instantiation of it may instantiate"""
    seen = seen if seen is not None else []
    if any(cls is x for x in seen):
        return seen
    seen.append(cls)
    members = list(getattr(cls, "field_schema", ()) or ())
    if getattr(cls, "member_schema", None):
        members.append(cls.member_schema)
    for f in members:
        if isinstance(f, type):
            _member_closure(f, seen)
    return seen


def _lazily_prepared_owner(cls, newly):
    """the newly prepared class P that accounts for cls's new field_schema: cls is P or a descendant of P
    (never an ancestor or a sibling), and the list cls shows is the one P owns now"""
    for p in newly:
        if issubclass(cls, p) and p.__dict__.get("field_schema") is cls.field_schema:
            return p
    return None


def classify_lazy(case, failure):
    """KF-C06-a class predicate, recomputed from the case:
    * the step is an instantiation of class T;
    * every class whose `_compound_prepared` flipped in that step is T or a (transitive) member of T — an
      instantiation prepares what it instantiates, never a parent or a sibling;
    * the disputed class is such a newly prepared class P or a DESCENDANT of P, and shows the list P owns now;
    * nothing but field_schema differs;
    * the new field_schema is exactly what lazy preparation builds: the members the case supplied for P
      (field_schema=[…] of P or of the ancestor it inherits them from), then year/month/day generated with
      P.optional for the positions left open."""
    if failure.get("clause") != "frame-lazy-preparation" or failure.get("attrs") != ["field_schema"]:
        return None
    step_no = failure.get("step")
    if step_no is None or not (0 <= step_no < len(case["steps"])) or case["steps"][step_no]["t"] != "inst":
        return None
    real = Real(case)
    for st in case["steps"][:step_no]:
        real.do(st)
    label = failure.get("class")
    try:
        cls = real.ext[int(label[3:])] if isinstance(label, str) else real.classes[label]
        target = real.classes[case["steps"][step_no]["c"]]
    except (IndexError, ValueError, TypeError):
        return None
    allowed = _member_closure(target)
    watched = list(real.classes) + list(real.ext)
    flags = [_is_prepared(w) for w in watched]
    declared = {id(w): d for w, d in zip(real.classes, real.declared)}
    real.do(case["steps"][step_no])
    newly = [w for w, pb in zip(watched, flags) if not pb and _is_prepared(w)]
    if not newly or not all(any(p is x for x in allowed) for p in newly):
        return None
    owner = _lazily_prepared_owner(cls, newly)
    if owner is None:
        return None
    supplied = declared.get(id(owner), [])
    want = supplied if len(supplied) == 3 else supplied + _generated(owner.optional)[len(supplied):]
    now = [real.field_desc(f) for f in cls.field_schema]
    observed = failure.get("observed", {})
    observed = observed.get("field_schema") if isinstance(observed, dict) else None
    if now == want and observed == want:
        return "KF-C06-a"
    return None


def oracle_chain(case):
    fails = []
    real = Real(case)
    for n_step, step in enumerate(case["steps"]):
        n = len(real.classes)
        if step["c"] >= n or any(j >= n for j in step.get("members", [])):
            real.do(step)          # the generator over-estimated the number of classes: a no-op "BadCase"
            continue
        before = real.snapshot_all()
        raw_before = real.raw_identities()
        ext_before = [real.ext_snapshot(j) for j in range(len(real.ext))]
        watched = list(real.classes) + list(real.ext)
        prepared_before = [_is_prepared(w) for w in watched]
        r, inst = real.do(step)
        after = real.snapshot_all()
        raw_after = real.raw_identities()
        # classes lazily prepared by this step (only a class whose flag flipped can account for a new field_schema)
        newly = [w for w, pb in zip(watched, prepared_before) if not pb and _is_prepared(w)]

        def by_lazy_preparation(cls):
            return _lazily_prepared_owner(cls, newly) is not None

        for i in range(n):
            b, a = dict(before[i]), dict(after[i])
            # identity labels are numbered per snapshot; compare raw identities instead
            b.pop("ids"), a.pop("ids")
            lazy_here = False
            if a != b:
                bad = sorted(k for k in a if a[k] != b.get(k))
                lazy_here = bad == ["field_schema"] and by_lazy_preparation(real.classes[i])
                fails.append({"clause": "frame-lazy-preparation" if lazy_here else "frame", "step": n_step, "class": i,
                              "attrs": bad, "expected": {k: b[k] for k in bad}, "observed": {k: a[k] for k in bad}})
            for (ci, attr), (ident, content) in raw_before.items():
                if ci != i or (lazy_here and attr == "field_schema"):
                    continue
                ident2, content2 = raw_after[(ci, attr)]
                if type(content) is list and (ident2 != ident):
                    lazy_id = attr == "field_schema" and by_lazy_preparation(real.classes[i])
                    fails.append({"clause": "frame-lazy-preparation" if lazy_id else "frame-identity", "step": n_step,
                                  "class": i, "attrs": [attr], "expected": {attr: before[i].get(attr)},
                                  "observed": {attr: after[i].get(attr)}})
        for j, eb in enumerate(ext_before):
            ea = real.ext_snapshot(j)
            if ea != eb:
                lazy_here = by_lazy_preparation(real.ext[j])
                fails.append({"clause": "frame-lazy-preparation" if lazy_here else "frame", "step": n_step,
                              "class": "ext%d" % j, "attrs": ["field_schema"], "expected": eb, "observed": ea})
        if step["t"] == "with_properties" and r != "ok":
            # every generated form (an iterable of pairs, a mapping, keywords, none) is a documented call
            fails.append({"clause": "constructor-accepts-documented-call", "step": n_step, "class": step["c"],
                          "attrs": ["properties"], "expected": "a new subclass", "observed": r})
        if r == "ok" and step["t"] in ("using", "inst"):
            # the list the caller passed as validators=… (and mutated afterwards) must have been copied
            holder = inst if (step["t"] == "inst" and real.kinds[step["c"]] != "compound") else real.classes[-1]
            if any(getattr(v, "label", None) == 99 for v in holder.validators):
                fails.append({"clause": "aliasing-with-caller", "step": n_step, "class": step["c"],
                              "attrs": ["validators"], "expected": "a copy of the caller's list",
                              "observed": [getattr(v, "label", "?") for v in holder.validators]})
        if r == "ok" and step["t"] != "inst":
            new, parent = real.classes[-1], real.classes[step["c"]]
            if len(real.classes) != n + 1 or new is parent or new.__mro__[1] is not parent:
                fails.append({"clause": "new-subclass", "step": n_step, "class": step["c"], "attrs": [],
                              "expected": "a new direct subclass", "observed": repr(new.__mro__[:2])})
            # the new class must not share a mutable list with any pre-existing class
            for a in attrs_of(real.kinds[-1]):
                raw = getattr(new, a)
                if type(raw) is list and a in new.__dict__:
                    for (ci, attr), (ident, _) in raw_before.items():
                        if ident == id(raw):
                            fails.append({"clause": "aliasing", "step": n_step, "class": ci, "attrs": [attr],
                                          "expected": "a fresh list", "observed": "shared with new class"})
        if r == "KeyError" and step["t"] == "inst" and step.get("val"):
            fails.append({"clause": "instance-local", "step": n_step, "class": step["c"], "attrs": ["value"],
                          "expected": "a value naming exactly the instance's own fields is accepted",
                          "observed": "KeyError"})
        if r == "ok" and step["t"] == "inst" and step["kw"] and real.kinds[step["c"]] != "compound":
            # keyword overrides affect that instance only
            want = {a: v for a, v in step["kw"]}
            got = real.inst_snapshot(inst, step["c"])
            for a, v in want.items():
                if a == "properties":
                    v = [[k, x] for k, x in dict((k, x) for k, x in v).items()]
                if a == "field_schema":
                    v = [{"name": m[0], "optional": m[1], "format": "%i"} for m in v if len(m) == 2]
                    if len(v) != len(dict((a2, v2) for a2, v2 in step["kw"])["field_schema"]):
                        continue
                if got.get(a) != v:
                    fails.append({"clause": "instance-local", "step": n_step, "class": step["c"], "attrs": [a],
                                  "expected": v, "observed": got.get(a)})
            try:
                fresh = real.classes[step["c"]]()
                extra = real.inst_snapshot(fresh, step["c"])
            except TypeError:          # the class itself has no members: only the overriding instance exists
                extra = {}
            if extra:
                fails.append({"clause": "instance-local", "step": n_step, "class": step["c"], "attrs": sorted(extra),
                              "expected": {}, "observed": extra})
        # a recorded finding (lazy preparation) does not end the check of the history; anything else does
        if any(f["clause"] != "frame-lazy-preparation" or classify_lazy(case, f) is None for f in fails):
            return fails
    # history independence: the same chain (i) without any instantiation and (ii) without the plain
    # instantiations only gives classes — including the classes a compound derives on the fly for an
    # overriding instantiation — that behave the same
    if any(s["t"] == "inst" for s in case["steps"]):
        full = _final_behaviour(case, lambda st: True)
        for label, keep in (("no instantiation", lambda st: False),
                            ("no plain instantiation", lambda st: bool(st["kw"]))):
            other = _final_behaviour(case, keep)
            for key in other:
                if full.get(key) != other[key]:
                    fails.append({"clause": "history-independent", "step": key, "class": key, "attrs": [label],
                                  "expected": other[key], "observed": full.get(key)})
                    return fails
    return fails


def _final_behaviour(case, keep):
    """behaviour of every class created by a step (constructor call, or overriding instantiation of a
    compound), keyed by the index of the step that made it; instantiations are run only if keep(step)"""
    real = Real(case)
    makers = _all_makers(case)
    resolved = _resolved_members(case)
    made = {-1: 0}

    def tr(cid):
        return made.get(-1 if cid == 0 else makers.get(cid))

    for n_step, step in enumerate(case["steps"]):
        if step["t"] == "inst" and not keep(step):
            continue
        n = len(real.classes)
        # class ids refer to the numbering of the full history; translate
        step2 = dict(step)
        step2["c"] = tr(step["c"])
        if step2["c"] is None:
            continue
        if step["t"] == "of":
            mem = [tr(j) for j in step["members"]]
            if None in mem:
                continue
            step2["members"] = mem
        if n_step in resolved:
            # members the caller took out of other classes are the same member classes in every variant of the
            # history: give them by descriptor (what they are depends on the history that produced them)
            step2["kw"] = [[a, resolved[n_step] if a == "field_schema" else v] for a, v in step["kw"]]
        r, _ = real.do(step2)
        if r == "ok" and len(real.classes) == n + 1:
            made[n_step] = n
    out = {}
    # descendants are probed before their ancestors: probing instantiates, and a derived class must behave
    # the same whether or not its parent was prepared before (in the run without instantiations the parent
    # is then still unprepared when the child is probed)
    for n_step, cid in sorted(made.items(), key=lambda kv: -kv[1]):
        snap = real.snapshot(cid, {})
        snap.pop("ids"), snap.pop("parent")
        for a in ("field_schema", "member_schema"):
            snap.pop(a, None)     # refer to class ids / preparation state; compared through behaviour
        out[n_step] = {"attrs": snap, "behaviour": _behaviour(real.classes[cid])}
    return out


def _resolved_members(case):
    """step index -> descriptors of the field_schema members, for steps whose list refers to members of other
    classes (resolved in the full history)"""
    out = {}
    real = Real(case)
    for n_step, step in enumerate(case["steps"]):
        real.last_members = None
        real.do(step)
        if any(a == "field_schema" and any(isinstance(m, list) and len(m) == 4 for m in v)
               for a, v in step.get("kw", [])) and real.last_members is not None:
            if all(isinstance(d, dict) for d in real.last_members):
                out[n_step] = real.last_members
    return out


def _all_makers(case):
    """class id (numbering of the full history) -> index of the step that created it"""
    real = Real(case)
    makers = {}
    for n_step, step in enumerate(case["steps"]):
        n = len(real.classes)
        real.do(step)
        if len(real.classes) == n + 1:
            makers[n] = n_step
    return makers


_MAKERS_CACHE = {}


def _class_makers(case):
    key = id(case)
    hit = _MAKERS_CACHE.get(key)
    if hit is not None and hit[0] is case:
        return hit[1]
    real = Real(case)
    makers = {}
    for n_step, step in enumerate(case["steps"]):
        n = len(real.classes)
        real.do(step)
        if len(real.classes) == n + 1:
            makers[n] = n_step if step["t"] != "inst" else None
    _MAKERS_CACHE.clear()
    _MAKERS_CACHE[key] = (case, makers)
    return makers


def expected_schema(case):
    """spec B for declarative schemas: bases' fields, left-most base first, first seen wins; then the
    class's own field_schema and attribute declarations overlay by name; each name once."""
    results = []
    fields_of = []
    for d in case["decls"]:
        mapping = {}
        for b in d["bases"]:
            for name, tag in fields_of[b]:
                mapping.setdefault(name, tag)
        own = list(d["fs"] or []) + [[attr, tag] for attr, tag, _ in d["attrs"]]
        for name, tag in own:
            mapping[name] = tag
        results.append(mapping)
        fields_of.append([[n, t] for n, t in mapping.items()])
    return results


def oracle_schema(case):
    obs = run_schema(case)["schemas"]
    exp = expected_schema(case)
    fails = []
    for i, (o, e) in enumerate(zip(obs, exp)):
        if o == "TypeError":
            fails.append({"clause": "schema-fields", "class": i, "expected": e, "observed": o})
            continue
        names = [n for n, _ in o]
        if len(set(names)) != len(names):
            fails.append({"clause": "schema-fields-nodup", "class": i, "expected": "each name once", "observed": names})
        if dict((n, t) for n, t in o) != e:
            fails.append({"clause": "schema-fields", "class": i, "expected": sorted(e.items(), key=repr),
                          "observed": o})
    return fails


# ---------------------------------------------------------------- generator

def _rand_vs(rng):
    return [rng.randint(1, 6) for _ in range(rng.randint(0, 3))]


def _rand_members(rng):
    """0-3 (rarely 4) user-supplied members of a DateYYYYMMDD"""
    k = rng.choice([0, 1, 1, 1, 2, 2, 2, 3, 3, 4])
    return [[rng.choice(["y", "m", "d", "year", "month", "day", "q"]) + (str(i) if rng.random() < 0.5 else ""),
             rng.random() < 0.4] for i in range(k)]


def _rand_dict_members(rng):
    """1-3 (rarely 0) Integer members with distinct names for a Dict"""
    k = rng.choice([0, 1, 1, 2, 2, 2, 3])
    return [[n, rng.random() < 0.3] for n in rng.sample(["x", "y", "z", "w", "v"], k)]


def gen_dict_chain(rng):
    """a Dict with Integer members; overriding instantiations (field_schema=/policy=/name=/validators=…, with
    and without an initial value) placed before, between and after plain ones and further derivations"""
    steps = [{"t": "using", "c": 0, "kw": [["field_schema", _rand_dict_members(rng) or [["x", False]]]]}]
    n = 2
    for _ in range(rng.randint(2, 9)):
        c = rng.randrange(n)
        r = rng.random()
        if r < 0.35:
            kw = []
            if rng.random() < 0.7:
                kw.append(["field_schema", _rand_dict_members(rng)])
            for a, v in (("name", rng.choice(NAMES)), ("policy", rng.choice(["subset", "strict", "duck", None])),
                         ("validators", _rand_vs(rng)), ("default", rng.choice([None, 1])),
                         ("optional", rng.random() < 0.5)):
                if rng.random() < 0.25:
                    kw.append([a, v])
            steps.append({"t": "inst", "c": c, "kw": kw, "val": rng.random() < 0.8})
        elif r < 0.55:
            steps.append({"t": "inst", "c": c, "kw": [], "val": rng.random() < 0.7})
        elif r < 0.70:
            steps.append({"t": "named", "c": c, "name": rng.choice(NAMES)})
            n += 1
        elif r < 0.85:
            kw = [[rng.choice(["optional", "policy"]), None]]
            kw[0][1] = (rng.random() < 0.5) if kw[0][0] == "optional" else rng.choice(["subset", "strict", None])
            if rng.random() < 0.3:
                kw.append(["field_schema", _rand_dict_members(rng)])
            steps.append({"t": "using", "c": c, "kw": kw})
            n += 1
        else:
            steps.append({"t": "with_properties", "c": c, "pairs": [[rng.choice(KEYS), rng.randint(0, 5)]],
                          "form": rng.choice(["list", "mapping", "kw", "split", "none"])})
            n += 1
    return {"kind": "chain", "base": "Dict", "steps": steps}


def gen_inherit_chain(rng):
    """classes written with a plain `class` statement below a class that owns list attributes: they inherit
    validators / descent_validators without owning them; including_* / validated_by / using / named are then
    called on them, on their siblings and on the owner, with instantiations in between"""
    base = rng.choice(["String", "Integer", "Dict", "List", "DateYYYYMMDD", "Enum", "Boolean"])
    kind = BASES[base]["kind"]
    container = kind in ("dict", "seq", "compound")
    steps = [rng.choice([{"t": "validated_by", "c": 0, "vs": _rand_vs(rng) or [1]},
                         {"t": "using", "c": 0, "kw": [["validators", _rand_vs(rng) or [2]]]},
                         {"t": "including_validators", "c": 0, "vs": [3, 4], "pos": None}])]
    if container and rng.random() < 0.6:
        steps.append({"t": "descent_validated_by", "c": 1, "vs": _rand_vs(rng) or [5]})
    n = len(steps) + 1
    for _ in range(rng.randint(3, 9)):
        c = rng.randrange(n)
        r = rng.random()
        if r < 0.30:
            steps.append({"t": "class_stmt", "c": c})
        elif r < 0.60:
            steps.append({"t": "including_validators", "c": c, "vs": _rand_vs(rng) or [6],
                          "pos": rng.choice([None, 0, 1, -1, -2, -4])})
        elif r < 0.70 and container:
            steps.append({"t": "including_descent_validators", "c": c, "vs": _rand_vs(rng) or [7],
                          "pos": rng.choice([None, 0, -2])})
        elif r < 0.80:
            steps.append({"t": "named", "c": c, "name": rng.choice(NAMES)})
        elif r < 0.90:
            steps.append({"t": "using", "c": c, "kw": [["optional", rng.random() < 0.5]]})
        else:
            steps.append({"t": "inst", "c": c, "kw": [], "val": False})
            continue
        n += 1
    return {"kind": "chain", "base": base, "steps": steps}


def gen_container_chain(rng):
    """a Dict / List / Array holding a DateYYYYMMDD member nobody has instantiated yet; the container is
    derived further and instantiated (plain, overriding, with a value) at various points"""
    base = rng.choice(["Dict", "Dict", "List", "Array"])
    steps = [{"t": "of_date", "c": 0, "opt": rng.random() < 0.4}]
    n = 2
    for _ in range(rng.randint(1, 7)):
        c = rng.randrange(n)
        r = rng.random()
        if r < 0.4:
            kw = [["optional", rng.random() < 0.5]] if rng.random() < 0.4 else []
            steps.append({"t": "inst", "c": c, "kw": kw, "val": rng.random() < 0.3})
        elif r < 0.6:
            steps.append({"t": "named", "c": c, "name": rng.choice(NAMES)})
            n += 1
        elif r < 0.8:
            steps.append({"t": "using", "c": c, "kw": [["optional", rng.random() < 0.5]]})
            n += 1
        else:
            steps.append({"t": "of_date", "c": c, "opt": rng.random() < 0.4})
            n += 1
    return {"kind": "chain", "base": base, "steps": steps}


def _rand_members_ref(rng, n):
    """a user-supplied member list that may REUSE members of classes made so far (e.g. the year/month/day a
    prepared class generated), as they are or derived with .using(optional=…), next to fresh Integers"""
    if rng.random() < 0.45:
        return _rand_members(rng)
    k = rng.choice([1, 2, 3, 3, 3])
    out = []
    src = rng.randrange(n)
    for pos in range(k):
        r = rng.random()
        if r < 0.7:
            out.append(["ref", src if rng.random() < 0.8 else rng.randrange(n),
                        pos if rng.random() < 0.8 else rng.randrange(3), rng.choice([None, None, True, False])])
        else:
            out.append([rng.choice(["y", "m", "d", "q"]) + str(pos), rng.random() < 0.4])
    return out


def gen_compound_chain(rng):
    """DateYYYYMMDD with 0-3 user-supplied members; plain/overriding instantiations and
    using(optional=…) derivations at every point of the chain"""
    steps = [{"t": "using", "c": 0, "kw": [["field_schema", _rand_members(rng)]] +
              ([["optional", rng.random() < 0.5]] if rng.random() < 0.4 else [])}]
    n = 2
    for _ in range(rng.randint(2, 10)):
        c = rng.randrange(n)
        r = rng.random()
        if r < 0.30:
            steps.append({"t": "inst", "c": c, "kw": []})
        elif r < 0.50:
            kw = [["optional", rng.random() < 0.6]]
            if rng.random() < 0.2:
                kw.append(["field_schema", _rand_members_ref(rng, n)])
            if rng.random() < 0.2:
                kw.append(["name", rng.choice(NAMES)])
            steps.append({"t": "inst", "c": c, "kw": kw})
            n += 1
        elif r < 0.80:
            kw = [["optional", rng.random() < 0.6]]
            if rng.random() < 0.15:
                kw.append(["field_schema", _rand_members_ref(rng, n)])
            steps.append({"t": "using", "c": c, "kw": kw})
            n += 1
        elif r < 0.9:
            steps.append({"t": "named", "c": c, "name": rng.choice(NAMES)})
            n += 1
        else:
            steps.append({"t": "using", "c": c, "kw": [["field_schema", _rand_members_ref(rng, n)]]})
            n += 1
    return {"kind": "chain", "base": "DateYYYYMMDD", "steps": steps}


def _rand_kw(rng, kind, n_classes, for_inst):
    kw = []
    seen = set()
    for _ in range(rng.randint(0 if for_inst else 1, 3)):
        choices = ["name", "optional", "default", "validators", "properties"]
        if kind in ("dict", "seq", "compound"):
            choices.append("descent_validators")
        if kind == "compound":
            choices += ["field_schema", "optional", "optional"]
        if kind == "dict":
            choices += ["field_schema", "field_schema", "policy"]
        if rng.random() < 0.05:
            choices = ["bogus"]
        a = rng.choice(choices)
        if a in seen:
            continue
        seen.add(a)
        if a == "name":
            v = rng.choice(NAMES)
        elif a == "optional":
            v = rng.random() < 0.5
        elif a == "default":
            v = rng.choice([None, 1, "d"])
        elif a in ("validators", "descent_validators"):
            v = _rand_vs(rng)
        elif a == "properties":
            v = [[rng.choice(KEYS), rng.randint(0, 5)] for _ in range(rng.randint(0, 2))]
        elif a == "field_schema" and kind == "dict":
            v = _rand_dict_members(rng)
        elif a == "field_schema":
            v = _rand_members(rng)
        elif a == "policy":
            v = rng.choice(["subset", "strict", "duck", None])
        else:
            v = 1
        kw.append([a, v])
    return kw


def gen_chain(rng, base=None, max_steps=12):
    base = base or rng.choice(list(BASES))
    kind = BASES[base]["kind"]
    steps = []
    n = 1
    named = {0: None}            # class id -> name (what the generator believes)
    for _ in range(rng.randint(2, max_steps)):
        c = rng.randrange(n)
        r = rng.random()
        made = True
        if r < 0.22:
            step = {"t": "inst", "c": c, "kw": _rand_kw(rng, kind, n, True) if rng.random() < 0.5 else [],
                    "val": rng.random() < 0.5}
            # a compound derives a class on the fly for keywords naming class attributes; an unknown
            # keyword stays in kw and makes __init__ raise afterwards (the derived class is garbage)
            made = kind == "compound" and bool(step["kw"]) and not any(a == "bogus" for a, _ in step["kw"])
        elif r < 0.27:
            step = {"t": "class_stmt", "c": c}
        elif r < 0.36:
            step = {"t": "named", "c": c, "name": rng.choice(NAMES)}
            named[n] = step["name"]
        elif r < 0.52:
            step = {"t": "using", "c": c, "kw": _rand_kw(rng, kind, n, False)}
            made = not any(a == "bogus" for a, _ in step["kw"])
        elif r < 0.60:
            step = {"t": "validated_by", "c": c, "vs": _rand_vs(rng)}
        elif r < 0.72:
            step = {"t": "including_validators", "c": c, "vs": _rand_vs(rng),
                    "pos": rng.choice([None, None, 0, 1, 2, -1, -2, -3, -4, -6, 9])}
        elif r < 0.80:
            step = {"t": "with_properties", "c": c, "pairs": [[rng.choice(KEYS), rng.randint(0, 5)]
                                                               for _ in range(rng.randint(0, 3))],
                    "form": rng.choice(["list", "mapping", "kw", "split", "none"])}
        elif kind in ("dict", "seq", "compound") and r < 0.86:
            step = {"t": "descent_validated_by", "c": c, "vs": _rand_vs(rng)}
        elif kind in ("dict", "seq", "compound") and r < 0.92:
            step = {"t": "including_descent_validators", "c": c, "vs": _rand_vs(rng),
                    "pos": rng.choice([None, 0, 1, -1, -2, -5, 7])}
        elif kind == "enum":
            step = {"t": "valued", "c": c, "values": [rng.choice(["p", "q", "r"]) for _ in range(rng.randint(0, 3))]}
        elif kind == "ref":
            step = {"t": "to", "c": c, "path": rng.choice(["a", "../b", "/c/d", "x[0]"])}
        elif kind == "seq":
            step = {"t": "of", "c": c, "members": [rng.randrange(n)]}
        elif kind == "dict":
            k = rng.randint(1, 3)
            step = {"t": "of", "c": c, "members": [rng.randrange(n) for _ in range(k)]}
            # Dict.of raises TypeError on duplicate names; the harness lets the model predict it
            made = None
        else:
            step = {"t": "named", "c": c, "name": rng.choice(NAMES)}
        steps.append(step)
        if made is None:
            # unknown without running: the generator tracks names to decide
            names = [named.get(j) for j in step["members"]]
            made = len(set(names)) == len(names)
        if made and step["t"] != "inst":
            if step["t"] == "using":
                nm = dict((a, v) for a, v in step["kw"]).get("name", named.get(c))
                named[n] = nm
            elif step["t"] != "named":
                named[n] = named.get(c)
            n += 1
        elif made and step["t"] == "inst":
            named[n] = dict((a, v) for a, v in step["kw"]).get("name", named.get(c))
            n += 1
    return {"kind": "chain", "base": base, "steps": steps}


def gen_schema(rng):
    decls = []
    names = ["a", "b", "c", "d"]
    for i in range(rng.randint(1, 5)):
        nb = 0 if i == 0 else rng.choice([1, 1, 2, 2, 3])
        bases = []
        cands = list(range(i))
        rng.shuffle(cands)
        bases = sorted(cands[:nb], reverse=True)   # later (more derived) classes first keeps C3 consistent
        fs = None
        if rng.random() < 0.3:
            fs = [[rng.choice(names), rng.choice("SIB")] for _ in range(rng.randint(0, 3))]
        attrs = []
        used = set()
        for _ in range(rng.randint(0, 3)):
            a = rng.choice(names)
            if a in used:
                continue
            used.add(a)
            attrs.append([a, rng.choice("SIB"), rng.choice([None, a, rng.choice(names)])])
        decls.append({"bases": bases, "fs": fs, "attrs": attrs})
    return {"kind": "schema", "decls": decls}


# ---------------------------------------------------------------- the property

class C06(Property):
    id = "C06"
    title = "Deriving or instantiating a schema never alters the schema it came from"
    proof_module = "Proofs.C06"
    theorems = ["Flatland.C06.Proofs." + t for t in (
        "frame", "frame_partial", "frame_observe", "frame_of_pre", "step_pre", "instance_local",
        "schema_fields", "addUnseen_spec", "addAndOverwrite_spec",
        "WF_of_wfB", "C06_full_fails",
        "suppliedOf_preparedFrom", "compound_fields_history_independent", "compoundInit_stores",
        "compoundInit_preparedFrom", "lookup_ne_preparedFrom", "frame_lazy", "step_lazy_state",
        "WF_step", "WF_run", "ctor_new_or_unchanged", "inst_shape", "step_shape", "mroOf_run",
        "frame_step", "frame_history", "frame_history_observe", "c06_histories_partial", "histGuard_of_no_lazy",
        "ChainWF_step", "frame_step_any", "frame_history_any", "frame_history_noFields", "preparedOf_history",
        "C06_full_history_fails",
    )]
    level_text = "proof (partial: frame theorem over all histories under the guard 'no lazy preparation of the observed class or an ancestor'; KF-C06-a open)"
    level_note = ("PROVED on the model: frame / frame_history (guard lazyPrep = none resp. histGuard), frame_lazy, "
                  "frame_history_any / frame_history_noFields (every history, lazy preparation included: everything but "
                  "field_schema, and of field_schema the members a class is supplied with), WF_step / WF_run, "
                  "ctor_new_or_unchanged, instance_local, schema_fields, compound_fields_history_independent / "
                  "preparedOf_history (regeneration rule of /repo 33c5842: list identity + remembered supplied members).  "
                  "TRUE BY CONSTRUCTION of the model (they record how the model is built, the weight is on the "
                  "correspondence whose snapshots include list contents and list identities): instance_local (a non-compound "
                  "instantiation has no transition that touches the store), ctor_new_or_unchanged (class_cloner always appends), "
                  "and the list-CONTENT half of frame (the heap is append-only: the in-place mutation of a shared list, which "
                  "is what the property fears, cannot be expressed in the model; the identity half — which list object an "
                  "attribute is bound to — is a real statement).  REFUTED: C06_Full / C06_Full_history = KF-C06-a (open).  "
                  "ORACLE ONLY: 'the returned class is a new direct subclass', general behavioural history independence, "
                  "containers holding compounds (has_model = False).  OUTSIDE C06 (declared): using()/__init__ store a "
                  "descent_validators=[…] keyword list without copying, i.e. the schema aliases the CALLER's list; the caller's "
                  "list is not 'the schema it came from', so the property does not forbid it — the harness records where it "
                  "happens (tag descent_validators-list-aliased-with-caller) and never mutates that list; the model allocates a "
                  "copy, which is observationally the same as long as the caller leaves its list alone")
    technique = "Lean 4 model (class store + heap of list objects) + frame theorem by store extension; differential testing"
    trusted_base = [
        "Python's class machinery (type(), attribute lookup along a single-inheritance MRO, instance __dict__) is the "
        "modelled boundary: the model is an explicit class store with own-attribute dictionaries and a parent pointer",
        "validators are opaque labelled callables",
    ]
    assumptions = [
        "every class of a model store has the element kind of class 0: containers whose members are lazily prepared compounds "
        "are generated (of_date) but checked by the oracle only",
        "16 of the 23 exported element types start chains (not SparseDict, JoinedString, Compound, Schema/Form/SparseSchema "
        "as chain roots; declarative Schema field collection is covered as its own case kind, constructor chains on "
        "declarative schemas are not)",
        "constructor chains use single inheritance (class_cloner always derives one direct subclass); multiple "
        "inheritance is covered for declarative Schema field collection only",
        "members generated by DateYYYYMMDD.__compound_init__ are observed as (name, format, optional, generated) records",
    ]
    rule = ("chains of 2-12 constructor calls (named, using with 1-3 overrides incl. validators/properties/unknown "
            "attribute, validated_by, including_validators with positions -6..9, descent variants, with_properties, of, "
            "valued, to) and plain/overriding instantiations at random points, starting from a fresh subclass of each of "
            "9 built-in types (DateYYYYMMDD = lazily prepared compound); 15% of the cases are DateYYYYMMDD chains with 0-4 "
            "user-supplied Integer members (using(field_schema=[…]), some optional) interleaved with plain/overriding "
            "instantiations and using(optional=…) at every point; 10% are chains in which classes written with a plain `class` "
            "statement (class_stmt: inherit validators/descent_validators lists without owning them) sit below an owner "
            "and including_*/named/using are called on them, their siblings and the owner (class_stmt also occurs in the "
            "general chains); 15% are Dict chains with Integer members where overriding "
            "instantiations (field_schema=/policy=/name=/validators=/default=/optional=, with and without an initial value "
            "valid for the instance's own schema, so set() runs) come before, between and after plain ones and further "
            "derivations; at the end of every chain each class's field_schema_mapping is read and a plain instance is "
            "built from a full value (compared with the model, and — oracle — with the same chain never instantiated); plus declarative Schema hierarchies of 1-5 classes "
            "with 0-3 bases, explicit field_schema lists and attribute declarations over 4 overlapping names; non-trivial = "
            ">= 3 successful derivations and one instantiation, or a schema with a multi-base class; distinct = distinct "
            "canonical case JSON")
    quick_n = 40000
    thorough_n = 400000
    case_timeout = 20

    def corpus(self):
        out = []
        # fixed 71fc8fd: DateYYYYMMDD(); DateYYYYMMDD.using(optional=True)() had non-optional members
        out.append({"kind": "chain", "base": "DateYYYYMMDD", "steps": [
            {"t": "inst", "c": 0, "kw": []}, {"t": "using", "c": 0, "kw": [["optional", True]]},
            {"t": "inst", "c": 1, "kw": []}]})
        out.append({"kind": "chain", "base": "DateYYYYMMDD", "steps": [
            {"t": "inst", "c": 0, "kw": []}, {"t": "inst", "c": 0, "kw": [["optional", True]]}]})
        # seeded mutation C06 "keep all unless fields[0] was generated": a partially specified date is
        # instantiated, then derived with using(optional=True) / overridden at instantiation — the derived
        # classes must regenerate month/day from their own `optional`
        out.append({"kind": "chain", "base": "DateYYYYMMDD", "steps": [
            {"t": "named", "c": 0, "name": "when"},
            {"t": "using", "c": 1, "kw": [["field_schema", [["y", True]]]]},
            {"t": "inst", "c": 2, "kw": []},
            {"t": "using", "c": 2, "kw": [["optional", True]]},
            {"t": "inst", "c": 3, "kw": []},
            {"t": "inst", "c": 2, "kw": [["optional", True]]}]})
        out.append({"kind": "chain", "base": "DateYYYYMMDD", "steps": [
            {"t": "using", "c": 0, "kw": [["field_schema", [["y", False], ["m", True]]]]},
            {"t": "inst", "c": 1, "kw": []},
            {"t": "inst", "c": 1, "kw": [["optional", True]]},
            {"t": "using", "c": 1, "kw": [["optional", True]]},
            {"t": "inst", "c": 3, "kw": []}]})
        # seeded mutation C06r2 (field_schema_mapping memoised on the class from an instance's override): the
        # first consumer of the class is an overriding instantiation with a value
        out.append({"kind": "chain", "base": "Dict", "steps": [
            {"t": "named", "c": 0, "name": "point"},
            {"t": "using", "c": 1, "kw": [["field_schema", [["x", False], ["y", False]]]]},
            {"t": "using", "c": 2, "kw": [["optional", True]]},
            {"t": "with_properties", "c": 3, "pairs": [["a", 2]]},
            {"t": "named", "c": 4, "name": "derived"},
            {"t": "inst", "c": 4, "kw": [["field_schema", [["z", False]]], ["name", "odd"]], "val": True},
            {"t": "inst", "c": 4, "kw": [], "val": True},
            {"t": "named", "c": 4, "name": "later"}]})
        # KF-C06-a through a container: Dict.of(M)() prepares the member class M
        out.append({"kind": "chain", "base": "Dict", "steps": [
            {"t": "of_date", "c": 0, "opt": False}, {"t": "inst", "c": 1, "kw": [], "val": False}]})
        # seeded mutation C06 round 3 (clone copies only OWN lists + in-place splice): `class Email(Text)` inherits
        # Text's validators; Email.including_validators(...) must not touch Text, its sibling, or later derivations
        out.append({"kind": "chain", "base": "String", "steps": [
            {"t": "using", "c": 0, "kw": [["validators", [1]]]},
            {"t": "class_stmt", "c": 1}, {"t": "class_stmt", "c": 1},
            {"t": "including_validators", "c": 2, "vs": [7], "pos": None},
            {"t": "including_validators", "c": 2, "vs": [8], "pos": 0},
            {"t": "named", "c": 1, "name": "x"}]})
        # audit round 2 / fix 33c5842: a user-supplied list that reuses the members a prepared class generated is taken
        # as it is ([year, month, day.using(optional=True)]); under 71fc8fd it became [day', month, day]
        out.append({"kind": "chain", "base": "DateYYYYMMDD", "steps": [
            {"t": "inst", "c": 0, "kw": []},
            {"t": "using", "c": 0, "kw": [["field_schema", [["ref", 0, 0, None], ["ref", 0, 1, None], ["ref", 0, 2, True]]]]},
            {"t": "inst", "c": 1, "kw": []},
            {"t": "using", "c": 1, "kw": [["optional", True]]},
            {"t": "inst", "c": 2, "kw": []}]})
        # fix 6f9ffeb: with_properties takes the documented iterable of pairs / a mapping / nothing
        out.append({"kind": "chain", "base": "String", "steps": [
            {"t": "with_properties", "c": 0, "pairs": [["a", 1], ["b", 2]], "form": "list"},
            {"t": "with_properties", "c": 1, "pairs": [["a", 3]], "form": "mapping"},
            {"t": "with_properties", "c": 2, "pairs": [], "form": "none"},
            {"t": "with_properties", "c": 1, "pairs": [["c", 4], ["a", 5]], "form": "split"}]})
        # planned drill: including_validators without the list copy
        out.append({"kind": "chain", "base": "String", "steps": [
            {"t": "validated_by", "c": 0, "vs": [1, 2]},
            {"t": "including_validators", "c": 1, "vs": [3], "pos": -4},
            {"t": "including_validators", "c": 1, "vs": [4], "pos": None}]})
        out.append({"kind": "schema", "decls": [
            {"bases": [], "fs": None, "attrs": [["a", "S", None], ["b", "I", "zz"]]},
            {"bases": [], "fs": [["b", "B"], ["c", "S"]], "attrs": []},
            {"bases": [1, 0], "fs": [["a", "I"]], "attrs": [["c", "B", "c"]]}]})
        return out

    def exhaustive(self, tier):
        # every pair (len, position) of including_validators on lists of length 0..3, positions -6..6
        for ln in range(4):
            for pos in list(range(-6, 7)) + [None]:
                yield {"kind": "chain", "base": "String", "steps": [
                    {"t": "validated_by", "c": 0, "vs": list(range(1, ln + 1))},
                    {"t": "including_validators", "c": 1, "vs": [8, 9], "pos": pos}]}

    exhaustive_note = "including_validators position arithmetic: list lengths 0-3 x positions -6..6 and default"

    def generate(self, rng, n, tier):
        for _ in range(n):
            r = rng.random()
            if r < 0.2:
                yield gen_schema(rng)
            elif r < 0.35:
                yield gen_compound_chain(rng)
            elif r < 0.50:
                yield gen_dict_chain(rng)
            elif r < 0.55:
                yield gen_container_chain(rng)
            elif r < 0.65:
                yield gen_inherit_chain(rng)
            else:
                yield gen_chain(rng)

    def run_impl(self, case):
        if case["kind"] == "schema":
            return run_schema(case)
        return run_chain(case)

    def classify(self, case, failure):
        if case.get("kind") != "chain":
            return None
        return classify_lazy(case, failure)

    def has_model(self, case):
        # containers holding a compound member mix element kinds in one store: outside the model (oracle only)
        return not (case.get("kind") == "chain" and any(s["t"] == "of_date" for s in case["steps"]))

    def oracle(self, case):
        if case["kind"] == "schema":
            return oracle_schema(case)
        return oracle_chain(case)

    def nontrivial(self, case, obs):
        if case["kind"] == "schema":
            return any(len(d["bases"]) >= 2 for d in case["decls"])
        ok = sum(1 for s, o in zip(case["steps"], obs["steps"]) if o["r"] == "ok" and s["t"] != "inst")
        return ok >= 3 and any(s["t"] == "inst" for s in case["steps"])

    def tags(self, case, obs):
        if case["kind"] == "schema":
            return ["kind=schema", "decls=%d" % len(case["decls"]),
                    "max-bases=%d" % max(len(d["bases"]) for d in case["decls"])]
        t = ["kind=chain", "base=%s" % case["base"], "steps=%d" % len(case["steps"])]
        # histGuard (Proofs/C06.lean): no step lazily prepares a class in the MRO of an existing class, i.e. no
        # instantiation changed an existing class; where it fails only frame_history_any / preparedOf_history apply
        lazy = any(s["t"] == "inst" and o["changed"] for s, o in zip(case["steps"], obs["steps"]))
        t.append("histGuard=%s" % ("fails-for-some-class" if lazy else "holds-for-every-class"))
        if obs.get("_caller_alias"):
            t.append("descent_validators-list-aliased-with-caller")
        for s, o in zip(case["steps"], obs["steps"]):
            t.append("step=%s:%s" % (s["t"], o["r"]))
            if s["t"] == "inst" and s["kw"]:
                t.append("inst-with-overrides")
                t += ["inst-override=%s%s" % (a, "+value" if s.get("val") else "") for a, _ in s["kw"]]
            if s["t"] == "inst" and s.get("val"):
                t.append("inst-with-value")
        return sorted(set(t))

    def shrink_candidates(self, case):
        if case["kind"] == "schema":
            for i in range(len(case["decls"]) - 1, -1, -1):
                if not any(i in d["bases"] for d in case["decls"]):
                    c = copy.deepcopy(case)
                    del c["decls"][i]
                    for d in c["decls"]:
                        d["bases"] = [b - 1 if b > i else b for b in d["bases"]]
                    yield c
            for i, d in enumerate(case["decls"]):
                for key in ("attrs", "fs"):
                    for j in range(len(d.get(key) or [])):
                        c = copy.deepcopy(case)
                        del c["decls"][i][key][j]
                        yield c
            return
        makers = _class_makers(case)
        made_by = {v: k for k, v in makers.items() if v is not None}
        for i in range(len(case["steps"]) - 1, -1, -1):
            step = case["steps"][i]
            cid = made_by.get(i)
            later = case["steps"][i + 1:]
            if cid is not None:
                refs = any(s["c"] == cid or cid in s.get("members", []) for s in later)
                if refs:
                    continue
            hidden = [k for k, v in makers.items() if v is None]
            if step["t"] == "inst" and any(True for k in hidden):
                # a compound instantiation may have created a class; only drop it when it is the last step
                if i != len(case["steps"]) - 1:
                    continue
            c = copy.deepcopy(case)
            del c["steps"][i]
            if cid is not None:
                for s in c["steps"][i:]:
                    if s["c"] > cid:
                        s["c"] -= 1
                    if "members" in s:
                        s["members"] = [m - 1 if m > cid else m for m in s["members"]]
            yield c
        for i, step in enumerate(case["steps"]):
            for key in ("kw", "vs", "pairs", "values"):
                for j in range(len(step.get(key) or [])):
                    c = copy.deepcopy(case)
                    del c["steps"][i][key][j]
                    yield c


PROP = C06()
