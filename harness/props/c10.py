"""C10 — Mapping elements hold exactly the schema's fields, always as elements."""
from harness.core import Property, canon
from harness.props import g1common as G


# ---------------------------------------------------------------- observation

def view(ex, info):
    """the mapping at the root as the *underlying dict* shows it (bypassing the element API)"""
    from flatland.schema.base import Element
    rows = []
    for k, v in dict.items(ex.root):
        if isinstance(v, Element):
            cid = ex.classes.cid_of.get(type(v), "class:" + type(v).__name__)
            rows.append([k if isinstance(k, str) else {"repr": type(k).__name__}, ex.lab(v), cid, v.name,
                         ex.lab(v.parent), G.sv(v)])
        else:
            rows.append([k if isinstance(k, str) else {"repr": type(k).__name__}, None, "raw:" + type(v).__name__,
                         None, None, G.vj(v)])
    return {"items": rows}


# ---------------------------------------------------------------- oracle

def named_keys(op):
    """keys an op names (for the undeclared-key clause)"""
    if op is None:
        return []
    n = op["op"]
    if n in ("setitem", "delitem", "pop", "setdefault", "get"):
        return [op["k"]]
    if n == "update":
        ks = []
        pos = op.get("pos")
        if isinstance(pos, dict):
            ks += [k for k, _ in pos.get("d", pos.get("p", []))]
        ks += [k for k, _ in op.get("kw", [])]
        return ks
    if n == "update_items":
        return [k for k, _ in op["items"]]
    if n == "ior":
        v = op.get("v")
        if isinstance(v, dict):
            return [k for k, _ in v.get("d", v.get("p", []))]
    if n == "set":
        v = op.get("v")
        if isinstance(v, dict):
            return [k for k, _ in v.get("d", v.get("p", []))]
    return []


def check(ex, info):
    from flatland.schema.base import Element
    fails = []
    root = ex.root
    schema = ex.case["schema"]
    kind = schema["k"]
    declared = [f["name"] for f in schema["subs"]]
    required = [f["name"] for f in schema["subs"] if not f["opt"]]
    field_cls = {f.name: f for f in root.field_schema}
    op = info.get("op")
    renamed = False
    if op is not None and op["op"] == "setitem" and info["args"] and info["args"][0][0] == "elem":
        renamed = (op.get("a") or {}).get("rename") is not None
    # an Element of the declared field class handed to a SparseDict is adopted: it must be the stored member
    adopted = []
    if op is not None and kind == "sparse" and info.get("raised") is None and op["op"] in ("setitem", "update_items"):
        keys_args = [(op["k"], info["args"][0])] if op["op"] == "setitem" else \
            list(zip([k for k, _ in op["items"]], info["args"]))
        last = {}
        for k, (tag, v) in keys_args:
            last[k] = (tag, v)
        for k, (tag, v) in last.items():
            if tag == "elem" and k in field_cls and type(v) is field_cls[k]:
                adopted.append((k, v))

    def fail(clause, expected, observed):
        fails.append({"clause": clause, "expected": expected, "observed": observed, "step": info["i"], "op": op,
                      "renamed_arg": renamed, "kind": kind})

    keys = list(dict.keys(root))
    extra = [k for k in keys if k not in declared]
    if extra:
        fail("keys-declared", declared, [k if isinstance(k, str) else repr(k) for k in keys])
    if kind == "dict":
        if sorted(k for k in keys if isinstance(k, str)) != sorted(declared) or len(keys) != len(declared):
            fail("dict-has-every-field", sorted(declared), sorted(str(k) for k in keys))
    elif schema["minreq"]:
        missing = [k for k in required if k not in keys]
        if missing:
            fail("required-fields-present", required, keys)
    for k, v in dict.items(root):
        if not isinstance(v, Element):
            fail("values-are-elements", "Element", type(v).__name__)
            continue
        if k in field_cls and not isinstance(v, field_cls[k]):
            fail("value-of-declared-type", field_cls[k].__name__, type(v).__name__)
        if v.name != k:
            fail("value-named-after-key", k, v.name)
        if v.parent is not root:
            fail("value-parent-is-mapping", "the mapping", "None" if v.parent is None else type(v.parent).__name__)
    for k, v in adopted:
        if dict.get(root, k) is not v:
            fail("element-of-field-class-adopted", "the Element argument is the stored member", "another object is stored")
        elif v.parent is not root:
            fail("adopted-element-parent-is-mapping", "the mapping", "None" if v.parent is None else
                 ("its previous container" if v.parent is ex.foreign_owner.get(id(v)) else type(v.parent).__name__))
    # operations naming an undeclared key are rejected and never add it
    if op is not None and not (isinstance(info["out"], dict) and "skip" in info["out"]):
        und = [k for k in named_keys(op) if k not in declared]
        if und:
            n = op["op"]
            must_raise = n in ("setitem", "delitem", "pop", "setdefault", "get", "update", "ior", "update_items")
            if n == "set":
                pol = op["policy"] if "policy" in op and op["policy"] is not None else schema["policy"]
                must_raise = pol in ("strict", "subset")
            if n in ("update", "ior"):
                # a non-dict-like positional argument raises before any key is looked at: still a raise
                pass
            if must_raise and info["raised"] is None:
                fail("undeclared-key-rejected", "TypeError/KeyError", "returned normally")
            if info["raised"] is not None and n in ("setitem", "delitem", "pop", "setdefault", "get") and \
                    type(info["raised"]).__name__ not in ("TypeError", "KeyError"):
                fail("undeclared-key-rejected", "TypeError/KeyError", type(info["raised"]).__name__)
    return fails


def renamed_subclass_arg(case, failure):
    """class predicate of KF-C10-a"""
    return failure.get("clause") == "value-named-after-key" and failure.get("kind") == "sparse" and \
        _history_has_renamed(case)


def _history_has_renamed(case):
    for o in case["ops"]:
        m = o.get("m") or {}
        if m.get("op") == "setitem" and (m.get("a") or {}).get("rename") is not None:
            return True
    return False


# ---------------------------------------------------------------- the property

def _scalar(cid, k, name, opt=False, default=None):
    return {"cid": cid, "k": k, "name": name, "opt": opt, "policy": "subset", "minreq": False, "isa": [],
            "default": default, "subs": []}


def _map(kind, fields, cid=1, name=None, policy="subset", minreq=False, default=None):
    return {"cid": cid, "k": kind, "name": name, "opt": False, "policy": policy, "minreq": minreq, "isa": [],
            "default": default, "subs": fields}


def _op(m):
    return {"t": 0, "m": m}


class C10(Property):
    id = "C10"
    title = "Mapping elements hold exactly the schema's fields, always as elements"
    proof_module = "Proofs.C10"
    theorems = [
        "Flatland.C10.Proofs.mapinv_init",
        "Flatland.C10.Proofs.mapinv_step",
        "Flatland.C10.Proofs.mapinv_run",
        "Flatland.C10.Proofs.named_after_key",
        "Flatland.C10.Proofs.undeclared_rejected",
        "Flatland.C10.Proofs.C10_full_fails",
    ]
    level_text = "proof (partial)"
    level_note = ("mapinv_init/mapinv_step/mapinv_run: the mapping invariant (declared keys only, Dict = exactly its "
                  "fields in order, required fields of a sparse-required mapping, children of the declared class under "
                  "the field's name with the mapping as stored parent) holds initially and is preserved by every "
                  "dict-protocol call, accepted or rejected, under the hypothesis that an Element argument passing "
                  "isinstance is of the field class itself; without it the statement is refuted (C10_full_fails, "
                  "KF-C10-a). set_flat and Compound are covered by the Python oracle only")
    technique = "invariant proof over operation histories (Lean 4) + differential testing against the implementation"
    trusted_base = [
        "dict insertion order and key replacement semantics of CPython dict (modelled as an ordered list of children)",
        "`isinstance(value, field_schema)` modelled as class identity or derivation (cid / isa)",
    ]
    assumptions = [
        "Compound (DateYYYYMMDD) is exercised by the Python oracle only where it behaves as a Mapping; its compose/"
        "explode logic belongs to C18",
        "field names are non-empty and distinct (Dict.of enforces distinctness)",
        "Element arguments are fresh or detached (no aliasing)",
    ]
    rule = ("histories of 1-14 dict-protocol calls (item assignment with plain values / fresh Elements / detached "
            "Elements / Elements of a renamed subclass, del, pop, popitem, clear, update positional dict|pairs|junk and "
            "keyword, |=, setdefault, get, set under explicit policy strict/subset/duck/None or the class policy, "
            "set_default) over declared and undeclared keys, on a Dict or SparseDict (minimum_fields None/'required') "
            "with 1-3 fields (Integer/String/List/Dict, optional or not, with defaults); non-trivial = at least 3 calls "
            "changed the mapping or raised")
    quick_n = 40000
    thorough_n = 300000

    # cases are tiny (< 10 ms); the alarm only guards against a genuine hang (e.g. a cycle of parent pointers).
    # 10 s proved too tight on a shared, oversubscribed machine: thorough runs saw spurious alarms on cases
    # that replay in 0.1 s.
    case_timeout = 60

    def __init__(self):
        self._cache = (None, None)

    def corpus(self):
        a = _scalar(2, "string", "a")
        out = []
        # fixed 9bbad55: d |= {'zzz': 1, 'a': 'q'} stored raw values and the undeclared key
        out.append({"schema": _map("dict", [a]), "init": {"route": "ctor", "value": None},
                    "ops": [_op({"op": "ior", "v": {"d": [["zzz", 1], ["a", "q"]]}}),
                            _op({"op": "ior", "v": {"d": [["a", "q"]]}})]})
        out.append({"schema": _map("sparse", [a, _scalar(3, "integer", "b", opt=True)], minreq=True),
                    "init": {"route": "ctor", "value": None},
                    "ops": [_op({"op": "ior", "v": {"d": [["b", 1], ["zzz", 1]]}}), _op({"op": "pop", "k": "b"}),
                            _op({"op": "pop", "k": "a"}), _op({"op": "delitem", "k": "a"}), _op({"op": "clear"})]})
        # open KF-C10-a: an Element of a renamed subclass is stored under the key with its foreign name
        out.append({"schema": _map("sparse", [a]), "init": {"route": "ctor", "value": None},
                    "ops": [_op({"op": "setitem", "k": "a", "a": {"new": "v", "rename": "zz", "cid": 100001}})]})
        # an Element of the declared field class that belongs to ANOTHER mapping, assigned onto a present and an
        # absent key through __setitem__, update(dict/kw/pairs) and |= : it is adopted and re-parented
        X = _scalar(2, "integer", "x")
        Y = _scalar(3, "integer", "y")
        for form in ("dict", "kw", "pairs", "ior"):
            out.append({"schema": _map("sparse", [X, Y], name="form"), "init": {"route": "ctor_value", "value": {"d": [["x", 1]]}},
                        "ops": [_op({"op": "setitem", "k": "x", "a": {"new": 5, "foreign": True}}),
                                _op({"op": "setitem", "k": "y", "a": {"new": 7, "foreign": True}}),
                                _op({"op": "update_items", "form": form, "items": [["x", {"new": 9, "foreign": True}],
                                                                                  ["y", {"new": 8, "foreign": True}]]}),
                                _op({"op": "pop", "k": "x"}),
                                _op({"op": "update_items", "form": form, "items": [["x", {"pool": 0}], ["y", {"pool": 0}]]})]})
        return out

    def generate(self, rng, n, tier):
        for _ in range(n):
            cid = G.Counter()
            kind = rng.choice(["dict", "sparse", "sparse"])
            root_cid = cid()
            names = rng.sample(G.NAMES, rng.randint(1, 3))
            fields = []
            for nm in names:
                r = rng.random()
                if r < 0.75:
                    f = G.gen_schema(rng, cid, 0, name=nm)
                else:
                    f = G.gen_schema(rng, cid, 1, name=nm, kinds=["list", "dict", "array", "sparse"])
                fields.append(f)
            schema = _map(kind, fields, cid=root_cid, name=rng.choice([None, "d"]),
                          policy=rng.choice(["subset", "subset", "strict", "duck", "none"]),
                          minreq=(kind == "sparse" and rng.random() < 0.5))
            hostile = rng.random() < 0.2
            if rng.random() < 0.15:
                schema["default"] = G.gen_value(rng, schema, valid=True)
            route = rng.choice(["ctor", "ctor", "ctor_value", "ctor_value", "set", "from_defaults", "set_default"])
            init = {"route": route, "value": G.gen_value(rng, schema, valid=not hostile)}
            nops = rng.choice([1, 2, 3, 4, 6, 8, 10, 14])
            ops = [_op(G.gen_map_op(rng, schema, valid=not hostile)) for _ in range(nops)]
            yield {"schema": schema, "init": init, "ops": ops}

    def _run(self, case):
        key = canon(case)
        if self._cache[0] == key:
            return self._cache[1]
        ex = G.Exec(case, view, check)
        obs = ex.run()
        self._cache = (key, (obs, ex.failures))
        return self._cache[1]

    def run_impl(self, case):
        return self._run(case)[0]

    def oracle(self, case):
        return list(self._run(case)[1])

    def compare(self, impl_obs, model_obs):
        if isinstance(model_obs, dict) and model_obs.get("unsupported"):
            return None
        return super().compare(impl_obs, model_obs)

    def classify(self, case, failure):
        if renamed_subclass_arg(case, failure):
            return "KF-C10-a"
        return None

    def nontrivial(self, case, obs):
        if any("view_raises" in st["view"] for st in obs["steps"]):
            return True
        steps = obs["steps"]
        changed = 0
        for a, b in zip(steps, steps[1:]):
            if a["view"]["items"] != b["view"]["items"] or (isinstance(b["out"], dict) and "exc" in b["out"]):
                changed += 1
        return changed >= 3

    def tags(self, case, obs):
        if any("view_raises" in st["view"] for st in obs["steps"]):
            return ["view-raises"]
        s = case["schema"]
        t = ["kind=" + s["k"] + ("+required" if s["minreq"] else ""), "policy=" + s["policy"],
             "route=" + case["init"]["route"], "ops=%d" % len(case["ops"])]
        declared = [f["name"] for f in s["subs"]]
        for o, st, prev in zip(case["ops"], obs["steps"][1:], obs["steps"]):
            out = st["out"]
            name = o["m"]["op"]
            und = any(k not in declared for k in named_keys(o["m"]))
            suffix = ":undeclared" if und else ""
            if isinstance(out, dict) and "exc" in out:
                t.append("op:%s:%s%s" % (name, out["exc"], suffix))
            elif isinstance(out, dict) and "skip" in out:
                t.append("skip:" + out["skip"].split(":")[0])
            else:
                t.append("op:%s:ok%s" % (name, suffix))
            a = o["m"].get("a") or {}
            for a in [a] + [x for _, x in o["m"].get("items", [])]:
                if "rename" in a:
                    t.append("arg:renamed-subclass")
                elif "new" in a or "pool" in a:
                    t.append("arg:element")
                if a.get("foreign"):
                    t.append("arg:element-owned-by-another-container")
                    present = any(r[0] == (o["m"].get("k") if name == "setitem" else None) for r in prev["view"].get("items", []))
                    if name == "setitem":
                        t.append("foreign-onto-%s-key" % ("present" if present else "absent"))
            if name == "set" and "policy" in o["m"]:
                t.append("set-policy=%s" % o["m"]["policy"])
        return sorted(set(t))

    def shrink_candidates(self, case):
        yield from G.shrink_history(case)


PROP = C10()
