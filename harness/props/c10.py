"""C10 — Mapping elements hold exactly the schema's fields, always as elements."""
from harness.core import Property, canon
from harness.props import g1common as G


# ---------------------------------------------------------------- Compound classes, flat stream (this file only)

class Classes10(G.Classes):
    """`date` with user-supplied fields: DateYYYYMMDD.using(field_schema=[first k subs]) — the preparation
    (`__compound_init__`, lazily at the first instantiation) completes the list"""

    def build(self, sj):
        if sj["k"] == "date" and sj.get("supplied"):
            import flatland
            k = sj["supplied"]
            given = [self.build(s) for s in sj["subs"][:k]]
            cls = flatland.DateYYYYMMDD.using(field_schema=given).named(sj["name"]).using(optional=bool(sj["opt"]))
            if sj["default"] is not None:
                cls = cls.using(default=G.py(sj["default"]))
            self.register(sj["cid"], cls, "date")
            return cls
        if sj["k"] == "date" and sj["default"] is not None:
            cls = G.Classes.build(self, dict(sj, default=None)).using(default=G.py(sj["default"]))
            self.register(sj["cid"], cls, "date")
            return cls
        if sj.get("decl"):
            return self.build_decl(sj)
        return G.Classes.build(self, sj)

    def build_decl(self, sj):
        """the class is DECLARED: `class X(Schema)` / `SparseSchema` / `Form`, single and multiple inheritance,
        attribute declarations, `field_schema = [...]` lists, `Dict.of(...)` classes among the bases"""
        import flatland
        d = sj["decl"]
        sparse = d["base"] == "sparse_schema"
        base0 = {"schema": flatland.Schema, "sparse_schema": flatland.SparseSchema, "form": flatland.Form}[d["base"]]
        pool = [self.build(p) for p in d["pool"]]
        made = {}
        for c in d["classes"]:
            if c.get("dict_of") is not None:
                made[c["id"]] = (flatland.SparseDict if sparse else flatland.Dict).of(*[pool[i] for i in c["dict_of"]])
            else:
                bases = tuple(made[b] for b in c["bases"])
                if not any(issubclass(b, base0) for b in bases):
                    bases = (base0,) + bases
                members = {}
                if c.get("field_schema") is not None:
                    members["field_schema"] = [pool[i] for i in c["field_schema"]]
                for name, i in c["attrs"]:
                    members[name] = pool[i]
                made[c["id"]] = type(base0)(str(c["id"]), bases, members)
            if c.get("use"):
                try:
                    inst = made[c["id"]]()
                    inst.field_schema_mapping
                    for f in list(made[c["id"]].field_schema)[:2]:
                        inst._field_schema_for(f.name)
                except Exception:
                    pass
        cls = made[d["classes"][-1]["id"]].named(sj["name"])
        over = {"optional": bool(sj["opt"]), "policy": None if sj["policy"] == "none" else sj["policy"]}
        if sj["default"] is not None:
            over["default"] = G.py(sj["default"])
        if sparse:
            over["minimum_fields"] = "required" if sj["minreq"] else None
        cls = cls.using(**over)
        self.register(sj["cid"], cls, sj["k"])
        return cls


def decl_overlay(d):
    """the documented overlay, computed from the DECLARATION (never read from a class): a class's fields are its
    bases' fields — left-most base first, a name already collected is skipped — overlaid by its own `field_schema`
    list and then by its own attribute declarations (an own declaration replaces the inherited field of that name)"""
    pool = d["pool"]
    fields = {}
    for c in d["classes"]:
        if c.get("dict_of") is not None:
            fields[c["id"]] = list(c["dict_of"])
            continue
        out = []
        for b in c["bases"]:
            for i in fields[b]:
                if pool[i]["name"] not in [pool[j]["name"] for j in out]:
                    out.append(i)
        for i in list(c.get("field_schema") or []) + [i for _, i in c["attrs"]]:
            out = [j for j in out if pool[j]["name"] != pool[i]["name"]] + [i]
        fields[c["id"]] = out
    return fields


def _mro_ok(classes):
    """would Python accept the class graph?  (stand-ins with the same shape: Dict <- Schema, Dict <- Dict.of(...))"""
    DictB = type("DictB", (), {})
    SchemaB = type("SchemaB", (DictB,), {})
    made = {}
    try:
        for c in classes:
            if c.get("dict_of") is not None:
                made[c["id"]] = type(str(c["id"]), (DictB,), {})
                continue
            bases = tuple(made[b] for b in c.get("bases", []))
            if not any(issubclass(b, SchemaB) for b in bases):
                bases = (SchemaB,) + bases
            made[c["id"]] = type(str(c["id"]), bases, {})
    except TypeError:
        return False
    return True


def gen_decl(rng, cid, sparse):
    """a declaration: a pool of field classes (several DIFFERENT classes may carry the same name) and a small class graph"""
    names = rng.sample(G.NAMES, rng.randint(2, 4))
    pool = []
    for nm in names:
        for _ in range(rng.choice([1, 2, 2, 3])):
            f = G.gen_schema(rng, cid, 0, name=nm) if rng.random() < 0.85 else \
                G.gen_schema(rng, cid, 1, name=nm, kinds=["list", "dict", "array", "sparse"])
            pool.append(f)
    byname = {}
    for i, f in enumerate(pool):
        byname.setdefault(f["name"], []).append(i)

    def attrs(p=0.5, names_=None):
        out = []
        for nm in (names_ or names):
            if rng.random() < p:
                out.append([nm, rng.choice(byname[nm])])
        rng.shuffle(out)
        return out

    for _ in range(30):
        r = rng.random()
        if r < 0.25:
            # a true diamond: one arm overrides a field of the root, the other inherits it
            n0 = names[0]
            a, b = (byname[n0] * 2)[:2]
            root = {"id": "Root", "bases": [], "attrs": [[n0, a]] + attrs(0.6, names[1:])}
            left = {"id": "Left", "bases": ["Root"], "attrs": [[n0, b]] + attrs(0.2, names[1:])}
            right = {"id": "Right", "bases": ["Root"], "attrs": attrs(0.4, names[1:])}
            arms = ["Left", "Right"] if rng.random() < 0.6 else ["Right", "Left"]
            classes = [root, left, right, {"id": "Diamond", "bases": arms, "attrs": attrs(0.15)}]
        elif r < 0.45:
            # unrelated bases declaring the same name
            n0 = names[0]
            ids = ["P", "Q", "R"][:rng.choice([2, 2, 3])]
            classes = [{"id": x, "bases": [], "attrs": [[n0, rng.choice(byname[n0])]] + attrs(0.5, names[1:])} for x in ids]
            rng.shuffle(ids)
            classes.append({"id": "Both", "bases": ids, "attrs": attrs(0.15)})
        else:
            classes = []
            for k in range(rng.choice([1, 2, 3, 4, 5])):
                earlier = [c["id"] for c in classes]
                nb = min(len(earlier), rng.choice([0, 1, 1, 2, 2, 3]))
                c = {"id": "K%d" % k, "bases": rng.sample(earlier, nb), "attrs": attrs(0.5 if nb == 0 else 0.3)}
                if nb == 0 and rng.random() < 0.15:
                    c = {"id": "K%d" % k, "bases": [], "attrs": [], "dict_of": [i for _, i in attrs(0.7)] or [0]}
                elif rng.random() < 0.2:
                    c["field_schema"] = [i for _, i in attrs(0.5)]       # `field_schema = [...]` in the class body
                classes.append(c)
            if classes[-1].get("dict_of") is not None:
                classes.append({"id": "Last", "bases": [classes[-1]["id"]], "attrs": attrs(0.3)})
        for c in classes:
            if rng.random() < 0.25:
                c["use"] = True          # an instance of the intermediate class is built before the next class is declared
        d = {"base": "sparse_schema" if sparse else rng.choice(["schema", "schema", "form"]), "pool": pool, "classes": classes}
        if not _mro_ok(classes):
            continue
        final = decl_overlay(d)[classes[-1]["id"]]
        if final:
            return d, [dict(pool[i]) for i in final]
    classes = [{"id": "K0", "bases": [], "attrs": [[names[0], byname[names[0]][0]]]}]
    d = {"base": "sparse_schema" if sparse else "schema", "pool": pool, "classes": classes}
    return d, [dict(pool[byname[names[0]][0]])]


def decl_tags(d):
    t = ["decl:base=" + d["base"], "decl:classes=%d" % len(d["classes"])]
    pool = d["pool"]
    fields = decl_overlay(d)
    for c in d["classes"]:
        if len(c.get("bases", [])) >= 2:
            t.append("decl:multiple-inheritance")
            seen = {}
            for b in c["bases"]:
                for i in fields[b]:
                    nm = pool[i]["name"]
                    if nm in seen:
                        t.append("decl:overlap-same-class" if seen[nm] == i else "decl:overlap-DIFFERENT-class")
                    else:
                        seen[nm] = i
        inherited = {pool[i]["name"] for b in c.get("bases", []) for i in fields[b]}
        if any(nm in inherited for nm, _ in c.get("attrs", [])):
            t.append("decl:override-in-class-body")
        if c.get("field_schema") is not None:
            t.append("decl:field_schema-list")
        if c.get("dict_of") is not None:
            t.append("decl:Dict.of-base")
    return t


class Exec10(G.Exec):
    def __init__(self, case, view, check=None):
        G.Exec.__init__(self, dict(case, schema=_ctor_safe(case["schema"])), view, check)
        self.labels = {}
        self.case = case
        self.classes = Classes10()
        self.root_cls = self.classes.build(case["schema"])


def _ctor_safe(sj):
    """G.Exec.__init__ builds the class once with the shared registry; give it a schema it understands"""
    if sj.get("decl"):
        return {k: v for k, v in sj.items() if k != "decl"}
    return sj


def register_compound_fields(ex):
    """the classes a Compound's preparation generated get the class ids of the case (positionally)"""
    for sj in G.walk_schemas(ex.case["schema"]):
        if sj["k"] != "date":
            continue
        cls = ex.classes.by_cid.get(sj["cid"])
        if cls is None or not cls.__dict__.get("_compound_prepared"):
            continue
        for f, s2 in zip(cls.field_schema, sj["subs"]):
            if f not in ex.classes.cid_of:
                ex.classes.register(s2["cid"], f, "integer")


def _skel(e):
    if "leaf" in e or "joined" in e:
        return None
    if "dict" in e:
        return {"d": [[k, _skel(v)] for k, v in e["dict"]]}
    return {"l": [_skel(v) for v in e.get("list", e.get("array", []))]}


def flat_run(fc):
    """(skeletons, oracle failures) of `cls(); set_flat(round_1); set_flat(round_2) ...` on the real code"""
    from harness import flatlib as fl
    cls = fl.build_class(fc["schema"], fc["kinds"])
    el = cls()
    skels = [_skel(fl.extract(el, fc["schema"]))]
    fails = flat_check(el, fc["schema"], 0)
    for i, ps in enumerate(fc["rounds"], 1):
        try:
            el.set_flat([tuple(p) for p in ps], fc["sep"])
        except Exception as e:
            return {"raise": type(e).__name__, "round": i}, fails + [
                {"clause": "set_flat-total", "expected": "returns", "observed": type(e).__name__, "round": i}]
        try:
            fails += flat_check(el, fc["schema"], i)
            skels.append(_skel(fl.extract(el, fc["schema"])))
        except Exception as e:
            if type(e).__name__ == "CaseTimeout":
                raise
            # a tree whose members are not what their keys say cannot even be walked by the schema
            skels.append({"raises": type(e).__name__})
            fails.append({"clause": "flat:tree-walkable-by-schema", "expected": "every member is an element of its field's class",
                          "observed": type(e).__name__, "round": i})
            break
    return {"skeletons": skels}, fails


def flat_check(el, s, rnd):
    """the C10 invariant on EVERY mapping of the real tree (dict.items, bypassing the element API)"""
    from harness import flatlib as fl
    from flatland.schema.base import Element
    fails = []
    for e, sc in fl.walk_elements(el, s):
        if sc["t"] not in ("dict", "compound"):
            continue
        fields = list(type(e).field_schema)
        names = [f.name for f in fields]
        by = {f.name: f for f in fields}
        keys = list(dict.keys(e))

        def fail(clause, expected, observed):
            fails.append({"clause": "flat:" + clause, "expected": expected, "observed": observed, "round": rnd,
                          "mapping": sc.get("name"), "mode": sc.get("mode", "compound")})
        if [k for k in keys if k not in by]:
            fail("keys-declared", names, [str(k) for k in keys])
        if len(set(names)) != len(names):
            continue        # the class itself declares a name twice: outside the property's domain
        mode = sc.get("mode", "dense")
        if mode == "dense" and sorted(map(str, keys)) != sorted(names):
            fail("dict-has-every-field", sorted(names), sorted(map(str, keys)))
        if mode == "sparseReq":
            missing = [f.name for f in fields if not f.optional and f.name not in keys]
            if missing:
                fail("required-fields-present", [f.name for f in fields if not f.optional], keys)
        seen = set()
        for k, v in dict.items(e):
            if not isinstance(v, Element):
                fail("values-are-elements", "Element", type(v).__name__)
                continue
            if k in by and not isinstance(v, by[k]):
                fail("value-of-declared-type", by[k].__name__, type(v).__name__)
            if v.name != k:
                fail("value-named-after-key", k, v.name)
            if v.parent is not e:
                fail("value-parent-is-mapping", "the mapping", type(v.parent).__name__)
            if v.name in seen:
                fail("one-member-per-field", "distinct member names", v.name)
            seen.add(v.name)
    return fails


def gen_flat_case(rng):
    import sys
    from harness import flatlib as fl
    from harness.props import c02
    sep = rng.choice(["_", "_", "_", ".", "__", "-"])
    for _ in range(20):
        kinds = []
        schema = fl.gen_schema(rng, sep, rng.choice([1, 2, 2, 3]), kinds)
        if schema["t"] in ("dict", "compound"):
            break
    else:
        kinds = []
        schema = {"t": "dict", "name": rng.choice([None, "m"]), "opt": False, "mode": rng.choice(["dense", "sparse", "sparseReq"]),
                  "fields": [fl.gen_schema(rng, sep, 1, kinds, root=False, named=n) for n in ("a", "ab", "b")]}
    rounds = [c02.gen_pairs(rng, schema, sep) for _ in range(rng.choice([1, 1, 2, 3]))]
    return {"flat": {"schema": schema, "kinds": kinds, "sep": sep, "rounds": rounds, "nd": fl.nd_table(),
                     "maxdigits": sys.get_int_max_str_digits()}}


# ---------------------------------------------------------------- observation

def view(ex, info):
    """the mapping at the root as the *underlying dict* shows it (bypassing the element API)"""
    from flatland.schema.base import Element
    register_compound_fields(ex)
    rows = []
    for k, v in dict.items(ex.root):
        if isinstance(v, Element):
            cid = ex.classes.cid_of.get(type(v), "class:" + type(v).__name__)
            rows.append([k if isinstance(k, str) else {"repr": type(k).__name__}, ex.lab(v), cid, v.name,
                         ex.lab(v.parent), G.sv(v)])
        else:
            rows.append([k if isinstance(k, str) else {"repr": type(k).__name__}, None, "raw:" + type(v).__name__,
                         None, None, G.vj(v)])
    return {"items": rows}


# ---------------------------------------------------------------- oracle

def named_keys(op):
    """keys an op names (for the undeclared-key clause)"""
    if op is None:
        return []
    n = op["op"]
    if n in ("setitem", "delitem", "pop", "setdefault", "get"):
        return [op["k"]]
    if n == "update":
        ks = []
        pos = op.get("pos")
        if isinstance(pos, dict):
            ks += [k for k, _ in pos.get("d", pos.get("p", []))]
        ks += [k for k, _ in op.get("kw", [])]
        return ks
    if n == "update_items":
        return [k for k, _ in op["items"]]
    if n == "ior":
        v = op.get("v")
        if isinstance(v, dict):
            return [k for k, _ in v.get("d", v.get("p", []))]
    if n == "set":
        v = op.get("v")
        if isinstance(v, dict):
            return [k for k, _ in v.get("d", v.get("p", []))]
    return []


def _arg_own_name(spec):
    """the name an Element argument carries when it differs from its field's: subclass rename or name= keyword"""
    if not isinstance(spec, dict):
        return None
    return spec.get("inst_name") if spec.get("inst_name") is not None else spec.get("rename")


def check(ex, info):
    from flatland.schema.base import Element
    fails = []
    root = ex.root
    schema = ex.case["schema"]
    kind = G.kind_of_element(root)
    field_cls = {f.name: f for f in root.field_schema}
    declared = list(field_cls)
    required = [f.name for f in root.field_schema if not f.optional]
    class_names = [f.name for f in type(root).field_schema]
    class_dups = sorted({n for n in class_names if class_names.count(n) > 1})
    if schema.get("decl"):
        # the EXPECTED declaration (documented overlay computed by the case), not what the class says
        field_cls = {s2["name"]: ex.classes.by_cid[s2["cid"]] for s2 in schema["subs"]}
        declared = list(field_cls)
        required = [s2["name"] for s2 in schema["subs"] if not s2["opt"]]
    minreq = kind == "sparse" and getattr(root, "minimum_fields", None) == "required"
    dense = kind in ("dict", "date")
    op = info.get("op")
    memo = ex.memo
    known_bad = memo.setdefault("bad", set())          # offenders already reported (a violation persists)
    skipped = isinstance(info.get("out"), dict) and "skip" in info["out"]

    # the arguments of this call, per key (last one wins), with their case specs
    keyed = {}
    all_args = []
    if op is not None and not skipped and op["op"] in ("setitem", "update_items"):
        specs = [(op["k"], op["a"])] if op["op"] == "setitem" else [(k, a) for k, a in op["items"]]
        all_args = list(zip(specs, info["args"]))
        for (k, spec), arg in all_args:
            keyed[k] = (spec, arg)
    adopted = []
    if kind == "sparse" and op is not None and info.get("raised") is None:
        for k, (spec, (tag, v)) in keyed.items():
            if tag == "elem" and k in field_cls and type(v) is field_cls[k]:
                adopted.append((k, v))

    def fail(clause, expected, observed, **extra):
        d = {"clause": clause, "expected": expected, "observed": observed, "step": info["i"], "op": op, "kind": kind}
        d.update(extra)
        fails.append(d)

    if info.get("init"):
        if class_dups:
            fail("class-fields-distinct", "every field name once in field_schema", class_names, duplicated=class_dups)
        if schema.get("decl"):
            got = [(f.name, ex.classes.cid_of.get(f, "class:" + f.__name__)) for f in type(root).field_schema]
            want = [(s2["name"], s2["cid"]) for s2 in schema["subs"]]
            if sorted(map(repr, got)) != sorted(map(repr, want)):
                fail("class-fields-as-declared", want, got, duplicated=class_dups)
    if class_dups and not schema.get("decl"):
        return fails        # outside the domain of the remaining clauses (reported once, above)
    keys = list(dict.keys(root))
    extra_keys = [k for k in keys if k not in declared]
    if extra_keys:
        fail("keys-declared", declared, [k if isinstance(k, str) else repr(k) for k in keys])
    if dense:
        if sorted(k for k in keys if isinstance(k, str)) != sorted(declared) or len(keys) != len(declared):
            fail("dict-has-every-field", sorted(declared), sorted(str(k) for k in keys))
    elif minreq:
        missing = [k for k in required if k not in keys]
        newly = [k for k in missing if ("missing", k) not in known_bad]
        for k in list(known_bad):
            if k[0] == "missing" and k[1] not in missing:
                known_bad.discard(k)
        for k in newly:
            known_bad.add(("missing", k))
            before = (info.get("before_items") or {}).get(k) if info.get("target") is root else None
            fail("required-fields-present", required, keys, key=k,
                 removed_by=(op or {}).get("op"), removed_key=(op or {}).get("k"),
                 member_optional=bool(getattr(before, "optional", False)) if before is not None else None,
                 field_optional=bool(field_cls[k].optional))
    for k, v in dict.items(root):
        if not isinstance(v, Element):
            fail("values-are-elements", "Element", type(v).__name__)
            continue
        if k in field_cls and not isinstance(v, field_cls[k]):
            fail("value-of-declared-type", field_cls[k].__name__, type(v).__name__)
        if v.name != k and ("name", k, id(v)) not in known_bad:
            known_bad.add(("name", k, id(v)))
            spec = None
            for (k2, sp), (tag, av) in all_args:
                if k2 == k and av is v:
                    spec = sp            # the argument of this call that IS the stored member
            fail("value-named-after-key", k, v.name,
                 placed_now=spec is not None, arg_own_name=_arg_own_name(spec))
        if v.parent is not root:
            fail("value-parent-is-mapping", "the mapping", "None" if v.parent is None else type(v.parent).__name__)
    # (two members under one key cannot be observed on a Python dict; the model's list representation is where
    #  `sparse_keys_nodup` has content.  What CAN be observed: two keys that spell the same text)
    if len({str(k) for k in keys}) != len(keys):
        fail("one-member-per-field", "pairwise distinct keys", [repr(k) for k in keys])
    if kind == "date":
        if len(root.field_schema) != 3:
            fail("compound-prepared", "three fields after __compound_init__", [f.name for f in root.field_schema])
        k0 = schema.get("supplied") or 0
        if [f.name for f in root.field_schema] != [f["name"] for f in schema["subs"]]:
            fail("compound-prepared", [f["name"] for f in schema["subs"]], [f.name for f in root.field_schema], supplied=k0)
        # no call on a Compound ever replaces a member (set() = explode assigns INTO the members)
        bi = info.get("before_items") if info.get("target") is root else None
        if bi is not None and not skipped and [id(v) for v in bi.values()] != [id(v) for v in dict.values(root)]:
            fail("compound-members-kept", "the same member objects before and after the call",
                 "members replaced by %s" % (op or {}).get("op"))
        # set(text): the members hold the date the text DENOTES (any Unicode decimal digits, Unicode whitespace
        # stripped), or None each if it denotes none — read independently of the library's regex and of int()
        if op is not None and not skipped and info.get("target") is root and op["op"] == "set" and "policy" not in op \
                and isinstance(op.get("v"), str) and info.get("raised") is None \
                and all(G.kind_of_class(type(dict.__getitem__(root, f.name))) == "integer" for f in root.field_schema
                        if dict.__contains__(root, f.name)) and len(dict.keys(root)) == 3:
            want = read_date_text(op["v"]) or [None, None, None]
            got = [dict.__getitem__(root, f.name).value for f in root.field_schema]
            if got != want:
                fail("compound-date-text-explodes", want, got, text=op["v"], codepoints=[ord(c) for c in op["v"]])
    for k, v in adopted:
        if dict.get(root, k) is not v:
            fail("element-of-field-class-adopted", "the Element argument is the stored member", "another object is stored")
        elif v.parent is not root:
            fail("adopted-element-parent-is-mapping", "the mapping", "None" if v.parent is None else
                 ("its previous container" if v.parent is ex.foreign_owner.get(id(v)) else type(v.parent).__name__))
    # a plain scalar assigned to a declared scalar field is accepted
    if op is not None and not skipped and info.get("target") is root and op["op"] == "setitem" and info.get("raised") is not None \
            and op["k"] in field_cls and info["args"] and info["args"][0][0] == "plain" \
            and (info["args"][0][1] is None or isinstance(info["args"][0][1], (int, str))) \
            and G.kind_of_class(field_cls[op["k"]]) in ("integer", "string"):
        fail("declared-key-accepted", "item assignment of a plain scalar to a declared scalar field succeeds",
             type(info["raised"]).__name__)
    # operations naming an undeclared key are rejected and never add it
    if op is not None and not skipped and info.get("target") is root:
        und = [k for k in named_keys(op) if k not in declared]
        if und:
            n = op["op"]
            must_raise = n in ("setitem", "delitem", "pop", "setdefault", "get", "update", "ior", "update_items")
            if n == "set":
                pol = op["policy"] if "policy" in op and op["policy"] is not None else getattr(root, "policy", None)
                must_raise = pol in ("strict", "subset") and kind != "date"
            if must_raise and info["raised"] is None:
                fail("undeclared-key-rejected", "TypeError/KeyError", "returned normally")
            if info["raised"] is not None and n in ("setitem", "delitem", "pop", "setdefault", "get") and \
                    type(info["raised"]).__name__ not in ("TypeError", "KeyError"):
                fail("undeclared-key-rejected", "TypeError/KeyError", type(info["raised"]).__name__)
    return fails


def foreign_name_arg(case, failure):
    """class predicate of KF-C10-a: the member that fails `named after its key` is the Element argument placed by
    THIS call under THAT key, and the name observed is the argument's own name (renamed subclass or name= keyword)"""
    return (failure.get("clause") == "value-named-after-key" and failure.get("kind") == "sparse"
            and failure.get("placed_now") is True and failure.get("arg_own_name") is not None
            and failure.get("observed") == failure.get("arg_own_name")
            and failure.get("expected") != failure.get("observed"))



# ---------------------------------------------------------------- date texts of Compound roots (n3)

import unicodedata as _ud

_ND_ZEROS = [c for c in range(0x110000) if _ud.category(chr(c)) == "Nd" and _ud.digit(chr(c)) == 0]
_UWS = ["\u00a0", "\u3000", "\u2003", "\u1680", "\x1f", "\x85", "\u2028", "\t", " "]


def gen_date_text(rng):
    """a date text for DateYYYYMMDD.set: ASCII, ONE non-ASCII decimal script, mixed scripts, near misses, surrounding
    (Unicode) whitespace / trailing newline.  Returns (text, tag)."""
    import datetime
    d = datetime.date(rng.choice([1, 999, 1900, 2000, 2020, 2024, 9999]), rng.randint(1, 12), rng.randint(1, 28))
    if rng.random() < 0.2:
        d = rng.choice([datetime.date(2024, 2, 29), datetime.date(2000, 2, 29), datetime.date(1, 1, 1)])
    s = d.isoformat()

    def script(t, z):
        return "".join(chr(z + ord(c) - 48) if "0" <= c <= "9" else c for c in t)

    r = rng.random()
    if r < 0.25:
        z = rng.choice(_ND_ZEROS[1:] if rng.random() < 0.6 else [0x660, 0xFF10, 0x966, 0x1D7CE, 0x6F0])
        return script(s, z), "one-script"
    if r < 0.45:
        return "".join(chr(rng.choice(_ND_ZEROS) + ord(c) - 48) if "0" <= c <= "9" and rng.random() < 0.6 else c for c in s), "mixed-scripts"
    if r < 0.70:
        z = rng.choice([48, 0x660, 0xFF10, 0x966])
        miss = rng.choice([
            "%d-%d-%d" % (d.year, d.month, d.day),                       # '2024-2-29': field widths
            script("2024-02-30", z), script("2023-02-29", z), script("2024-13-01", z), script("2024-00-10", z),
            script("0000-01-01", z), script("2024-04-31", z),            # well-formed, not a calendar date
            s[:-1] + rng.choice(["\u00b2", "\u2167", "\u2461", "\u0bf0", "\u3007", "x"]),   # digit-LIKE, not Nd
            s.replace("-", rng.choice(["/", "\u2010", "\u2212", "\uff0d"])),                   # other hyphens
            s + "0", "1" + s, s[:4] + "-" + s[4:], s + "\n\n", s + " x", s[:7],
            script(s, z).replace("-", "", 1),
        ])
        return miss, "near-miss"
    if r < 0.88:
        z = rng.choice([48, 48, 0x660, 0xFF10])
        lead = "".join(rng.choice(_UWS) for _ in range(rng.choice([0, 1, 2])))
        trail = "".join(rng.choice(_UWS) for _ in range(rng.choice([0, 1, 2]))) + rng.choice(["", "\n", "\n", "\r\n"])
        return lead + script(s, z) + trail, "whitespace"
    return s, "ascii"


def read_date_text(t):
    """independent reading of what a text denotes for DateYYYYMMDD: strip, four / two / two Unicode DECIMAL digits
    between hyphens (unicodedata.decimal per character — no regex, no int()), a calendar date.  None if it denotes none."""
    import datetime
    t = t.strip()
    if len(t) != 10 or t[4] != "-" or t[7] != "-":
        return None
    vals = []
    for part in (t[0:4], t[5:7], t[8:10]):
        n = 0
        for ch in part:
            dv = _ud.decimal(ch, None) if _ud.category(ch) == "Nd" else None
            if dv is None:
                return None
            n = n * 10 + dv
        vals.append(n)
    try:
        datetime.date(*vals)
    except ValueError:
        return None
    return vals


def date_text_tag(t):
    if not isinstance(t, str):
        return None
    non_ascii = any(ord(c) > 127 and _ud.category(c) == "Nd" for c in t)
    ok = read_date_text(t) is not None
    return ("date-text:" + ("non-ascii-digits" if non_ascii else "ascii") + ("+denotes" if ok else "+rejected"))


# ---------------------------------------------------------------- the property

def _scalar(cid, k, name, opt=False, default=None):
    return {"cid": cid, "k": k, "name": name, "opt": opt, "policy": "subset", "minreq": False, "isa": [],
            "default": default, "subs": []}


def _map(kind, fields, cid=1, name=None, policy="subset", minreq=False, default=None):
    return {"cid": cid, "k": kind, "name": name, "opt": False, "policy": policy, "minreq": minreq, "isa": [],
            "default": default, "subs": fields}


def _op(m):
    return {"t": 0, "m": m}


class C10(Property):
    id = "C10"
    title = "Mapping elements hold exactly the schema's fields, always as elements"
    proof_module = "Proofs.C10All"
    theorems = [
        "Flatland.C10.Proofs.mapinv_init",
        "Flatland.C10.Proofs.mapinv_step",
        "Flatland.C10.Proofs.mapinv_run",
        "Flatland.C10.Proofs.named_after_key",
        "Flatland.C10.Proofs.undeclared_rejected",
        "Flatland.C10.Proofs.undeclared_never_stored_step",
        "Flatland.C10.Proofs.undeclared_never_stored",
        "Flatland.C10.Proofs.keys_exact",
        "Flatland.C10.Proofs.keys_exact_nodup",
        "Flatland.C10.Proofs.sparse_keys",
        "Flatland.C10.Proofs.update_stops_at_undeclared",
        "Flatland.C10.Proofs.updateArgs_stops_at_undeclared",
        "Flatland.C10.Proofs.update_undeclared_rejected",
        "Flatland.C10.Proofs.set_undeclared_rejected",
        "Flatland.C10.Proofs.set_undeclared_ignored",
        "Flatland.C10.Proofs.C10_full_fails",
        "Flatland.C10.Proofs.required_survives_optional_member",
        # distinct keys (for every argument, no ArgExact)
        "Flatland.C10.Proofs.nodup_init",
        "Flatland.C10.Proofs.nodup_step",
        "Flatland.C10.Proofs.nodup_run",
        "Flatland.C10.Proofs.sparse_keys_nodup",
        "Flatland.C10.Proofs.dict_keys_nodup",
        "Flatland.C10.Proofs.kok_root_clause",
        "Flatland.C10.Proofs.fieldsNodupB_iff",
        "Flatland.C10.Proofs.nodup_init_iff",
        # Compound as a mapping
        "Flatland.C10.Proofs.prepare_length",
        "Flatland.C10.Proofs.prepare_prefix",
        "Flatland.C10.Proofs.prepare_keys",
        "Flatland.C10.Proofs.compound_set_keeps_members",
        "Flatland.C10.Proofs.compound_inv_step",
        "Flatland.C10.Proofs.compound_inv_run",
        "Flatland.C10.Proofs.compound_keys_exact",
        "Flatland.C10.Proofs.compound_keys_nodup",
        "Flatland.C10.Proofs.compound_undeclared_rejected",
        "Flatland.C10.Proofs.parseDate_is_scalar_date_adapt",
        "Flatland.C10.Proofs.ascii_reader_differs",
        "Flatland.C10.Proofs.date_regex_pinned",
        # the flat route (over Flatland/Flat.lean)
        "Flatland.C10.Flat.shape_setFlat",
        "Flatland.C10.Flat.setFlat_inv",
        "Flatland.C10.Flat.setFlat_inv_compound",
        "Flatland.C10.Flat.blank_inv",
        "Flatland.C10.Flat.fromFlat_inv",
        "Flatland.C10.Flat.fromFlat_keys_declared",
        "Flatland.C10.Flat.fromFlat_keys_nodup",
        "Flatland.C10.Flat.fromFlat_required_present",
        "Flatland.C10.Flat.fromFlat_keys_exact",
    ]
    level_text = "proof (partial)"
    level_note = ("THEOREM (partial): mapinv_init/mapinv_step/mapinv_run — the mapping invariant holds initially and is "
                  "preserved by every dict-protocol call of the model, accepted or rejected, under ArgExact: an Element "
                  "argument that passes isinstance is of the field class itself AND carries no instance-level name= "
                  "override (instance-level optional= is allowed since /repo 6e22928: del/pop consult the field schema; "
                  "required_survives_optional_member is the former KF-C10-b counter-example as a theorem). Without "
                  "ArgExact the statement is refuted: C10_full_fails (renamed subclass / foreign name, KF-C10-a). "
                  "User-facing corollaries for EVERY call and every history (same guard): undeclared_never_stored(_step) "
                  "— no member under an undeclared key, every member an element of a declared field class under that "
                  "field's name with the mapping as stored parent; keys_exact(_nodup) — a Dict's key list is exactly "
                  "the declared names in declaration order; sparse_keys — SparseDict keys are declared ones and the "
                  "required ones are present under minimum_fields='required'. Rejection of undeclared keys is a theorem "
                  "for every call naming one: undeclared_rejected (setitem/del/pop/setdefault/get: raises, state "
                  "untouched), update_stops_at_undeclared / updateArgs_stops_at_undeclared / update_undeclared_rejected "
                  "(update dict|pairs|kwargs, |=, Element values: pairs before the first undeclared key applied, "
                  "TypeError there, the rest never applied), set_undeclared_rejected (strict/subset, argument or class "
                  "policy: KeyError after _reset()), set_undeclared_ignored (duck/None: same call without the undeclared "
                  "pairs). On model paths answering `unsupported` (Element handed to a dense Dict whose child is a "
                  "container, non-empty list handed to Dict.set ...) the step theorem is vacuous: the node is unchanged. "
                  "DISTINCT KEYS (h6): nodup_init/nodup_step/nodup_run, sparse_keys_nodup, dict_keys_nodup — the model keeps "
                  "the underlying dict as a LIST of children; no call (item assignment of ANY Element, update in every form, "
                  "|=, set under every policy, setdefault, set_default, clear, del, pop) ever leaves two members under one "
                  "key; no ArgExact needed; kok_root_clause: the mapping clause of C08's `kok` at the root of every "
                  "reachable state. COMPOUND (h6): a Compound is a Mapping that overrides only set(); model = dense dict "
                  "node + prepare (lazy __compound_init__ of DateYYYYMMDD: a supplied list of <= 3 fields completed by "
                  "generated year/month/day: prepare_length/_prefix/_keys) + compoundSet (explode as a PARAMETER under the "
                  "documented contract; dateExplode = DateYYYYMMDD.explode, date text read with every Unicode decimal digit (n3: "
                  "parseDate_is_scalar_date_adapt, ascii_reader_differs, date_regex_pinned)) + compoundStep; compound_inv_step/_run, "
                  "compound_keys_exact(_nodup) (keys exactly the prepared field names after every history), "
                  "compound_set_keeps_members (set(value) keeps every member's identity/class/key/parent, for EVERY "
                  "explode), compound_undeclared_rejected. FLAT ROUTE (h6, over Flatland/Flat.lean): setFlat_inv / "
                  "setFlat_inv_compound — set_flat with ANY pair list from ANY state satisfying the invariant keeps it "
                  "(keys declared, pairwise distinct, = declared for Dict/Compound, required present for 'required' "
                  "SparseDict, every member of the shape its field class builds); blank_inv; fromFlat_inv and its clauses "
                  "fromFlat_keys_declared/_nodup/_required_present/_keys_exact. The flat invariant is per mapping "
                  "(shallow): it applies to every nested _set_flat call, a deep well-formedness predicate is not stated. "
                  "DECLARED CLASSES (h6 follow-up): FieldsNodup (the class declares every field name once) is the hypothesis "
                  "of keys_exact/sparse_keys/nodup_*/compound_keys_exact and is NECESSARY: nodup_init_iff (a fresh Dict of "
                  "the model has distinct keys iff the declared names are distinct), fieldsNodupB_iff (the Boolean the "
                  "runner reports as `fields_nodup` beside every trace; the harness reports the same of the real class, so "
                  "a class with duplicate names is a correspondence failure). Mapping classes are also built through the "
                  "declarative route (class X(Schema) / SparseSchema / Form, single and multiple inheritance, overlapping "
                  "names with the same and with different field classes on the arms, overrides in the class body, "
                  "field_schema = [...] lists, Dict.of bases); the expected field list (documented overlay: bases "
                  "left-most first, each name once, own declarations overriding) is computed by the case and is what "
                  "model and oracle check against. "
                  "ORACLE ONLY: Compound roots reached through set_flat inside a g1 history; the `unsupported` paths; "
                  "Compound members of Dicts in the tree model (generated only in the flat stream). "
                  "Declarative Schema roots are modelled as Dict and compared")
    technique = "invariant proof over operation histories (Lean 4) + differential testing against the implementation"
    trusted_base = [
        "dict insertion order and key replacement semantics of CPython dict (modelled as an ordered list of children)",
        "`isinstance(value, field_schema)` modelled as class identity or derivation (cid / isa)",
    ]
    assumptions = [
        "Compound: explode() implementations follow the documented contract (assign values to declared children through "
        "self[name].set(v), or raise before touching anything); compose/explode VALUES belong to C18 — only "
        "DateYYYYMMDD.explode on None/int/str/containers is modelled (dateExplode; text read with the scalar model's Date reader over the regenerated Unicode tables: every Nd digit, Unicode whitespace stripped — parseDate_is_scalar_date_adapt; the regex source is pinned by date_regex_pinned)",
        "Compound field names are distinct: NOT enforced by the code for a user-supplied field_schema (a supplied first "
        "field named 'month' collides with the generated one) — hypothesis of compound_keys_exact, see c10_findings.json",
        "flat stream: the flat model's text normalisation (Env.norm) is irrelevant to key skeletons and set to identity",
        "the model follows containers.py as it is: SparseDict.__delitem__/pop consult the field schema's optional "
        "(the member's only for an undeclared key), `.name` is the instance's",
        "field names are non-empty and distinct: Dict.of enforces it, the declarative route must produce it (checked: "
        "oracle clauses class-fields-distinct / class-fields-as-declared, correspondence key fields_nodup); "
        "using(field_schema=[...]) does not check it (KF-C10-c, not generated)",
        "declarative classes: the ORDER of field_schema is documented as undefined; the case predicts the order the current "
        "overlay algorithm produces (inherited first, overriding declarations moved to the end) for the model's key "
        "order, the oracle compares names and classes order-free",
        "Element arguments are fresh or detached (no aliasing)",
    ]
    rule = ("histories of 1-14 dict-protocol calls (item assignment with plain values / fresh Elements / Elements detached "
            "earlier / Elements owned by another container / Elements of a renamed or optional-overriding subclass / "
            "Elements of the field class built with optional= or name= keywords; del, pop, popitem, clear, update "
            "positional dict|pairs|junk and keyword, update/|= with Element values, setdefault, get, set under explicit "
            "policy strict/subset/duck/None or the class policy, set_default, set_flat) over declared and undeclared keys, "
            "on a Dict, declarative Schema / SparseSchema / Form (70 % of them DECLARED through a generated class graph of 1-6 classes: "
            "diamonds with an override on one arm, unrelated bases sharing a name, random multiple inheritance, own "
            "field_schema lists, Dict.of bases, intermediate classes instantiated before the next is declared), SparseDict (minimum_fields None/'required') with 1-3 fields "
            "(Integer/String/List/Dict, optional or not, with defaults) or a DateYYYYMMDD compound; routes constructor/"
            "set/set_default/from_defaults/from_flat/set_flat. Cases the Lean model does not cover (flat routes, "
            "Compound, model paths answering unsupported) are marked oracle-only BEFORE the run and are not counted as "
            "validated traces (tag model=oracle-only). non-trivial = at least 3 calls changed the mapping or raised")
    quick_n = 24000
    thorough_n = 300000

    # cases are tiny (< 10 ms); the alarm only guards against a genuine hang (e.g. a cycle of parent pointers).
    # 10 s proved too tight on a shared, oversubscribed machine: thorough runs saw spurious alarms on cases
    # that replay in 0.1 s.
    case_timeout = 60

    def __init__(self):
        self._cache = (None, None)

    def corpus(self):
        a = _scalar(2, "string", "a")
        out = []
        # fixed 9bbad55: d |= {'zzz': 1, 'a': 'q'} stored raw values and the undeclared key
        out.append({"schema": _map("dict", [a]), "init": {"route": "ctor", "value": None},
                    "ops": [_op({"op": "ior", "v": {"d": [["zzz", 1], ["a", "q"]]}}),
                            _op({"op": "ior", "v": {"d": [["a", "q"]]}})]})
        out.append({"schema": _map("sparse", [a, _scalar(3, "integer", "b", opt=True)], minreq=True),
                    "init": {"route": "ctor", "value": None},
                    "ops": [_op({"op": "ior", "v": {"d": [["b", 1], ["zzz", 1]]}}), _op({"op": "pop", "k": "b"}),
                            _op({"op": "pop", "k": "a"}), _op({"op": "delitem", "k": "a"}), _op({"op": "clear"})]})
        # open KF-C10-a: an Element of a renamed subclass is stored under the key with its foreign name
        out.append({"schema": _map("sparse", [a]), "init": {"route": "ctor", "value": None},
                    "ops": [_op({"op": "setitem", "k": "a", "a": {"new": "v", "rename": "zz", "cid": 100001}})]})
        # an Element of the declared field class that belongs to ANOTHER mapping, assigned onto a present and an
        # absent key through __setitem__, update(dict/kw/pairs) and |= : it is adopted and re-parented
        X = _scalar(2, "integer", "x")
        Y = _scalar(3, "integer", "y")
        for form in ("dict", "kw", "pairs", "ior"):
            out.append({"schema": _map("sparse", [X, Y], name="form"), "init": {"route": "ctor_value", "value": {"d": [["x", 1]]}},
                        "ops": [_op({"op": "setitem", "k": "x", "a": {"new": 5, "foreign": True}}),
                                _op({"op": "setitem", "k": "y", "a": {"new": 7, "foreign": True}}),
                                _op({"op": "update_items", "form": form, "items": [["x", {"new": 9, "foreign": True}],
                                                                                  ["y", {"new": 8, "foreign": True}]]}),
                                _op({"op": "pop", "k": "x"}),
                                _op({"op": "update_items", "form": form, "items": [["x", {"pool": 0}], ["y", {"pool": 0}]]})]})
        # fixed 6e22928 (was KF-C10-b): a REQUIRED field could be deleted / popped through a member whose own `optional`
        # is True: an instance of the field class itself built with optional=True, or of a using(optional=True) subclass
        SR = _map("sparse", [a], minreq=True)
        out.append({"schema": SR, "init": {"route": "ctor", "value": None},
                    "ops": [_op({"op": "setitem", "k": "a", "a": {"new": "v", "inst_optional": True}}),
                            _op({"op": "delitem", "k": "a"})]})
        out.append({"schema": SR, "init": {"route": "ctor", "value": None},
                    "ops": [_op({"op": "setitem", "k": "a", "a": {"new": "v", "sub_optional": True, "cid": 100002}}),
                            _op({"op": "pop", "k": "a"})]})
        # KF-C10-a without a subclass: name= keyword on an instance of the field class itself
        out.append({"schema": SR, "init": {"route": "ctor", "value": None},
                    "ops": [_op({"op": "setitem", "k": "a", "a": {"new": "v", "inst_name": "zz"}}), _op({"op": "len"})]})
        # Compound, declarative Schema, flat routes (Compound and flat routes: oracle only)
        D = {"cid": 1, "k": "date", "name": "when", "opt": False, "policy": "subset", "minreq": False, "isa": [],
             "default": None, "subs": [_scalar(2, "integer", "year"), _scalar(3, "integer", "month"),
                                       _scalar(4, "integer", "day")]}
        out.append({"schema": D, "init": {"route": "ctor", "value": None}, "nomodel": True,
                    "ops": [_op({"op": "setitem", "k": "year", "a": {"v": 2020}}), _op({"op": "setitem", "k": "zz", "a": {"v": 1}}),
                            _op({"op": "ior", "v": {"d": [["month", 3], ["q", 1]]}}), _op({"op": "pop", "k": "day"}),
                            _op({"op": "clear"}), _op({"op": "set_flat", "pairs": [["when_year", "1999"], ["when_zz", "1"]]}),
                            _op({"op": "setdefault", "k": "year", "d": 1})]})
        # the same Compound without the flat call: compared with the model (compoundStep), plus set / set_default,
        # and a Compound whose first field the user supplied
        out.append({"schema": dict(D, supplied=0), "init": {"route": "ctor", "value": None},
                    "ops": [_op({"op": "setitem", "k": "year", "a": {"v": 2020}}), _op({"op": "setitem", "k": "zz", "a": {"v": 1}}),
                            _op({"op": "ior", "v": {"d": [["month", 3], ["q", 1]]}}), _op({"op": "pop", "k": "day"}),
                            _op({"op": "clear"}), _op({"op": "setdefault", "k": "year", "d": 1}),
                            _op({"op": "set", "v": "2024-02-29"}), _op({"op": "set", "v": "junk"}), _op({"op": "set", "v": None}),
                            _op({"op": "set", "v": "2024-02-29", "policy": "strict"}), _op({"op": "set_default"}),
                            _op({"op": "update_items", "form": "ior", "items": [["day", {"new": 5}], ["zz", {"new": 1}]]})]})
        D1 = dict(D, supplied=1, default="2001-02-03",
                  subs=[_scalar(2, "integer", "y"), _scalar(3, "integer", "month"), _scalar(4, "integer", "day")])
        out.append({"schema": D1, "init": {"route": "from_defaults", "value": None},
                    "ops": [_op({"op": "set", "v": " 1999-12-31 "}), _op({"op": "delitem", "k": "y"}), _op({"op": "get", "k": "year"}),
                            _op({"op": "set_default"})]})
        # the flat route: Dict / SparseDict / required SparseDict with prefix-sharing field names, two rounds
        leafk = {"type": "String", "strip": True}
        for mode in ("dense", "sparse", "sparseReq"):
            out.append({"flat": {"schema": {"t": "dict", "name": "m", "opt": False, "mode": mode, "fields": [
                {"t": "leaf", "name": "a", "opt": False, "k": 0}, {"t": "leaf", "name": "ab", "opt": True, "k": 0},
                {"t": "dict", "name": "c", "opt": True, "mode": "sparse", "fields": [{"t": "leaf", "name": "x", "opt": False, "k": 0}]}]},
                "kinds": [leafk], "sep": "_", "nd": [48], "maxdigits": 4300,
                "rounds": [[["m_abz", "1"], ["m_zz", "2"], ["q_a", "3"]], [["m_ab", "4"], ["m_c_x", "5"], ["m_c_zz", "6"], ["m_a", "7"]]]}})
        # seeded C10-add-unseen-by-class-object: inherited fields de-duplicated by class object instead of by name.
        # Root.ident = String; Left(Root).ident = Integer; Right(Root).extra; Diamond(Left, Right) — and two unrelated
        # bases declaring `name` — and the sparse diamond with minimum_fields='required'
        pool = [_scalar(2, "string", "ident"), _scalar(3, "integer", "ident"), _scalar(4, "string", "label"),
                _scalar(5, "string", "extra")]
        diamond = {"base": "schema", "pool": pool, "classes": [
            {"id": "Root", "bases": [], "attrs": [["ident", 0], ["label", 2]]},
            {"id": "Left", "bases": ["Root"], "attrs": [["ident", 1]]},
            {"id": "Right", "bases": ["Root"], "attrs": [["extra", 3]]},
            {"id": "Diamond", "bases": ["Left", "Right"], "attrs": []}]}
        hist = [_op({"op": "set", "v": {"d": [["ident", "7"], ["label", "l"], ["extra", "e"]]}}),
                _op({"op": "setitem", "k": "ident", "a": {"v": "8"}}), _op({"op": "update", "kw": [["label", "m"]]}),
                _op({"op": "ior", "v": {"d": [["extra", "f"]]}}), _op({"op": "setitem", "k": "nope", "a": {"v": 1}}),
                _op({"op": "set_default"})]
        for base, minreq in (("schema", False), ("form", False), ("sparse_schema", True)):
            dj = dict(diamond, base=base)
            subs = [dict(pool[i]) for i in decl_overlay(dj)["Diamond"]]
            sch = _map("sparse_schema" if base == "sparse_schema" else "schema", subs, minreq=minreq)
            sch["decl"] = dj
            out.append({"schema": sch, "init": {"route": "ctor", "value": None},
                        "ops": hist + ([_op({"op": "clear"}), _op({"op": "pop", "k": "ident"})] if minreq else [])})
        pool2 = [_scalar(2, "string", "name"), _scalar(3, "integer", "name"), _scalar(4, "integer", "age"),
                 _scalar(5, "integer", "count")]
        both = {"base": "schema", "pool": pool2, "classes": [
            {"id": "Person", "bases": [], "attrs": [["name", 0], ["age", 2]]},
            {"id": "Counter", "bases": [], "attrs": [["name", 1], ["count", 3]]},
            {"id": "Both", "bases": ["Person", "Counter"], "attrs": []}]}
        sch = _map("schema", [dict(pool2[i]) for i in decl_overlay(both)["Both"]])
        sch["decl"] = both
        out.append({"schema": sch, "init": {"route": "ctor_value", "value": {"d": [["name", "x"], ["age", 1], ["count", 2]]}},
                    "ops": [_op({"op": "setitem", "k": "name", "a": {"v": "y"}}), _op({"op": "get", "k": "name"})]})
        F = _map("schema", [_scalar(2, "string", "a"), _scalar(3, "integer", "b", opt=True)])
        out.append({"schema": F, "init": {"route": "from_flat", "pairs": [["a", "x"], ["b", "7"], ["zz", "1"]]}, "nomodel": True,
                    "ops": [_op({"op": "update", "kw": [["b", 1]]}), _op({"op": "delitem", "k": "a"}),
                            _op({"op": "set_flat", "pairs": [["a", "y"], ["q", "1"]]})]})
        # a class derived from an ALREADY USED parent class with another field list (seeded mutation
        # C10-field-index-memo-inherited-sparse): Wide = SparseDict.of(x, y, z); Wide().set(...); Narrow = Wide.of(x, y)
        Xi, Yi, Zi = _scalar(2, "integer", "x"), _scalar(3, "integer", "y"), _scalar(4, "integer", "z")
        narrow = _map("sparse", [Xi, Yi])
        narrow["derive"] = {"how": "of", "use": True, "use_value": {"d": [["x", 1], ["y", 2], ["z", 3]]}, "ghost": ["z"],
                            "parent_subs": [_scalar(12, "integer", "x"), _scalar(13, "integer", "y"), _scalar(14, "integer", "z")]}
        out.append({"schema": narrow, "init": {"route": "ctor", "value": None},
                    "ops": [_op({"op": "setitem", "k": "x", "a": {"v": 5}}), _op({"op": "setitem", "k": "z", "a": {"v": 3}}),
                            _op({"op": "update", "pos": {"d": [["z", 3]]}}), _op({"op": "update", "kw": [["z", 3]]}),
                            _op({"op": "setdefault", "k": "z", "d": 3}),
                            _op({"op": "set", "v": {"d": [["x", 1], ["z", 3]]}})]})
        # class Person(SparseSchema): name = String; age = Integer;  Person() is used;
        # class LoosePerson(Person): age = String; nick = String
        loose = _map("sparse_schema", [_scalar(2, "string", "name"), _scalar(3, "string", "age"), _scalar(4, "string", "nick")])
        loose["derive"] = {"how": "subclass", "use": True, "use_value": {"d": [["age", "33"], ["name", "anna"]]}, "ghost": [],
                           "declared": ["age", "nick"],
                           "parent_subs": [_scalar(12, "string", "name"), _scalar(13, "integer", "age")]}
        out.append({"schema": loose, "init": {"route": "ctor", "value": None},
                    "ops": [_op({"op": "setitem", "k": "age", "a": {"v": "thirty-three"}}),
                            _op({"op": "setitem", "k": "nick", "a": {"v": "lp"}}), _op({"op": "get", "k": "nick"})]})
        return out

    def generate(self, rng, n, tier):
        yield from G.mark_unmodelled(self, list(self._generate(rng, n, tier)))

    def _generate(self, rng, n, tier):
        for _ in range(n):
            cid = G.Counter()
            kind = rng.choice(["dict", "sparse", "sparse", "sparse_schema", "schema", "date"] if rng.random() < 0.5
                              else ["dict", "sparse", "sparse"])
            if rng.random() < 0.10:
                yield gen_flat_case(rng)
                continue
            if kind == "date":
                root_cid = cid()
                # the user supplies the first k fields (own names), the preparation generates the others
                k = rng.choice([0, 0, 0, 1, 2, 3])
                opt = rng.random() < 0.3
                names = [("y", "m", "dd")[i] if i < k else ("year", "month", "day")[i] for i in range(3)]
                subs = [_scalar(cid(), "integer", nm, opt=(rng.random() < 0.3 if i < k else opt)) for i, nm in enumerate(names)]
                schema = {"cid": root_cid, "k": "date", "name": rng.choice([None, "d"]), "opt": opt, "policy": "subset",
                          "minreq": False, "isa": [], "default": rng.choice([None, None, None, "2001-02-03", "junk"]),
                          "subs": subs, "supplied": k}
                flat = rng.random() < 0.3
                init = {"route": rng.choice(["ctor", "ctor", "ctor_value", "set", "from_defaults", "set_default"] +
                                            (["set_flat"] if flat else [])), "value": None}
                init["value"] = G.gen_value(rng, schema, valid=True)
                if init["route"] == "set_flat":
                    init["pairs"] = G.gen_flat_pairs(rng, schema)
                ops = [_op(G.gen_map_op(rng, schema, valid=rng.random() < 0.8, flat=flat)) for _ in range(rng.choice([1, 2, 4, 8, 12]))]
                # date texts with non-ASCII decimal digits, mixed scripts, near misses, Unicode whitespace (n3)
                if isinstance(init["value"], str) and rng.random() < 0.5:
                    init["value"] = gen_date_text(rng)[0]
                if isinstance(schema["default"], str) and rng.random() < 0.4:
                    schema["default"] = gen_date_text(rng)[0]
                for o in ops:
                    if o["m"].get("op") == "set" and o.get("t", 0) == 0 and rng.random() < 0.7:
                        o["m"]["v"] = gen_date_text(rng)[0]
                        if "policy" in o["m"] and rng.random() < 0.7:
                            del o["m"]["policy"]
                if rng.random() < 0.5:
                    ops.insert(rng.randint(0, len(ops)), _op({"op": "set", "v": gen_date_text(rng)[0]}))
                case = {"schema": schema, "init": init, "ops": ops}
                if G.has_flat(case):
                    case["nomodel"] = True
                yield case
                continue
            root_cid = cid()
            names = rng.sample(G.NAMES, rng.randint(1, 3))
            fields = []
            for nm in names:
                r = rng.random()
                if r < 0.75:
                    f = G.gen_schema(rng, cid, 0, name=nm)
                else:
                    f = G.gen_schema(rng, cid, 1, name=nm, kinds=["list", "dict", "array", "sparse"])
                fields.append(f)
            schema = _map(kind, fields, cid=root_cid, name=rng.choice([None, "d"]),
                          policy=rng.choice(["subset", "subset", "strict", "duck", "none"]),
                          minreq=(kind in ("sparse", "sparse_schema") and rng.random() < 0.5))
            if kind in ("schema", "sparse_schema") and rng.random() < 0.7:
                # the class is DECLARED (class syntax, single / multiple inheritance, overlapping names): the case
                # states the declaration AND the expected overlay (`subs`)
                decl, expected = gen_decl(rng, cid, kind == "sparse_schema")
                schema["decl"] = decl
                schema["subs"] = expected
            elif rng.random() < 0.3:
                # the class under test is DERIVED from a parent class with another field list, which (mostly) has
                # already been used: a pre-history on the parent class precedes the case's own history
                G.derive_mapping(rng, cid, schema)
            hostile = rng.random() < 0.2
            if rng.random() < 0.15:
                schema["default"] = G.gen_value(rng, schema, valid=True)
            route = rng.choice(["ctor", "ctor", "ctor_value", "ctor_value", "set", "from_defaults", "set_default",
                                "from_flat", "set_flat"] if rng.random() < 0.3 else
                               ["ctor", "ctor", "ctor_value", "ctor_value", "set", "from_defaults", "set_default"])
            init = {"route": route, "value": G.gen_value(rng, schema, valid=not hostile)}
            if route in ("from_flat", "set_flat"):
                init["pairs"] = G.gen_flat_pairs(rng, schema)
            elif rng.random() < 0.04 and "d" in (init["value"] or {}) if isinstance(init["value"], dict) else False:
                init["route"] = "from_object"          # Dict.from_object(obj): oracle only
            nops = rng.choice([1, 2, 3, 4, 6, 8, 10, 14])
            flat = route in ("from_flat", "set_flat") or rng.random() < 0.05
            ops = [_op(G.gen_map_op(rng, schema, valid=not hostile, flat=flat)) for _ in range(nops)]
            case = {"schema": schema, "init": init, "ops": ops}
            if G.has_flat(case):
                case["nomodel"] = True       # the flat-key parser is not in this model (C01/C02): oracle only
            yield case

    def _run(self, case):
        key = canon(case)
        if self._cache[0] == key:
            return self._cache[1]
        if "flat" in case:
            self._cache = (key, flat_run(case["flat"]))
            return self._cache[1]
        ex = Exec10(case, view, check)
        obs = ex.run()
        # the hypothesis of keys_exact / nodup_*: the class declares every name once (compared with the model's
        # `fields_nodup`, which is computed from the declaration the case states)
        names = [f.name for f in type(ex.root).field_schema]
        obs["fields_nodup"] = len(set(names)) == len(names)
        self._cache = (key, (obs, ex.failures))
        return self._cache[1]

    def run_impl(self, case):
        return self._run(case)[0]

    def oracle(self, case):
        return list(self._run(case)[1])

    def compare(self, impl_obs, model_obs):
        if isinstance(model_obs, dict) and model_obs.get("unsupported"):
            return None
        return super().compare(impl_obs, model_obs)

    def classify(self, case, failure):
        if "flat" in case:
            return None
        if foreign_name_arg(case, failure):
            return "KF-C10-a"
        return None

    def has_model(self, case):
        if "flat" in case:
            from harness import flatlib as fl
            fc = case["flat"]
            return not fl.digit_sep(fc["sep"]) and not any(x.get("name") == "" for x in fl.walk_schema(fc["schema"]))
        return not case.get("nomodel")

    def nontrivial(self, case, obs):
        if "flat" in case:
            sk = obs.get("skeletons") or []
            return len(sk) >= 2 and any(a != b for a, b in zip(sk, sk[1:]))
        if any("view_raises" in st["view"] for st in obs["steps"]):
            return True
        steps = obs["steps"]
        changed = 0
        for a, b in zip(steps, steps[1:]):
            if a["view"]["items"] != b["view"]["items"] or (isinstance(b["out"], dict) and "exc" in b["out"]):
                changed += 1
        return changed >= 3

    def tags(self, case, obs):
        if "flat" in case:
            fc = case["flat"]
            sk = obs.get("skeletons") or []
            root = fc["schema"]
            t = ["model=" + ("compared" if self.has_model(case) else "oracle-only"), "route=flat-stream",
                 "flat:root=" + (root.get("mode") or root["t"]), "flat:rounds=%d" % len(fc["rounds"])]
            if "raise" in obs:
                t.append("flat:raises:" + obs["raise"])
            for a, b in zip(sk, sk[1:]):
                if a != b:
                    t.append("flat:round-changed-keys")
                if isinstance(a, dict) and isinstance(b, dict) and len(b.get("d", [])) > len(a.get("d", [])):
                    t.append("flat:member-materialised")
            return sorted(set(t))
        if any("view_raises" in st["view"] for st in obs["steps"]):
            return ["view-raises"]
        s = case["schema"]
        t = ["model=" + ("oracle-only" if case.get("nomodel") else "compared"),
             "kind=" + s["k"] + ("+required" if s["minreq"] else "") +
             ("+supplied%d" % s["supplied"] if s["k"] == "date" and s.get("supplied") is not None else ""),
             "policy=" + s["policy"],
             "class=" + ("derived-from-%s-parent(%s)" % ("used" if s["derive"].get("use") else "unused", s["derive"]["how"])
                         if s.get("derive") else ("declared" if s.get("decl") else "fresh")),
             "route=" + case["init"]["route"], "ops=%d" % len(case["ops"])]
        if s.get("decl"):
            t += decl_tags(s["decl"])
        declared = [f["name"] for f in s["subs"]]
        for o, st, prev in zip(case["ops"], obs["steps"][1:], obs["steps"]):
            out = st["out"]
            name = o["m"]["op"]
            und = any(k not in declared for k in named_keys(o["m"]))
            suffix = ":undeclared" if und else ""
            if isinstance(out, dict) and "exc" in out:
                t.append("op:%s:%s%s" % (name, out["exc"], suffix))
            elif isinstance(out, dict) and "skip" in out:
                t.append("skip:" + out["skip"].split(":")[0])
            else:
                t.append("op:%s:ok%s" % (name, suffix))
            if s["k"] == "date" and name == "set" and o.get("t", 0) == 0 and "policy" not in o["m"] and date_text_tag(o["m"].get("v")):
                t.append(date_text_tag(o["m"]["v"]))
            a = o["m"].get("a") or {}
            for a in [a] + [x for _, x in o["m"].get("items", [])]:
                for v in ("inst_optional", "inst_name", "sub_optional"):
                    if v in a:
                        t.append("arg:" + v)
                if "rename" in a:
                    t.append("arg:renamed-subclass")
                elif "new" in a or "pool" in a:
                    t.append("arg:element")
                if a.get("foreign"):
                    t.append("arg:element-owned-by-another-container")
                    present = any(r[0] == (o["m"].get("k") if name == "setitem" else None) for r in prev["view"].get("items", []))
                    if name == "setitem":
                        t.append("foreign-onto-%s-key" % ("present" if present else "absent"))
            if name == "set" and "policy" in o["m"]:
                t.append("set-policy=%s" % o["m"]["policy"])
        return sorted(set(t))

    def shrink_candidates(self, case):
        if "flat" in case:
            import copy
            fc = case["flat"]
            for i in range(len(fc["rounds"])):
                if len(fc["rounds"]) > 1:
                    c = copy.deepcopy(case); del c["flat"]["rounds"][i]; yield c
                for j in range(len(fc["rounds"][i])):
                    c = copy.deepcopy(case); del c["flat"]["rounds"][i][j]; yield c
            return
        yield from G.shrink_history(case)


PROP = C10()
