"""C15 — built-in validators decide their documented predicate and explain failures.

A case = validator class + parameters ("v"), a recipe for the real element ("build"), the element
view the Lean model reads ("view": value, u, label, siblings, raw keys, urlparse/idna results …;
computed from the real element when the case is made and re-asserted by run_impl) and the errors
already on the element ("pre_errors").
"""
import copy
import itertools
import re
from urllib import parse as _urlparse

from harness.core import Property

SCALARS = ("String", "Integer", "Boolean")
NUMERIC = ("Float", "Decimal")   # oracle-only values: the Lean `Val` has no float / Decimal
URL_PARTS = ["scheme", "netloc", "path", "params", "query", "fragment"]
# nine names without netloc: only used to GENERATE custom all_parts values (the class default had this shape before KF-C15-b was repaired)
HTTP_PARTS = ["scheme", "username", "password", "hostname", "port", "path", "params", "query", "fragment"]


# ------------------------------------------------------------------ building real objects


def _scalar_cls(kind):
    import flatland
    return {"String": flatland.String, "Integer": flatland.Integer, "Boolean": flatland.Boolean,
            "Float": flatland.Float, "Decimal": flatland.Decimal}[kind]


def _val(v):
    """case value -> python value; numbers JSON cannot carry are tagged {"float": "2.5"} / {"decimal": "NaN"}"""
    if isinstance(v, dict) and "float" in v:
        return float(v["float"])
    if isinstance(v, dict) and "decimal" in v:
        import decimal
        return decimal.Decimal(v["decimal"])
    if isinstance(v, list):
        return [_val(x) for x in v]
    return v


def _tagged(x):
    if isinstance(x, dict):
        return "float" in x or "decimal" in x or any(_tagged(y) for y in x.values())
    if isinstance(x, list):
        return any(_tagged(y) for y in x)
    return False


def _same(a, b):
    """unchanged: identical, equal, or both the same kind of NaN"""
    if a is b:
        return True
    try:
        if a == b and type(a) is type(b):
            return True
    except ArithmeticError:
        pass
    return type(a) is type(b) and repr(a) == repr(b)


def _raw_value(r):
    """raw descriptors of a Dict.set() argument -> python object"""
    t = r["t"]
    if t == "dict":
        return {(k if not isinstance(k, dict) else k["int"]): v for k, v in r["pairs"]}
    if t == "pairs":
        return [((k if not isinstance(k, dict) else k["int"]), v) for k, v in r["pairs"]]
    if t == "int":
        return 5
    if t == "ints":
        return [1, 2]
    if t == "str":
        return r["s"]
    if t == "triples":
        return [("a", "b", "c")]
    if t == "none":
        return None
    if t == "iter":
        return iter([((k if not isinstance(k, dict) else k["int"]), v) for k, v in r["pairs"]])
    if t == "gen":
        return (((k if not isinstance(k, dict) else k["int"]), v) for k, v in r["pairs"])
    if t == "dictview":
        return {(k if not isinstance(k, dict) else k["int"]): v for k, v in r["pairs"]}.items()
    raise ValueError(t)


def _garbage(g):
    """things that are neither a mapping nor an iterable of pairs / members"""
    return {"int": 12345, "none": None, "text": "text", "ints": [1, 2, 3], "obj": object()}[g]


def _seq_value(v):
    return _garbage(v["garbage"]) if isinstance(v, dict) else v


def _apply_dict_op(el, name, r):
    """one set()/set_flat() on a Dict; -> (op kind, input object)"""
    if r["t"] == "unset":
        return None, None
    if r["t"] == "flat":
        el.set_flat([((name or "") + "_" + k, v) for k, v in r["pairs"]])
        return "flat", None
    if r["t"] == "garbage":
        obj = _garbage(r["g"])
    else:
        obj = _raw_value(r)
    el.set(obj)
    return "set", obj


def _apply_member_op(el, a):
    """a member removal / addition on a mapping AFTER its last set() (pop, del, clear, item assignment): legitimate
    on a SparseDict, a TypeError/KeyError on other mappings or absent members — those are simply not applied.
    None of them touches `.raw` or the declared fields."""
    try:
        if a["op"] == "pop":
            el.pop(a["key"])
        elif a["op"] == "del":
            del el[a["key"]]
        elif a["op"] == "clear":
            el.clear()
        elif a["op"] == "assign":
            el[a["key"]] = a.get("value", "v")
        else:
            raise ValueError(a["op"])
    except (TypeError, KeyError, NotImplementedError):
        pass


def _member_validators(specs):
    import flatland.validation as V
    out = []
    for sp in specs:
        out.append(getattr(V, sp[0])(*sp[1:]))
    return out


def _apply_vstate(cont, vs):
    """prior validation state on a container and its children — none of it is an input of any documented predicate:
    an earlier whole-tree validate() (members may carry other validators: b['vstate']['member_validators']), members
    repaired / appended afterwards, `.valid` assigned arbitrarily (True / False / Unevaluated), errors left on members"""
    from flatland.schema.base import Unevaluated
    if vs.get("prevalidate"):
        cont.validate()
    for i, val in vs.get("repair", []):
        kids = list(cont.children)
        if i < len(kids):
            kids[i].set(val)
    for val in vs.get("append", []):
        if hasattr(cont, "append"):
            cont.append(val)
    kids = list(cont.children)
    for i, flag in vs.get("flags", []):
        target = cont if i == "container" else (kids[i] if i < len(kids) else None)
        if target is not None:
            target.valid = Unevaluated if flag is None else flag
    for i, msgs in vs.get("sib_errors", []):
        if i < len(kids):
            kids[i].errors.extend(msgs)


def build(case):
    """-> the element on the real flatland, after the recipe's whole history of set()/set_flat() calls.
    `b["history"]` lists earlier inputs (good, bad, garbage) applied before the recipe's final one; the element
    is tagged with whether `.raw` is what the documentation says it is: the input of the LAST set()."""
    import flatland
    from flatland.schema.base import Unset
    b = case["build"]
    kind = b["kind"]
    hist = b.get("history", [])

    def tag(target, top, op, obj):
        ok = True
        if op == "set":
            ok = top.raw is obj
        elif op == "flat":
            ok = top.raw is Unset
        target._verif_raw_ok = ok
        target._verif_last = (op, obj)
        return target
    if kind in SCALARS + NUMERIC:
        schema = _scalar_cls(kind).named(b.get("name"))
        if "label" in b:
            schema = schema.using(label=b["label"])
        el = schema()
        op, obj = None, None
        for h in hist:
            el.set(h)
            op, obj = "set", h
        if not b.get("noset"):
            obj = b.get("set")
            el.set(obj)
            op = "set"
        tag(el, el, op, obj)
        if "assign" in b:
            # "only validation routines should write this attribute directly" — they do
            el.value = b["assign"]["value"]
            el.u = b["assign"]["u"]
        return el
    if kind in ("List", "Array"):
        member = _scalar_cls(b["member"]).named(b.get("member_name"))
        if "member_label" in b:
            member = member.using(label=b["member_label"])
        if b.get("vstate", {}).get("member_validators"):
            member = member.using(validators=_member_validators(b["vstate"]["member_validators"]))
        cont = getattr(flatland, kind).named(b.get("name")).of(member)
        if "label" in b:
            cont = cont.using(label=b["label"])
        el = cont()
        op, obj = None, None
        for h in hist:
            obj = _seq_value(h)
            el.set(obj)
            op = "set"
        if not b.get("noset"):
            obj = _seq_value(b["values"])
            el.set(obj)
            op = "set"
        if "vstate" in b:
            _apply_vstate(el, b["vstate"])
        target = el[b["index"]] if "index" in b else el
        return tag(target, el, op, obj)
    if kind == "fields":
        fields = []
        for f in b["fields"]:
            s = _scalar_cls(f["type"]).named(f["name"])
            if "label" in f:
                s = s.using(label=f["label"])
            fields.append(s)
        el = flatland.Dict.named(b.get("name")).of(*fields).using(policy=None)()
        for h in hist:
            el.set(_garbage(h["garbage"]) if "garbage" in h else dict(h["pairs"]))
        for f in b["fields"]:
            el[f["name"]].set(f.get("set"))
        if "vstate" in b:
            _apply_vstate(el, b["vstate"])
        target = el[b["child"]] if "child" in b else el
        return tag(target, el, None, None)
    if kind == "Dict":
        fields = [flatland.String.named(n) for n in b["fields"]]
        cls = flatland.SparseDict if b.get("sparse") else flatland.Dict
        el = cls.named(b.get("name")).of(*fields).using(policy=None)()
        op, obj = None, None
        for r in hist + [b["raw"]]:
            o, x = _apply_dict_op(el, b.get("name"), r)
            if o is not None:
                op, obj = o, x
        for a in b.get("after", []):
            _apply_member_op(el, a)
        return tag(el, el, op, obj)
    raise ValueError(kind)


def mk_validator(vd):
    import flatland.validation as V
    from flatland.validation.number import Luhn10
    d = {k: (_val(x) if k in ("boundary", "minimum", "maximum", "valid_options") else x) for k, x in vd.items()}
    cls = d.pop("cls")
    for attr, m in d.pop("messages", []):
        d[attr] = m if isinstance(m, str) else tuple(m)
    C = Luhn10 if cls == "Luhn10" else getattr(V, cls)
    if d.pop("note", "error") == "warning":
        # the same validator reporting through Validator.note_warning (the real method, with the real key / keywords)
        C = type(C.__name__, (C,), {"note_error": V.Validator.note_warning})
    lib = d.pop("lib", None)
    if lib:
        d["urlparse"] = FakeLib(lib)
    paths = d.pop("field_paths", None)
    if cls in ("MapEqual", "ValuesEqual", "UnisEqual"):
        return C(*paths, **d)
    if cls in ("ValueLessThan", "ValueGreaterThan"):
        return C(d.pop("boundary"), **d)
    if cls == "ValueAtMost":
        return C(d.pop("maximum"), **d)
    if cls == "ValueAtLeast":
        return C(d.pop("minimum"), **d)
    if cls == "ValueBetween":
        return C(d.pop("minimum"), d.pop("maximum"), **d)
    if cls == "IsEmail":
        kw = dict(d)
        if kw.get("local_part_pattern") is not None:
            kw["local_part_pattern"] = re.compile(kw["local_part_pattern"])
        else:
            kw.pop("local_part_pattern", None)
        return C(**kw)
    if cls == "URLValidator":
        kw = {}
        if d.get("allowed_schemes") is not None:
            kw["allowed_schemes"] = tuple(d["allowed_schemes"])
        if d.get("allowed_parts") is not None:
            kw["allowed_parts"] = set(d["allowed_parts"])
        kw.update({k: v for k, v in d.items() if k not in ("allowed_schemes", "allowed_parts")})
        return C(**kw)
    if cls == "HTTPURLValidator":
        kw = {k: v for k, v in d.items() if k not in ("required_parts", "forbidden_parts", "all_parts")}
        for k in ("required_parts", "forbidden_parts"):
            if d.get(k) is not None:
                kw[k] = {p: (r if isinstance(r, bool) or r is None else tuple(r)) for p, r in d[k]}
        if d.get("all_parts") is not None:
            kw["all_parts"] = tuple(d["all_parts"])
        return C(**kw)
    if cls == "URLCanonicalizer":
        kw = {k: v for k, v in d.items() if k != "discard_parts"}
        if d.get("discard_parts") is not None:
            kw["discard_parts"] = tuple(d["discard_parts"])
        return C(**kw)
    return C(**d)


# ------------------------------------------------------------------ `self.urlparse`: the standard module or a stand-in


class _FakeParsed(tuple):
    """a parse result whose derived attributes can be overridden (a text, None, or 'raises' = ValueError)"""

    def __new__(cls, real, over):
        obj = tuple.__new__(cls, tuple(real))
        obj._real, obj._over = real, over
        return obj

    def __getattr__(self, name):
        over = self.__dict__.get("_over", {})
        if name in over:
            if over[name] == "raises":
                raise ValueError("unreadable " + name)
            return over[name]
        return getattr(self.__dict__["_real"], name)


_EXC = {"ValueError": ValueError, "TypeError": TypeError, "KeyError": KeyError, "AttributeError": AttributeError,
        "RuntimeError": RuntimeError, "LookupError": LookupError}


class FakeLib:
    """an object that 'implements urlparse.urlparse and urlparse.urlunparse' (the documented `urlparse` attribute):
    the standard functions with the deviations listed in `spec`"""

    def __init__(self, spec):
        self.spec = spec

    def urlparse(self, text):
        if self.spec.get("parse_raises"):
            raise _EXC[self.spec["parse_raises"]]("stand-in urlparse")
        real = _urlparse.urlparse(text)
        return _FakeParsed(real, self.spec.get("attrs", {}))

    def urlunparse(self, parts):
        mode = self.spec.get("unparse")
        if mode == "raises":
            raise TypeError("stand-in urlunparse")
        out = _urlparse.urlunparse(tuple(parts))
        if mode == "upper":
            return out.upper()
        if mode == "none":
            return None
        if mode == "marker":
            return "<" + "|".join(parts) + ">"
        return out


def lib_of(vd):
    """the object the validator gets as `urlparse` (None: the class default, the standard module)"""
    return FakeLib(vd["lib"]) if vd.get("lib") else None


def _parse_entry(lib, text):
    try:
        r = (lib or _urlparse).urlparse(text)
    except Exception as e:
        return [text, {"raises": type(e).__name__}]
    six = list(r)
    rec = {"six": six if all(isinstance(x, str) for x in six) and len(six) == 6 else {"other": "parts"}}
    for name in ("username", "password", "hostname", "port"):
        try:
            x = getattr(r, name)
        except ValueError:
            x = {"raises": True}
        rec[name] = x if (x is None or isinstance(x, (str, int, dict))) and not isinstance(x, bool) else {"other": type(x).__name__}
    return [text, rec]


def lib_view(vd, val):
    """what `self.urlparse` answers on the texts this validator can ask it about: urlparse(value) and
    urlparse(value.strip()) — computed by Python, the model does its own stripping and looks the text up — and, for a
    stand-in urlunparse, its answer on the blanked parts (the standard urlunparse is modelled in Lean: `stdUnparse`)"""
    lib = lib_of(vd)
    texts = [val] + ([val.strip()] if val.strip() != val else [])
    out = {"parse": [_parse_entry(lib, t) for t in texts], "unparse": None}
    if lib is not None and lib.spec.get("unparse") and vd["cls"] == "URLCanonicalizer":
        table = []
        discard = vd.get("discard_parts")
        discard = ["fragment"] if discard is None else discard
        try:
            parts = list(lib.urlparse(val))
            for p in discard:
                if p in URL_PARTS:
                    parts[URL_PARTS.index(p)] = ""
            try:
                r = lib.urlunparse(parts)
                table.append([parts, {"v": _jval(r)}])
            except Exception as e:
                table.append([parts, {"raises": type(e).__name__}])
        except Exception:
            pass
        out["unparse"] = table
    return out


# ------------------------------------------------------------------ the view (what the model is told)


def _jval(v):
    """python native -> JSON value of the model (None/str/int/bool) or a marker"""
    if v is None or isinstance(v, (str, bool, int)):
        return v
    return {"other": type(v).__name__}


def _is_val(v):
    return v is None or isinstance(v, (str, bool, int))


def view_of(case, el):
    from flatland.schema.base import Slot, Unset
    from flatland.schema.containers import Container
    from flatland.util import to_pairs
    b = case["build"]
    is_container = isinstance(el, Container)
    view = {"label": _jval(el.label), "name": _jval(el.name), "container": is_container}
    if not is_container:
        view["value"] = _jval(el.value)
        view["u"] = el.u
    else:
        view["value"] = None
        view["u"] = ""
    if hasattr(el, "member_schema"):
        view["is_seq"] = True
        view["value_len"] = None if el.value is None else len(el.value)
        view["child_label"] = _jval(el.member_schema.label)
    if b["kind"] == "fields":
        fs = []
        for p in case["v"].get("field_paths", []):
            try:
                f = el.find(p, single=True)
            except LookupError:
                f = None
            fs.append(None if f is None else {"value": _jval(f.value), "u": f.u, "label": _jval(f.label)})
        view["fields"] = fs
    parent = el.parent
    if parent is not None:
        cont = parent.parent if isinstance(parent, Slot) else parent
        view["has_parent"] = True
        view["container_label"] = _jval(cont.label)
        sibs = list(cont.children)
        view["siblings"] = [[_jval(s.value), s.u] for s in sibs]
        # the validation state the siblings carry — told to the model, which provably ignores it (verdict_ignores_validation_state)
        view["sibling_state"] = [[None if (s.valid is not True and s.valid is not False) else s.valid, len(s.errors)] for s in sibs]
        pos = [i for i, s in enumerate(sibs) if s is el]
        view["pos"] = pos[0] if pos else None
    if b["kind"] == "Dict":
        view["schema_keys"] = list(el.field_schema_mapping.keys())
        # what the documentation calls raw: the input of the LAST set() (Unset after set_flat / never set) — taken
        # from the recipe, not from the element, so that stale bookkeeping shows as a disagreement
        op, obj = getattr(el, "_verif_last", (None, None))
        raw = obj if op == "set" else Unset
        if raw is Unset:
            view["raw"] = {"t": "unset"}
        elif raw is None:
            view["raw"] = {"t": "none"}
        elif hasattr(raw, "__next__"):
            view["raw"] = {"t": "iterator"}  # one-shot: nothing may be consumed here, and nothing is left anyway
        else:
            try:
                pairs = list(to_pairs(raw))
                keys = [k for k, _ in pairs]
                view["raw"] = {"t": "pairs", "keys": [_jval(k) for k in keys]}
            except TypeError:
                view["raw"] = {"t": "notIterable"}
            except ValueError:
                view["raw"] = {"t": "badPairs"}
    cls = case["v"]["cls"]
    val = el.value if not is_container else None
    if cls == "IsEmail" and isinstance(val, str) and val.count("@") == 1:
        dom = val.split("@")[1]
        try:
            view["idna"] = dom.encode("idna").decode("ascii")
        except UnicodeError:
            view["idna"] = None
        pat = case["v"].get("local_part_pattern")
        if pat is not None:
            view["local_ok"] = bool(re.compile(pat).match(val.split("@")[0]))
    if cls in ("URLValidator", "HTTPURLValidator", "URLCanonicalizer") and isinstance(val, str):
        view["lib"] = lib_view(case["v"], val)
    return view


def finish(case):
    """complete a case (v, build, pre_errors) with its view"""
    case.setdefault("pre_errors", [])
    try:
        el = build(case)
        case["view"] = view_of(case, el)
    except Exception as e:
        # building the subject runs library code (set(), an earlier validate() for the prior validation state): an
        # exception escaping from the LIBRARY here must not crash the generator — the case is kept, run_case builds
        # it again, the same exception escapes there and is accounted as the observation `unexpected-exception`
        from harness.core import _raised_in_library
        if type(e).__name__ == "CaseTimeout" or not _raised_in_library(e):
            raise
        case["view"] = {"_build_raised": type(e).__name__}
    return case


# ------------------------------------------------------------------ running the real validator


def run_case(case):
    from flatland.schema.containers import Container
    el = build(case)
    view = view_of(case, el)
    assert view == case["view"], "harness: element view differs from the case: %r vs %r" % (view, case["view"])
    v = mk_validator(case["v"])
    el.errors[:] = list(case.get("pre_errors", []))
    el.warnings[:] = list(case.get("pre_warnings", []))
    is_container = isinstance(el, Container)
    before_v, before_u = (copy.deepcopy(el.value), el.u)
    warnings_before = list(el.warnings)
    out = {"raise": None, "verdict": None}
    try:
        ret = v(el, None)
        out["verdict"] = ret if isinstance(ret, bool) else "<%s>" % type(ret).__name__
    except Exception as e:
        if type(e).__name__ == "CaseTimeout":
            raise  # the harness' per-case alarm: a hang, not a Python exception of the library
        out["raise"] = type(e).__name__
    out["errors"] = list(el.errors)
    out["warnings"] = list(el.warnings)
    if out["raise"] is not None:
        out["value_after"] = None
    elif is_container:
        out["value_after"] = "<unchanged>" if _same(el.value, before_v) else "<changed>"
    else:
        out["value_after"] = _jval(el.value)
    out["_value_before"] = _jval(before_v) if not is_container else None
    out["_u_unchanged"] = el.u == before_u
    out["_value_unchanged"] = _same(el.value, before_v)
    out["_warnings_unchanged"] = list(el.warnings) == warnings_before
    return out, el, v


# ------------------------------------------------------------------ oracle: the documented condition, in Python


def _family(x):
    import decimal
    if isinstance(x, (bool, int, float, decimal.Decimal)):
        return "num"
    if isinstance(x, str):
        return "str"
    return None


def _sat(test):
    """does the comparison hold?  (an operand that cannot be compared — a decimal NaN signals — satisfies nothing)"""
    try:
        return bool(test())
    except ArithmeticError:
        return False


def _luhn_textbook(n):
    digits = [int(c) for c in str(n)][::-1]
    total = 0
    for i, d in enumerate(digits):
        if i % 2 == 1:
            d *= 2
            if d > 9:
                d -= 9
        total += d
    return total % 10 == 0


# the documented default of IsEmail.domain_pattern (pinned against the source by harness/extractors/c15.py)
_DOMAIN_RE = re.compile(r"^(?:[a-z0-9\-]+\.)*[a-z0-9\-]+$", re.IGNORECASE)


def _email_documented(value, non_local, local_part_pattern=None):
    """IsEmail's docstring, computed with the idna codec itself: exactly one '@'; a local part with at least one
    non-whitespace character (matching local_part_pattern when one is set); the domain converts to IDN form and
    *that form* is at most 253 characters, matches the domain pattern, has every dot-separated component of at
    most 63 characters, and at least two components unless non_local is off."""
    if value is None or value.count("@") != 1:
        return False
    local, domain = value.split("@")
    if not any(not ch.isspace() for ch in local):
        return False
    if local_part_pattern is not None and not re.compile(local_part_pattern).match(local):
        return False
    try:
        ascii_domain = domain.encode("idna").decode("ascii")
    except UnicodeError:
        return False
    if len(ascii_domain) > 253:
        return False
    if not _DOMAIN_RE.match(ascii_domain):
        return False
    comps = ascii_domain.split(".")
    if non_local and len(comps) < 2:
        return False
    if any(len(c) > 63 for c in comps):
        return False
    return True


def documented(case, el):
    """(verdict the documentation promises | None, expected (message attr, extra keywords) | None)"""
    from flatland.schema.base import Unset
    from flatland.util import to_pairs
    v = case["v"]
    cls = v["cls"]
    b = case["build"]
    kind = b["kind"]
    scalar = kind in SCALARS or "index" in b or "child" in b
    if cls in ("IsEmail", "URLValidator", "HTTPURLValidator", "URLCanonicalizer") and kind == "String" \
            and el.value is not None and not isinstance(el.value, str):
        return None, None  # a directly assigned value that is not text
    if cls == "Present" and scalar:
        return el.u != "", ("missing", {})
    if cls == "IsTrue" and scalar:
        return bool(el.value), ("false", {})
    if cls == "IsFalse" and scalar:
        return not bool(el.value), ("true", {})
    if cls == "Converted" and scalar:
        return el.value is not None, ("incorrect", {})
    if cls == "ValueIn" and scalar and isinstance(v["valid_options"], str):
        # "a list, set, or other container of valid element values": for a text container membership is Python's
        # `in` between texts; a value that is not text is in no text (6dc976e: no exception)
        return (isinstance(el.value, str) and el.value in v["valid_options"]), ("fail", {})
    if cls == "ValueIn" and scalar:
        return any(_sat(lambda o=o: el.value == o) for o in _val(v["valid_options"])), ("fail", {})
    if cls == "ShorterThan" and scalar:
        return len(el.u) <= v["maxlength"], ("exceeded", {})
    if cls == "LongerThan" and scalar:
        return len(el.u) >= v["minlength"], ("short", {})
    if cls == "LengthBetween" and scalar:
        return v["minlength"] <= len(el.u) <= v["maxlength"], ("breached", {})
    if cls in ("ValueLessThan", "ValueAtMost", "ValueGreaterThan", "ValueAtLeast") and scalar:
        bound = _val(v.get("boundary", v.get("maximum", v.get("minimum"))))
        if el.value is None:
            return False, ("failure", {})
        if _family(bound) is None or _family(bound) != _family(el.value):
            return None, None
        val = el.value
        # a NaN (which a Decimal comparison even signals) satisfies no bound
        ok = _sat({"ValueLessThan": lambda: val < bound, "ValueAtMost": lambda: val <= bound,
                   "ValueGreaterThan": lambda: val > bound, "ValueAtLeast": lambda: val >= bound}[cls])
        return ok, ("failure", {})
    if cls == "ValueBetween" and scalar:
        lo, hi, inc = _val(v["minimum"]), _val(v["maximum"]), v.get("inclusive", True)
        key = "failure_inclusive" if inc else "failure_exclusive"
        if el.value is None:
            return False, (key, {})
        if not (_family(lo) == _family(hi) == _family(el.value) is not None):
            return None, None
        val = el.value
        return _sat((lambda: lo <= val <= hi) if inc else (lambda: lo < val < hi)), (key, {})
    if cls in ("MapEqual", "ValuesEqual", "UnisEqual") and kind == "fields":
        names = v["field_paths"]
        have = {f["name"] for f in b["fields"]}
        if not all(n in have for n in names):
            return None, None
        els = [el[n] for n in names]
        if cls == "MapEqual":
            tr = lambda e: e
        elif cls == "ValuesEqual":
            tr = lambda e: e.value
        else:
            tr = lambda e: e.u
        # "validates that two or more fields are equal": every further field equals the first (a NaN equals nothing)
        ok = all(_sat(lambda e=e: tr(e) == tr(els[0])) for e in els[1:])
        if not all(isinstance(e.label, str) for e in els):
            return (True if ok else None), None
        return ok, ("unequal", {"labels": ", ".join(e.label for e in els[:-1]), "last_label": els[-1].label})
    if cls == "NotDuplicated" and ("index" in b or "child" in b):
        from flatland.schema.base import Slot
        cont = el.parent.parent if isinstance(el.parent, Slot) else el.parent
        sibs = list(cont.children)
        i = [j for j, x in enumerate(sibs) if x is el][0]
        dup = any(_sat(lambda s=s: s.value == el.value and s.u == el.u) for s in sibs[:i])
        return not dup, ("failure", {"position": i + 1, "container_label": cont.label})
    if cls in ("HasAtLeast", "HasAtMost", "HasBetween") and kind in ("List", "Array") and "index" not in b:
        n = len(list(el.children))
        extra = {"child_label": el.member_schema.label}
        if cls == "HasAtLeast":
            return n >= v.get("minimum", 1), ("failure", extra)
        if cls == "HasAtMost":
            if v.get("maximum", 1) < 0:
                return None, None
            return n <= v.get("maximum", 1), ("failure", extra)
        lo, hi = v.get("minimum", 1), v.get("maximum", 1)
        return lo <= n <= hi, ("exact" if lo == hi else "range", extra)
    if cls in ("SetWithKnownFields", "SetWithAllFields") and kind == "Dict":
        # decided from the recipe's LAST set()/set_flat() alone — earlier inputs of the same element do not matter —
        # against the DECLARED field names (b["fields"]): which members the mapping currently holds (b["after"]:
        # pop / del / clear / item assignment on a SparseDict after the set) does not matter either
        ops = [o for o in b.get("history", []) + [b["raw"]] if o["t"] != "unset"]
        r = ops[-1] if ops else {"t": "unset"}
        if r["t"] in ("unset", "flat", "none"):
            return True, None  # raw not available
        if r["t"] in ("int", "ints", "garbage"):
            return True, None  # not iterable as pairs: deemed valid
        if r["t"] in ("iter", "gen"):
            # a one-shot iterator was consumed by set(): the raw data is no longer available — "only elements in
            # which raw is available and iterable will be considered for validation; all others are deemed valid"
            return True, None
        if r["t"] in ("dict", "pairs", "str", "triples", "dictview"):
            if r["t"] == "str" and r["s"] != "":
                given = None
            elif r["t"] == "triples":
                given = None
            elif r["t"] == "str":
                given = []
            else:
                given = [(k if not isinstance(k, dict) else k["int"]) for k, _ in r["pairs"]]
        else:
            return None, None
        allowed = set(b["fields"])
        if given is None:
            # items that are not pairs: like a raw value that is not iterable — deemed valid
            return True, None
        gs = set(given)
        unexpected = gs - allowed
        missing = allowed - gs
        txt = lambda s: ", ".join(sorted(str(x) for x in s))
        if cls == "SetWithKnownFields":
            return not unexpected, ("unexpected", {"unexpected": txt(unexpected), "n_unexpected": len(unexpected)})
        key = "both" if (missing and unexpected) else ("missing" if missing else "unexpected")
        return (not unexpected and not missing), (key, {"missing": txt(missing), "n_missing": len(missing),
                                                         "unexpected": txt(unexpected), "n_unexpected": len(unexpected)})
    if cls == "Luhn10" and kind in ("Integer", "Boolean", "Float", "Decimal"):
        import decimal
        if el.value is None:
            return False, ("invalid", {})
        if not isinstance(el.value, (int, float, decimal.Decimal)):
            return None, None  # a directly assigned value that is not a number
        # "a numeric value passes luhn10": only a non-negative whole finite number is a string of digits
        try:
            n = int(el.value)
            whole = (n == el.value)
        except (ValueError, OverflowError, ArithmeticError):
            return False, ("invalid", {})
        return (whole and n >= 0 and _luhn_textbook(n)), ("invalid", {})
    if cls == "IsEmail" and kind == "String":
        return _email_documented(el.value, v.get("non_local", True), v.get("local_part_pattern")), ("invalid", {})
    if cls in ("URLValidator", "HTTPURLValidator", "URLCanonicalizer") and kind == "String":
        lib = lib_of(v) or _urlparse
    if cls == "URLValidator" and kind == "String":
        # docstring: bad_format = unparseable; blocked_scheme = scheme not in allowed_schemes (all schemes with '*');
        # blocked_part = the URL has a component not in allowed_parts.  Valid iff none of the three applies.
        if el.value is None:
            return False, (["bad_format"], {})
        try:
            url = lib.urlparse(el.value.strip())
        except Exception:
            return False, (["bad_format"], {})
        schemes = v.get("allowed_schemes")
        any_scheme = schemes is None or tuple(schemes) == ("*",)
        allowed = set(URL_PARTS if v.get("allowed_parts") is None else v["allowed_parts"])
        violated = []
        # "Restrict URLs to just this sequence of named schemes, or allow all schemes with ('*',)"; "blocked_scheme:
        # emitted if the URL scheme: is not present in allowed_schemes" — membership (also of the empty scheme of a
        # scheme-relative URL when '' is listed: KF-C15-g); with the wildcard every SCHEME is allowed, no scheme is none
        if (url.scheme == "") if any_scheme else (url.scheme not in schemes):
            violated.append("blocked_scheme")
        if {p for p in URL_PARTS if getattr(url, p) != ""} - allowed:
            violated.append("blocked_part")
        return not violated, (violated, {})
    if cls == "HTTPURLValidator" and kind == "String":
        # docstring: all_parts — the known URL parts.  required_parts — True: the part is required; a sequence: the
        # value must be in it.  forbidden_parts — True: the part is forbidden; a sequence: the value must not be in it.
        # An element without a value has no part at all.  (False / None / an empty sequence: no rule.)
        return _http_documented(v, el.value, lib)
    if cls == "URLCanonicalizer" and kind == "String":
        discard = v.get("discard_parts")
        if discard is not None and not discard:
            return True, None
        if el.value is None:
            return True, None
        try:
            parsed = lib.urlparse(el.value)
        except Exception:
            return False, (["bad_format"], {})
        if any(p not in URL_PARTS for p in (["fragment"] if discard is None else discard)):
            return None, None  # outside the documented vocabulary of part names
        try:
            lib.urlunparse(_kept_parts(parsed, ["fragment"] if discard is None else discard))
        except Exception:
            return None, None  # a stand-in urlunparse that raises
        return True, None
    return None, None


HTTP_VOCABULARY = URL_PARTS + ["username", "password", "hostname", "port"]


def _http_params(v):
    req = v.get("required_parts")
    req = dict([["scheme", ["http", "https"]], ["hostname", True]] if req is None else req)
    forb = v.get("forbidden_parts")
    forb = dict([["username", True], ["password", True]] if forb is None else forb)
    # all_parts: "Defaults to the full 10-tuple of names in urlparse's vocabulary for HTTP-like URLs" — the documented
    # ten names, not whatever tuple the code happens to carry
    known = HTTP_VOCABULARY if v.get("all_parts") is None else v["all_parts"]
    return req, forb, known


def _http_part_values(parsed):
    """the value of every part of the vocabulary: a text, None, or ValueError (unreadable); the port as decimal text"""
    vals = {}
    for p in HTTP_VOCABULARY:
        try:
            vals[p] = getattr(parsed, p)
        except ValueError:
            vals[p] = ValueError
    if vals["port"] not in (None, ValueError):
        vals["port"] = str(vals["port"])
    return vals


def _present(value):
    """'the URL has the part' — stated once, for all ten names and for both mappings: the part has a non-empty value
    (required_part: 'emitted if URL is MISSING a part'; forbidden_part: 'emitted if URL CONTAINS a part').  The six
    tuple items are '' when the URL does not have them, the derived attributes None (or '': http://@h/)."""
    return value is not None and value != ""


def _required_holds(rule, value):
    """'If value is True, the part is required.  The value may also be a sequence of strings; the value of the part
    must be present in this collection to validate.'  (False / None: no rule; an empty collection has no member.)"""
    if rule is True:
        return _present(value)
    if rule is None or rule is False:
        return True
    return value in rule


def _forbidden_holds(rule, value):
    """'If value is True, the part is forbidden and validation fails.  The value may also be a sequence of strings;
    the value of the part must not be present in this collection.'"""
    if rule is True:
        return not _present(value)
    if rule is None or rule is False:
        return True
    return value not in rule


def _http_documented(v, value, lib):
    req, forb, known_parts = _http_params(v)
    if any(p not in HTTP_VOCABULARY for p in known_parts):
        return None, None  # all_parts outside urlparse's vocabulary: no promise
    if value is None:
        vals = {p: None for p in HTTP_VOCABULARY}
    else:
        try:
            parsed = lib.urlparse(value)
        except ValueError:
            return False, (["bad_format"], {})
        except Exception:
            return None, None  # a stand-in urlparse raising something else: not "an unparseable URL"
        vals = _http_part_values(parsed)
    violated = []
    if any(vals[p] is ValueError for p in known_parts):
        violated.append("bad_format")
    if any(not _required_holds(req.get(p), vals[p]) for p in known_parts if vals[p] is not ValueError):
        violated.append("required_part")
    if any(not _forbidden_holds(forb.get(p), vals[p]) for p in known_parts if vals[p] is not ValueError):
        violated.append("forbidden_part")
    return not violated, (violated, {})


def _http_quirks(v, value, lib):
    """coverage: is there a True entry of required_parts on a known part that is the empty text (former KF-C15-c), an
    empty collection as entry for a known part (former KF-C15-d)?"""
    req, _, known_parts = _http_params(v)
    try:
        vals = _http_part_values(lib.urlparse(value))
    except Exception:
        return False, False
    c = any(req.get(p) is True and vals[p] == "" for p in known_parts)
    d = any(isinstance(req.get(p), (list, tuple)) and len(req.get(p)) == 0 and vals[p] is not ValueError for p in known_parts)
    return c, d


def _kept_parts(parsed, discard):
    return ["" if URL_PARTS[i] in discard else x for i, x in enumerate(list(parsed))]


def expected_message(validator, el, key, extra):
    """the fully interpolated text the documentation describes, independently of expand_message"""
    tmpl = getattr(validator, key)
    mapping = {}
    for name in dir(el):
        pass
    if isinstance(tmpl, tuple):
        single, plural, nkey = tmpl
        n = extra.get(nkey, getattr(validator, nkey, None))
        tmpl = single if n == 1 else plural

    class M(dict):
        def __missing__(self, k):
            if k in extra:
                return extra[k]
            if hasattr(validator, k):
                return getattr(validator, k)
            return getattr(el, k)
    return tmpl % M()


def oracle_case(case):
    obs, el, validator = run_case(case)
    fails = []
    if not getattr(el, "_verif_raw_ok", True):
        # Element.raw: "The element's raw, unadapted value from input" — of the most recent set()
        fails.append({"clause": "raw-is-the-last-input", "expected": "element.raw is the object passed to the last set()",
                      "observed": "stale raw"})
    cls = case["v"]["cls"]
    want, msg = documented(case, el_before(case) if cls == "URLCanonicalizer" else el)
    if want is None:
        if cls in ("URLValidator", "HTTPURLValidator") and obs["raise"] is None and case["build"]["kind"] in SCALARS + NUMERIC \
                and not (obs["_value_unchanged"] and obs["_u_unchanged"]):
            # "apart from the canonicalising URL validator no validator changes the element's value": every element
            # kind and value, also those the class is not documented for (Integer(0), Boolean(False) …)
            fails.append({"clause": "value-unchanged", "expected": obs["_value_before"], "observed": obs["value_after"]})
        return fails
    if obs["raise"] is not None:
        fails.append({"clause": "returns-a-verdict-without-raising", "expected": want, "observed": obs["raise"]})
        return fails
    if want == "no-raise":
        return fails
    warn = case["v"].get("note") == "warning"
    if warn:
        # note_warning: "Record a validation warning message on an element … appended to element.warnings.  Always
        # returns False" — the same clauses with the two lists in each other's place
        obs = dict(obs)
        obs["errors"], obs["warnings"] = obs["warnings"], obs["errors"]
        pre = list(case.get("pre_warnings", []))
        obs["_warnings_unchanged"] = obs["warnings"] == list(case.get("pre_errors", []))
    else:
        pre = list(case.get("pre_errors", []))
    if obs["verdict"] is not want:
        # the other clauses are still evaluated (against the verdict that WAS returned): a wrong verdict that also
        # records something, warns or touches the value is more than the wrong verdict
        fails.append({"clause": "verdict-equals-documented-condition", "expected": want, "observed": obs["verdict"],
                      "_errors_unchanged": obs["errors"] == pre, "_warnings_unchanged": obs["_warnings_unchanged"],
                      "_value_unchanged": obs["_value_unchanged"] and obs["_u_unchanged"]})
        if obs["verdict"] is True and obs["errors"] != pre:
            fails.append({"clause": "true-verdict-records-nothing", "expected": pre, "observed": obs["errors"]})
    elif want is True:
        if obs["errors"] != pre:
            fails.append({"clause": "true-verdict-records-nothing", "expected": pre, "observed": obs["errors"]})
    else:
        new = obs["errors"][len(pre):] if obs["errors"][:len(pre)] == pre else None
        if msg is not None:
            # (the documentation does not order the reasons a URL is rejected for: any violated one may be named)
            keys = msg[0] if isinstance(msg[0], list) else [msg[0]]
            exps = []
            for key in keys:
                if getattr(validator, key) == "":
                    exps.append(pre)  # an empty message attribute records nothing
                    continue
                text = expected_message(validator, el, key, msg[1])
                exps.append(pre if text in pre else pre + [text])
            if obs["errors"] not in exps:
                fails.append({"clause": "false-verdict-records-the-one-message", "expected": exps[0], "observed": obs["errors"]})
        elif new is None or len(new) > 1:
            fails.append({"clause": "false-verdict-records-the-one-message", "expected": "one new message", "observed": obs["errors"]})
        for m in (new or []):
            if "%(" in m or not isinstance(m, str) or m == "":
                fails.append({"clause": "message-fully-interpolated", "expected": "no %( left", "observed": m})
    if cls != "URLCanonicalizer":
        if not obs["_value_unchanged"] or not obs["_u_unchanged"]:
            fails.append({"clause": "value-unchanged", "expected": obs["_value_before"], "observed": obs["value_after"]})
    else:
        fails += _canonical_clauses(case, obs, el, validator)
    if not obs["_warnings_unchanged"]:
        fails.append({"clause": "no-warnings", "expected": [], "observed": "warnings changed"})
    return fails


def el_before(case):
    """the element as it is before the validator runs (URLCanonicalizer rewrites the value)"""
    return build(case)


def _canonical_clauses(case, obs, el, validator):
    """URLCanonicalizer: 'Given a valid URL, re-writes it with unwanted parts removed' — the value is untouched when
    the verdict is not True; the new value is the rebuild (urlunparse) of the parsed parts with every member of
    discard_parts emptied; and the promise about the RESULT (standard urlunparse): read as a URL again it (a) has none
    of the discarded parts, (b) has every other part as the original had it, and (c) canonicalising it again changes
    nothing (it IS the canonical form).  No gating on 'the rebuild parses back': where it does not, (a)-(c) fail and
    that is KF-C15-e."""
    fails = []
    val = obs["_value_before"]
    v = case["v"]
    lib = lib_of(v) or _urlparse
    discard = v.get("discard_parts")
    discard = ["fragment"] if discard is None else discard
    std = not (v.get("lib") or {}).get("unparse")
    if std and (not isinstance(obs["value_after"], (str, type(None))) or (val is None and obs["value_after"] is not None)):
        fails.append({"clause": "canonical-url-is-text", "expected": val, "observed": obs["value_after"]})
    if obs["verdict"] is not True and not (obs["_value_unchanged"] and obs["_u_unchanged"]):
        fails.append({"clause": "value-untouched-on-failure", "expected": val, "observed": obs["value_after"]})
    if isinstance(val, str) and discard and obs["verdict"] is True and all(p in URL_PARTS for p in discard):
        try:
            orig = list(lib.urlparse(val))
            kept = _kept_parts(orig, discard)
            exp = _jval(lib.urlunparse(kept))
        except Exception:
            orig = kept = exp = None
        if kept is not None and obs["value_after"] != exp:
            fails.append({"clause": "canonical-url", "expected": exp, "observed": obs["value_after"]})
        if kept is not None and std and isinstance(el.value, str):
            first = el.value
            try:
                again_parts = list(lib.urlparse(first))
            except Exception as e:
                again_parts = None
                fails.append({"clause": "canonical-url-parses", "expected": kept, "observed": type(e).__name__})
            if again_parts is not None:
                left = [p for i, p in enumerate(URL_PARTS) if p in discard and again_parts[i] != ""]
                if left:
                    fails.append({"clause": "canonical-url-has-no-discarded-part", "expected": kept, "observed": again_parts})
                moved = [p for i, p in enumerate(URL_PARTS) if p not in discard and again_parts[i] != orig[i]]
                if moved:
                    fails.append({"clause": "canonical-url-keeps-the-other-parts", "expected": kept, "observed": again_parts})
            again = validator(el, None)
            if again is not True or el.value != first:
                fails.append({"clause": "canonical-url-is-stable", "expected": first, "observed": _jval(el.value)})
    return fails


def _roundtrip_fails(case):
    """class predicate of KF-C15-e, from the case alone (the standard library, not the validator): the six parts the
    canonical URL is rebuilt from do not survive urlunparse -> urlparse"""
    v = case["v"]
    val = case["view"].get("value")
    discard = v.get("discard_parts")
    discard = ["fragment"] if discard is None else discard
    if not isinstance(val, str) or (v.get("lib") or {}).get("unparse") or (v.get("lib") or {}).get("parse_raises"):
        return False
    try:
        kept = _kept_parts(list(_urlparse.urlparse(val)), discard)
        return list(_urlparse.urlparse(_urlparse.urlunparse(kept))) != kept
    except Exception:
        return True


# ------------------------------------------------------------------ generators

TEXTS = ["", " ", "a", "abc", "abcd", "abcde", "hello world", "é", "日本語", "  x  ", "0", "7", "42", "-5", "007", "4111111111111111",
         "x" * 20, "a\tb", "None"]
INTS = [0, 1, 2, 3, 4, 5, 9, 10, 17, 18, 59, 100, -1, -5, 4111111111111111, 79927398713, 79927398710, 10 ** 20, 26, 34, 91]


NUM_TEXTS = ["inf", "-inf", "nan", "NaN", "sNaN", "1e999", "Infinity", "1.5", "-1.5", "4111111111111111.0", "4111111111111111", "18",
             "18.0", "17.5", "0", "0.0", "4", "4.0", "3.999", "abc", "", " 5 ", "1e3", "79927398713", "2.50"]


def rand_scalar_build(rng, kinds=SCALARS):
    kind = rng.choice(kinds)
    b = {"kind": kind, "name": rng.choice(["f", "age", "名", "x y", None])}
    if rng.random() < 0.2:
        b["label"] = rng.choice(["The Field", "ü", "%d"])
    r = rng.random()
    if r < 0.08:
        b["noset"] = True
    elif r < 0.2:
        b["set"] = None
    elif kind == "Integer":
        b["set"] = rng.choice(INTS + ["12", " 7 ", "abc", "", "1.5", "-3", "٣"]) if rng.random() < 0.9 else rng.randint(-1000, 10 ** 6)
    elif kind == "Boolean":
        b["set"] = rng.choice([True, False, "1", "0", "yes", "", "maybe", "true", "f"])
    elif kind in NUMERIC:
        b["set"] = rng.choice(NUM_TEXTS)
    else:
        b["set"] = rng.choice(TEXTS) if rng.random() < 0.8 else "".join(rng.choice("ab é1") for _ in range(rng.randint(0, 12)))
    return b


def bound_for(rng, kind, mismatch=0.06):
    if rng.random() < mismatch:
        kind = "String" if kind != "String" else "Integer"
    if kind == "String":
        return rng.choice(["", "a", "abc", "b", "m", "é", "7", "abd"])
    return rng.choice([0, 1, 3, 4, 5, 10, 17, 18, -1, 100, True])


def rand_scalar_case(rng):
    cls = rng.choice(["Present", "IsTrue", "IsFalse", "Converted", "ValueIn", "ShorterThan", "LongerThan", "LengthBetween",
                      "ValueLessThan", "ValueAtMost", "ValueGreaterThan", "ValueAtLeast", "ValueBetween", "ValueBetween", "Luhn10"])
    b = rand_scalar_build(rng, ("Integer", "Integer", "Boolean") if cls == "Luhn10" and rng.random() < 0.9 else SCALARS)
    v = {"cls": cls}
    if cls == "ValueIn":
        pool = [None, "", "a", "abc", "yes", "no", 0, 1, 5, True, False, "7", 7]
        v["valid_options"] = rng.sample(pool, rng.randint(0, 5))
    elif cls == "ShorterThan":
        v["maxlength"] = rng.choice([0, 1, 3, 4, 5, 8, -1, 100])
    elif cls == "LongerThan":
        v["minlength"] = rng.choice([0, 1, 3, 4, 5, 8, -1, 100])
    elif cls == "LengthBetween":
        v["minlength"] = rng.choice([0, 1, 3, 4, 5])
        v["maxlength"] = rng.choice([0, 3, 4, 5, 8, 2])
    elif cls in ("ValueLessThan", "ValueGreaterThan"):
        v["boundary"] = bound_for(rng, b["kind"])
    elif cls == "ValueAtMost":
        v["maximum"] = bound_for(rng, b["kind"])
    elif cls == "ValueAtLeast":
        v["minimum"] = bound_for(rng, b["kind"])
    elif cls == "ValueBetween":
        v["minimum"] = bound_for(rng, b["kind"])
        v["maximum"] = bound_for(rng, b["kind"])
        v["inclusive"] = rng.random() < 0.5
    return {"v": v, "build": b}


NUM_BOUNDS = [0, 1, 4, 18, -1, {"float": "4.0"}, {"float": "2.5"}, {"float": "inf"}, {"float": "nan"}, {"decimal": "4"},
              {"decimal": "17.5"}, {"decimal": "NaN"}]


def rand_numeric_case(rng):
    """Float / Decimal elements (oracle-only): infinities, NaN / sNaN, non-integral and huge values against Luhn10, the
    value-bound validators, ValueIn, ValuesEqual, NotDuplicated and the value-independent classes"""
    kind = rng.choice(NUMERIC)
    r = rng.random()
    if r < 0.12:
        typ = kind
        fields = [{"name": nm, "type": typ, "set": rng.choice(NUM_TEXTS)} for nm in ("a", "b", "c")[:rng.randint(2, 3)]]
        if rng.random() < 0.5:
            fields[1]["set"] = fields[0]["set"]
        return {"v": {"cls": rng.choice(["ValuesEqual", "MapEqual", "UnisEqual"]), "field_paths": [f["name"] for f in fields]},
                "build": {"kind": "fields", "name": "form", "fields": fields}}
    if r < 0.2:
        n = rng.randint(2, 4)
        vals = [rng.choice(["1.5", "1.50", "nan", "sNaN", "inf", "4", "4.0", "x"]) for _ in range(n)]
        return {"v": {"cls": "NotDuplicated"}, "build": {"kind": "List", "name": "xs", "member": kind, "member_name": "m",
                                                        "values": vals, "index": rng.randrange(n)}}
    cls = rng.choice(["Luhn10", "Luhn10", "ValueLessThan", "ValueAtMost", "ValueGreaterThan", "ValueAtLeast", "ValueBetween",
                      "ValueIn", "Present", "Converted", "IsTrue", "IsFalse", "ShorterThan"])
    b = {"kind": kind, "name": rng.choice(["n", "amount"]), "set": rng.choice(NUM_TEXTS)}
    if rng.random() < 0.1:
        b["set"] = None
    v = {"cls": cls}
    if cls in ("ValueLessThan", "ValueGreaterThan"):
        v["boundary"] = rng.choice(NUM_BOUNDS)
    elif cls == "ValueAtMost":
        v["maximum"] = rng.choice(NUM_BOUNDS)
    elif cls == "ValueAtLeast":
        v["minimum"] = rng.choice(NUM_BOUNDS)
    elif cls == "ValueBetween":
        v["minimum"], v["maximum"] = rng.choice(NUM_BOUNDS), rng.choice(NUM_BOUNDS)
        v["inclusive"] = rng.random() < 0.5
    elif cls == "ValueIn":
        v["valid_options"] = rng.sample([None, 0, 1, 4, {"float": "1.5"}, {"float": "nan"}, {"decimal": "4"}, {"decimal": "NaN"},
                                         {"decimal": "sNaN"}, {"float": "inf"}, "4"], rng.randint(1, 5))
    elif cls == "ShorterThan":
        v["maxlength"] = 3
    return {"v": v, "build": b}


def boundary_scalar_cases():
    """value exactly at / next to every bound, for every comparison class"""
    for val in (3, 4, 5, None, "abc"):
        for bound in (4,):
            for cls, key in (("ValueLessThan", "boundary"), ("ValueGreaterThan", "boundary"),
                             ("ValueAtMost", "maximum"), ("ValueAtLeast", "minimum")):
                yield {"v": {"cls": cls, key: bound}, "build": {"kind": "Integer", "name": "n", "set": val}}
    for val in (0, 1, 2, 4, 5, 6, None):
        for inc in (True, False):
            yield {"v": {"cls": "ValueBetween", "minimum": 1, "maximum": 5, "inclusive": inc},
                   "build": {"kind": "Integer", "name": "n", "set": val}}
    for n in range(0, 7):
        s = "x" * n
        yield {"v": {"cls": "ShorterThan", "maxlength": 4}, "build": {"kind": "String", "name": "s", "set": s}}
        yield {"v": {"cls": "LongerThan", "minlength": 4}, "build": {"kind": "String", "name": "s", "set": s}}
        yield {"v": {"cls": "LengthBetween", "minlength": 2, "maxlength": 4}, "build": {"kind": "String", "name": "s", "set": s}}


def rand_seq_case(rng):
    cls = rng.choice(["HasAtLeast", "HasAtMost", "HasBetween"])
    n = rng.choice([0, 0, 1, 2, 3, 4, 5])
    member = rng.choice(["String", "Integer"])
    b = {"kind": rng.choice(["List", "List", "Array"]), "name": rng.choice(["xs", "wishes", None]), "member": member,
         "member_name": rng.choice(["wish", "m", None]),
         "values": [rng.choice(["a", "b", "1", "", "x"]) for _ in range(n)]}
    if rng.random() < 0.1:
        b["noset"] = True
    if rng.random() < 0.2:
        b["member_label"] = "Wish"
    v = {"cls": cls}
    if cls == "HasAtLeast":
        if rng.random() < 0.85:
            v["minimum"] = rng.choice([0, 1, 2, 3, 4])
    elif cls == "HasAtMost":
        if rng.random() < 0.85:
            v["maximum"] = rng.choice([0, 1, 2, 3, 4])
    else:
        lo = rng.choice([0, 1, 2, 3])
        v["minimum"] = lo
        v["maximum"] = lo + rng.choice([0, 0, 1, 2])
    return {"v": v, "build": b}


def rand_dup_case(rng):
    if rng.random() < 0.15:
        # a child of a Dict among its sibling fields
        names = ["a", "b", "c", "d"][:rng.randint(2, 4)]
        pool = ["x", "y", "x ", ""]
        fields = [{"name": nm, "type": "String", "set": rng.choice(pool)} for nm in names]
        return {"v": {"cls": "NotDuplicated"}, "build": {"kind": "fields", "name": "form", "fields": fields, "child": rng.choice(names)}}
    member = rng.choice(["String", "Integer"])
    n = rng.randint(1, 6)
    pool = ["a", "b", "a ", "1", "01", "", "x"] if member == "String" else [1, 2, "1", "01", " 1", "x", "", "y"]
    vals = [rng.choice(pool) for _ in range(n)]
    b = {"kind": rng.choice(["List", "List", "Array"]), "name": rng.choice(["xs", "colors"]), "member": member,
         "member_name": rng.choice(["c", None]) , "values": vals, "index": rng.randrange(n)}
    if b["kind"] == "Array":
        b["member_name"] = "c"
    return {"v": {"cls": "NotDuplicated"}, "build": b}


def rand_vstate(rng, n, member_kind="String"):
    """prior validation state for a container of n children"""
    vs = {}
    r = rng.random()
    if r < 0.45:
        vs["prevalidate"] = True
        if rng.random() < 0.7:
            vs["member_validators"] = rng.choice([[["NotDuplicated"], ["LongerThan", 3]], [["NotDuplicated"]], [["LongerThan", 1]],
                                                  [["Present"], ["NotDuplicated"]], [["IsTrue"]]])
        if rng.random() < 0.5 and n:
            vs["repair"] = [[rng.randrange(n), rng.choice(["y", "a", "zzzz", "1"] if member_kind == "String" else [7, "1", "x"])]
                            for _ in range(rng.randint(1, 2))]
        if rng.random() < 0.5:
            vs["append"] = [rng.choice(["a", "x", "b", "1", "abcd"]) for _ in range(rng.randint(1, 2))]
    if r >= 0.45 or rng.random() < 0.3:
        m = n + len(vs.get("append", []))
        vs["flags"] = [[rng.randrange(m), rng.choice([True, False, False, None])] for _ in range(rng.randint(1, 3))] if m else []
        if rng.random() < 0.2:
            vs["flags"].append(["container", rng.choice([True, False])])
    if rng.random() < 0.3 and n:
        vs["sib_errors"] = [[rng.randrange(n), ["left over"]]]
    return vs


def with_vstate(rng, case):
    """45% of the cases whose validator looks at other elements (siblings, children, referenced fields) get prior
    validation state on those elements"""
    b = case["build"]
    if rng.random() >= 0.45:
        return case
    if b["kind"] in ("List", "Array") and not b.get("noset") and isinstance(b.get("values"), list):
        n = len(b["values"])
        b["vstate"] = rand_vstate(rng, n, b["member"])
        if "index" in b:
            # the judged member: any position of the final list, later ones more often (they have predecessors)
            m = n + len(b["vstate"].get("append", []))
            if m:
                b["index"] = rng.choice([rng.randrange(m), m - 1])
    elif b["kind"] == "fields":
        vs = rand_vstate(rng, len(b["fields"]))
        vs.pop("member_validators", None)
        vs.pop("append", None)
        vs.pop("repair", None)
        b["vstate"] = vs
    return case


def vstate_dup_cases():
    """NotDuplicated on every member of 2-3 member lists of a/b values after a whole-tree validate() under each of three
    member chains, and with every assignment of valid in {True, False, Unevaluated} to the members"""
    chains = [[["NotDuplicated"], ["LongerThan", 3]], [["NotDuplicated"]], [["LongerThan", 3]]]
    for n in (2, 3):
        for vals in itertools.product(["ab", "abcd"], repeat=n):
            for idx in range(n):
                base = {"kind": "List", "name": "colors", "member": "String", "member_name": "color", "values": list(vals), "index": idx}
                for ch in chains:
                    yield {"v": {"cls": "NotDuplicated"}, "build": dict(base, vstate={"prevalidate": True, "member_validators": ch})}
                for flags in itertools.product([True, False, None], repeat=n):
                    yield {"v": {"cls": "NotDuplicated"}, "build": dict(base, vstate={"flags": [[i, f] for i, f in enumerate(flags)]})}
    # recovery: validate ['x','x'], repair member 0, append — judged at every member
    for idx in range(3):
        yield {"v": {"cls": "NotDuplicated"},
               "build": {"kind": "List", "name": "colors", "member": "String", "member_name": "color", "values": ["x", "x"], "index": idx,
                         "vstate": {"prevalidate": True, "member_validators": [["NotDuplicated"]], "repair": [[0, "y"]], "append": ["x"]}}}


def all_dup_positions():
    """one duplicated value at every pair of positions of a 4-member list, checked at every index"""
    for i, j in itertools.combinations(range(4), 2):
        vals = ["a", "b", "c", "d"]
        vals[j] = vals[i]
        for idx in range(4):
            for kind in ("List", "Array"):
                yield {"v": {"cls": "NotDuplicated"},
                       "build": {"kind": kind, "name": "xs", "member": "String", "member_name": "c", "values": list(vals), "index": idx}}


def rand_fields_case(rng):
    cls = rng.choice(["MapEqual", "ValuesEqual", "UnisEqual"])
    n = rng.randint(2, 4)
    names = ["a", "b", "c", "d"][:n]
    typ = rng.choice(["String", "Integer"])
    pool = ["x", "y", "x ", ""] if typ == "String" else [1, "1", "01", " 1 ", "x", "y", 2]
    base = rng.choice(pool)
    fields = []
    for nm in names:
        f = {"name": nm, "type": typ, "set": base if rng.random() < 0.6 else rng.choice(pool)}
        if rng.random() < 0.15:
            f["label"] = nm.upper()
        fields.append(f)
    k = rng.randint(2, n)
    paths = rng.sample(names, k)
    return {"v": {"cls": cls, "field_paths": paths}, "build": {"kind": "fields", "name": "form", "fields": fields}}


def rand_dict_case(rng):
    cls = rng.choice(["SetWithKnownFields", "SetWithAllFields"])
    fields = rng.sample(["a", "b", "c", "z"], rng.randint(1, 3))
    r = rng.random()
    keys = rng.sample(["a", "b", "c", "z", "q", "é", "A"], rng.randint(0, 4))
    if r < 0.45:
        raw = {"t": "dict", "pairs": [[k, "v"] for k in keys]}
    elif r < 0.65:
        if keys and rng.random() < 0.3:
            keys = keys + [keys[0]]
        raw = {"t": "pairs", "pairs": [[k, "v"] for k in keys]}
    elif r < 0.72:
        raw = {"t": "unset"}
    elif r < 0.78:
        raw = {"t": "none"}
    elif r < 0.84:
        raw = {"t": rng.choice(["int", "ints"])}
    elif r < 0.88:
        raw = {"t": "flat", "pairs": [[k, "v"] for k in keys]}
    elif r < 0.92:
        # one-shot iterators / generators / dict views as the set() argument
        raw = {"t": rng.choice(["iter", "gen", "dictview"]), "pairs": [[k, "v"] for k in keys]}
    elif r < 0.94:
        raw = {"t": "str", "s": rng.choice(["", "abc", "ab", "x"])}
    elif r < 0.97:
        raw = {"t": "triples"}
    else:
        raw = {"t": "dict", "pairs": [[k, "v"] for k in keys] + [[{"int": 1}, "v"]]}
    b = {"kind": "Dict", "name": rng.choice(["d", "form"]), "fields": fields, "raw": raw}
    if rng.random() < 0.3:
        b["sparse"] = True
    if (b.get("sparse") and rng.random() < 0.65) or rng.random() < 0.05:
        # members removed / added between the set() and the validator call (legitimate on a SparseDict)
        pool = fields + [rng.choice(["a", "b", "c", "z", "q"])]
        b["after"] = [rand_member_op(rng, pool) for _ in range(rng.randint(1, 3))]
    return {"v": {"cls": cls}, "build": b}


def rand_member_op(rng, keys):
    op = rng.choice(["pop", "del", "clear", "assign", "pop", "del"])
    return {"op": "clear"} if op == "clear" else {"op": op, "key": rng.choice(keys)}


EMAILS = ["a@b.c", "user@example.com", "user@localhost", "@example.com", "user@", "a@@b.c", "a b@example.com", " @example.com",
          "\t@example.com", "ü@bücher.de", "user@bücher.example", "user@exa_mple.com", "user@-a.com", "user@a..b", "user@.a.b",
          "user@a.b.", "user@" + "a" * 63 + ".com", "user@" + "a" * 64 + ".com", "user@" + ".".join(["a" * 60] * 4) + ".com",
          "user@" + ".".join(["a" * 61] * 4) + ".abcdefg", "user@[1.2.3.4]", "user@EXAMPLE.COM", "plain", "", "a@b", "a@b.c\n", "a@b\n.c",
          "user@xn--bcher-kva.de", "user@日本.jp", "x@" + "é" * 70 + ".com", "a@b.c ", "user@ex ample.com"]
URLS = ["http://example.com/", "https://example.com/a?b=1#frag", "ftp://example.com", "example.com", "//example.com/x", "", "  http://a.b/  ",
        "http://user:pw@example.com/", "http://user@example.com/", "http://example.com:80/", "http://example.com:x/", "http://[::1]/",
        "http://[::1", "mailto:a@b.c", "http:///path", "HTTP://EXAMPLE.COM", "http://example.com/p;params?q#f", "javascript:alert(1)",
        "http://example.com:99999/", "http://example.com:/", "https://", "http://:80", "http://exa mple.com/", "http://example.com/#", "?q=1", "#frag",
        "http://[invalid]/", "http://a]b/"]


IDN_LABELS = ["snow\u2603man", "b\u00fccher", "\u65e5\u672c", "\u2603", "\u00e9" + "a" * 55, "\u00e9" + "a" * 56, "\u00e9" * 20, "m\u00fcnchen"]
ASCII_LABELS = ["a", "com", "example", "x" * 10, "x" * 30, "x" * 60, "x" * 62, "x" * 63, "x" * 64, "a-b", "A1"]


def _idna_len(dom):
    try:
        return len(dom.encode("idna"))
    except UnicodeError:
        return None


def email_length_domain(rng):
    """a domain of mixed ASCII / non-ASCII labels whose length, as text and in IDN form, is steered to one of
    the classes around 253 (in particular text <= 253 < IDN)"""
    target = rng.choice(["both-short", "idna-just-under", "idna-just-over", "text-under-idna-over", "text-just-over", "random"])
    labels = []
    if target == "random":
        for _ in range(rng.randint(1, 30)):
            labels.append(rng.choice(IDN_LABELS + ASCII_LABELS))
        return ".".join(labels)
    filler = rng.choice(["snow\u2603man", "b\u00fccher", "\u2603", "m\u00fcnchen", "x" * 20])
    mix = rng.random() < 0.5
    while True:
        nxt = labels + [filler if not (mix and rng.random() < 0.4) else rng.choice(["x" * rng.randint(1, 40), "abc", "example"])]
        dom = ".".join(nxt + ["com"])
        il = _idna_len(dom)
        if il is None:
            return dom
        tl = len(dom)
        if target == "both-short" and il > 120:
            break
        if target == "idna-just-under" and il > 253:
            break
        if target == "idna-just-over" and il > 253:
            labels = nxt
            break
        if target == "text-under-idna-over" and il > 253 + rng.choice([0, 5, 60, 150]):
            labels = nxt if tl <= 253 else labels
            break
        if target == "text-just-over" and tl > 253:
            labels = nxt
            break
        labels = nxt
        if len(labels) > 80:
            break
    dom = ".".join(labels + ["com"])
    # pad with a short ASCII label to land exactly on / next to the boundary sometimes
    il = _idna_len(dom)
    if il is not None and target in ("idna-just-under", "idna-just-over") and rng.random() < 0.6:
        want = 253 if target == "idna-just-under" else 254
        pad = want - il - 1
        if 1 <= pad <= 63:
            dom = "p" * pad + "." + dom
    return dom


def email_class(value):
    """coverage tag: where the domain's length lies as text and in IDN form"""
    if not isinstance(value, str) or value.count("@") != 1:
        return None
    dom = value.split("@")[1]
    il = _idna_len(dom)
    if il is None:
        return "email-idna=unconvertible"
    t = "text<=253" if len(dom) <= 253 else "text>253"
    i = "idna<=253" if il <= 253 else "idna>253"
    return "email-%s,%s%s" % (t, i, ",non-ascii" if any(ord(c) > 127 for c in dom) else "")


URL_KEYS = {"URLValidator": ["bad_format", "blocked_scheme", "blocked_part"],
            "HTTPURLValidator": ["bad_format", "required_part", "forbidden_part"],
            "URLCanonicalizer": ["bad_format"]}
_WS = ["", "", "", " ", "  ", "\t", "\n", "\u00a0", "\x1c", "\u2003", "\u200b", "\x00"]
_SCHEMES = ["http", "http", "https", "https", "ftp", "HTTP", "", "x-y", "mailto", "javascript", "svn+ssh", "1http", "file"]
_USERINFO = ["", "", "", "u@", "u:p@", ":p@", "u:@", "@", "u:p:q@", "a@b@"]
_HOSTS = ["h.example", "example.com", "", "[::1]", "[::1", "::1]", "[v1.x]", "H", "[invalid]", "exa mple.com", "b\u00fccher.de",
          "127.0.0.1", "[2001:db8::1]", "[]", "a]b"]
_PORTS = ["", "", "", ":80", ":443", ":x", ":", ":99999", ":65535", ":65536", ":-1", ":\uff18\uff10", ":0", ":080", ":8 0"]
_PATHS = ["", "/", "/p;x", "/p q", "/a/b", ";x", "p", "//x", "/;"]
_QUERIES = ["", "", "?q=1", "?", "?a=1&b=2", "?#"]
_FRAGMENTS = ["", "", "#f", "#", "#a#b", "#?x"]
_RULE_VALUES = {"scheme": [["http", "https"], ["https"], ["https", ""], ["ftp"]], "hostname": [["h.example", "example.com"], ["::1"]],
                "port": [["80", "443"], ["65535"]], "path": [["/"], ["", "/"]], "netloc": [["example.com"], ["h.example:80"]],
                "username": [["u"]], "password": [["p"]], "query": [["q=1"]], "fragment": [["f"]], "params": [["x"]]}


_SLASHY = ["////", "//", "///", "h:////", "h://", "h:", "http:////evil.example/p#f", "http:///p", "http:", "https:////h/p?q#f", "x:y:z",
           "//h//p", "/a//b", "http://h//p#f", ":", "a:b#c", "///#f", "http:/p", "http:p", "//;x", "//?q", "http://h;x#f", "////h#f"]


def rand_url_text(rng):
    r = rng.random()
    if r < 0.2:
        return rng.choice(URLS)
    if r < 0.3:
        # slash runs, empty netloc, scheme-only, a path that reads as something else once rebuilt
        if rng.random() < 0.6:
            return rng.choice(_SLASHY)
        return (rng.choice(["", "", "http:", "h:", "https:", "x-y:"]) + "/" * rng.randint(0, 5) + rng.choice(["", "h", "evil.example", "a:b"]) +
                rng.choice(["", "/p", "//p", ";x"]) + rng.choice(_QUERIES) + rng.choice(_FRAGMENTS))
    return (rng.choice(_WS) + rng.choice(_SCHEMES) + rng.choice(["://", "://", "://", ":", ""]) + rng.choice(_USERINFO) +
            rng.choice(_HOSTS) + rng.choice(_PORTS) + rng.choice(_PATHS) + rng.choice(_QUERIES) + rng.choice(_FRAGMENTS) + rng.choice(_WS))


def rand_rules(rng):
    rules = []
    for name in rng.sample(HTTP_VOCABULARY, rng.randint(0, 3)):
        r = rng.random()
        if r < 0.4:
            rule = True
        elif r < 0.8:
            rule = rng.choice(_RULE_VALUES[name])
        elif r < 0.9:
            rule = []
        else:
            rule = rng.choice([False, None])
        rules.append([name, rule])
    return rules


def rand_url_case(rng, cls):
    b = {"kind": "String", "name": rng.choice(["url", "url", None]), "set": None if rng.random() < 0.06 else rand_url_text(rng)}
    if isinstance(b["set"], str) and b["set"].strip() != b["set"] and rng.random() < 0.7:
        # String elements strip their input; a validator may assign the value ("only validation routines should write
        # this attribute directly"), so surrounding white space reaches the URL validators this way
        b["assign"] = {"value": b["set"], "u": b["set"]}
    v = {"cls": cls}
    if cls == "URLValidator":
        if rng.random() < 0.6:
            v["allowed_schemes"] = rng.choice([["http", "https"], ["ftp"], ["*"], [], ["*", "http"], ["HTTP"], ["http"], ["https", "x-y", "mailto"], ["", "http"], ["", "http", "https"], ["*", "x"]])
        if rng.random() < 0.6:
            v["allowed_parts"] = rng.sample(URL_PARTS, rng.randint(0, 6))
            if rng.random() < 0.1:
                v["allowed_parts"].append(rng.choice(["port", "hostname"]))
    elif cls == "HTTPURLValidator":
        if rng.random() < 0.55:
            v["required_parts"] = rand_rules(rng)
        if rng.random() < 0.55:
            v["forbidden_parts"] = rand_rules(rng)
        r = rng.random()
        if r < 0.12:
            v["all_parts"] = HTTP_PARTS + ["netloc"]
        elif r < 0.2:
            v["all_parts"] = rng.sample(HTTP_VOCABULARY, rng.randint(0, 10))
        elif r < 0.24:
            v["all_parts"] = rng.sample(HTTP_PARTS, 4) + ["scheme"]
        elif r < 0.26:
            v["all_parts"] = ["scheme", "bogus", "hostname"]
    else:
        r = rng.random()
        if r < 0.55:
            v["discard_parts"] = rng.sample(URL_PARTS, rng.randint(0, 6))
        elif r < 0.62:
            v["discard_parts"] = rng.choice([["fragment", "fragment"], ["query", "fragment", "query"]])
        elif r < 0.68:
            v["discard_parts"] = rng.choice([["port"], ["fragment", "hostname"], ["username", "query"]])
    if rng.random() < 0.12:
        lib = {}
        r = rng.random()
        if r < 0.3:
            lib["parse_raises"] = rng.choice(["ValueError", "TypeError", "KeyError"])
        elif r < 0.7:
            lib["attrs"] = rng.choice([{"hostname": "raises"}, {"username": "raises"}, {"password": "raises"}, {"hostname": None},
                                       {"hostname": "other.example"}, {"port": 8080}, {"port": None, "hostname": "raises"}])
        if cls == "URLCanonicalizer" and (not lib or rng.random() < 0.5):
            lib["unparse"] = rng.choice(["upper", "none", "raises", "marker"])
        if not lib:
            lib["attrs"] = {}
        v["lib"] = lib
    if rng.random() < 0.6:
        # every message attribute gets its own text, so that WHICH message was noted is observable
        v["messages"] = [[k, "K:" + k + " %(label)s"] for k in URL_KEYS[cls]]
        if rng.random() < 0.08:
            v["messages"][rng.randrange(len(v["messages"]))][1] = ""
    return {"v": v, "build": b}


def url_tags(case, obs):
    """coverage of the URL validators: which message was noted, the shape of the parse record, the parameter forms"""
    v = case["v"]
    t = []
    ms = dict((k, m) for k, m in v.get("messages", []) if isinstance(m, str))
    noted = "?"
    if obs.get("raise"):
        noted = "raise"
    elif obs.get("verdict") is True:
        noted = "ok"
    else:
        new = [m for m in (obs.get("errors") or []) + (obs.get("warnings") or []) if isinstance(m, str) and m.startswith("K:")]
        if new:
            noted = new[-1].split(" ")[0][2:]
        elif any(m == "" for m in ms.values()):
            noted = "empty-message"
    t.append("url-noted=%s:%s" % (v["cls"], noted))
    lib = (case["view"].get("lib") or {})
    entries = lib.get("parse") or []
    if len(entries) > 1:
        t.append("url-strip-needed")
    if entries:
        rec = entries[-1][1]
        if "raises" in rec:
            t.append("url-parse=raises-" + rec["raises"])
        elif isinstance(rec.get("six"), list):
            six = rec["six"]
            t.append("url-scheme=" + ("empty" if six[0] == "" else six[0] if six[0] in ("http", "https", "ftp") else "other"))
            t.append("url-netloc=" + ("empty" if six[1] == "" else "present"))
            for i, nm in enumerate(URL_PARTS[2:], 2):
                if six[i] != "":
                    t.append("url-has-" + nm)
            def kind(x):
                return "raises" if isinstance(x, dict) else "None" if x is None else "int" if isinstance(x, int) else "text" if x != "" else "empty"
            t.append("url-port=" + kind(rec.get("port")))
            t.append("url-hostname=" + kind(rec.get("hostname")) + ("-ipv6" if isinstance(rec.get("hostname"), str) and ":" in rec["hostname"] else ""))
            t.append("url-userinfo=%s/%s" % (kind(rec.get("username")), kind(rec.get("password"))))
            if "[" in six[1] or "]" in six[1]:
                t.append("url-brackets-in-netloc")
    elif case["view"].get("value") is None:
        t.append("url-value=None")
    if v.get("lib"):
        t.append("url-lib=stand-in:" + ",".join(sorted(k + ("=" + str(x) if k != "attrs" else "") for k, x in v["lib"].items())))
    if v["cls"] == "URLValidator":
        sch = v.get("allowed_schemes")
        t.append("url-param:allowed_schemes=" + ("default" if sch is None else "star" if sch == ["*"] else "empty" if not sch else "list"))
        ap = v.get("allowed_parts")
        t.append("url-param:allowed_parts=" + ("default" if ap is None else "%d" % len(ap)))
    if v["cls"] == "HTTPURLValidator":
        for key in ("required_parts", "forbidden_parts"):
            if v.get(key) is None:
                t.append("url-param:%s=default" % key)
            for nm, rule in (v.get(key) or []):
                form = "True" if rule is True else "off" if rule in (False, None) else "empty" if not rule else "values"
                t.append("url-param:%s:%s" % (key, form))
                if nm == "netloc":
                    t.append("url-param:rule-on-netloc")
        ap = v.get("all_parts")
        t.append("url-param:all_parts=" + ("default" if ap is None else "nine+netloc-last" if ap == HTTP_PARTS + ["netloc"] else "without-netloc" if "netloc" not in ap else "custom"))
    if v["cls"] == "URLCanonicalizer":
        d = v.get("discard_parts")
        t.append("url-param:discard_parts=" + ("default" if d is None else "%d" % len(d) if all(x in URL_PARTS for x in d) else "bad-name"))
        if obs.get("verdict") is True and obs.get("value_after") != case["view"].get("value"):
            t.append("url-canonical=rewritten")
        elif obs.get("verdict") is True:
            t.append("url-canonical=same-text")
    val = case["view"].get("value")
    if val is not None and not isinstance(val, str):
        t.append("url-nontext=" + ("falsy" if not val else "truthy") + ":" + v["cls"])
    if isinstance(val, str) and case["build"]["kind"] == "String":
        lib_ = lib_of(v) or _urlparse
        if v["cls"] == "HTTPURLValidator":
            in_c, in_d = _http_quirks(v, val, lib_)
            if in_c:
                t.append("url-param:required-True-on-an-empty-part")
            if in_d:
                t.append("url-param:required-empty-collection")
        if v["cls"] == "URLValidator" and v.get("allowed_schemes") is not None and "" in v["allowed_schemes"]:
            t.append("url-param:allowed_schemes-lists-empty")
            if six_scheme_empty(lib_, val):
                t.append("class:KF-C15-g(no scheme, '' listed)")
        if v["cls"] == "URLCanonicalizer" and _roundtrip_fails(case):
            t.append("class:KF-C15-e(rebuild does not parse back)")
    if v.get("note") == "warning":
        t.append("note_warning")
    return t


def _predict_blocked_scheme(case):
    """the error list KF-C15-g predicts: the earlier ones plus the blocked_scheme text (unless empty / already there)"""
    v = case["v"]
    pre = list(case.get("pre_warnings" if v.get("note") == "warning" else "pre_errors", []))
    tmpl = dict((k, m) for k, m in v.get("messages", [])).get("blocked_scheme", "%(label)s is not a valid URL.")
    if not isinstance(tmpl, str):
        return None
    view = case["view"]

    class _Fields(dict):
        def __missing__(self, key):
            return "%(" + key + ")s"
    # the placeholders the generated message texts use are attributes of the element (label, name, u, value); the
    # text is expanded the way the library expands it: %-formatting against a mapping ('%%' is a literal percent)
    try:
        text = tmpl % _Fields((k, view.get(k)) for k in ("label", "name", "u", "value"))
    except (TypeError, ValueError, KeyError):
        text = tmpl
        for key in ("label", "name", "u", "value"):
            text = text.replace("%%(%s)s" % key, str(view.get(key)))
    return pre if (tmpl == "" or text in pre) else pre + [text]


def six_scheme_empty(lib, val):
    try:
        return lib.urlparse(val.strip()).scheme == ""
    except Exception:
        return False


def rand_net_case(rng):
    cls = rng.choice(["IsEmail", "URLValidator", "HTTPURLValidator", "HTTPURLValidator", "URLCanonicalizer"])
    if cls != "IsEmail":
        return rand_url_case(rng, cls)
    b = {"kind": "String", "name": rng.choice(["email", "url", None])}
    v = {"cls": cls}
    r = rng.random()
    if cls == "IsEmail":
        if r < 0.1:
            b["set"] = None
        elif r < 0.45:
            b["set"] = rng.choice(EMAILS)
        elif r < 0.8:
            b["set"] = rng.choice(["bob", "bob", "a.b", "\u00fc", " ", ""]) + "@" + email_length_domain(rng)
        else:
            loc = rng.choice(["u", "", " ", "a.b", "ü", "a b"])
            dom = ".".join(rng.choice(["a", "exa-mple", "", "x" * 63, "x" * 64, "é", "A1", "-", "a_b"]) for _ in range(rng.randint(1, 4)))
            b["set"] = loc + rng.choice(["@", "@", "@", "", "@@"]) + dom
        if rng.random() < 0.3:
            v["non_local"] = False
        if rng.random() < 0.15:
            v["local_part_pattern"] = rng.choice(["^[a-z.]+$", "^bob$", "^\\S+$", "b"])
    else:
        if r < 0.1:
            b["set"] = None
        elif r < 0.85:
            b["set"] = rng.choice(URLS)
        else:
            b["set"] = (rng.choice(["http", "https", "ftp", "", "x-y"]) + rng.choice(["://", ":", ""]) +
                        rng.choice(["", "u@", "u:p@", ":p@"]) + rng.choice(["h.example", "", "[::1]", "[::1", "H"]) +
                        rng.choice(["", ":80", ":x", ":"]) + rng.choice(["", "/", "/p;x", "/p q"]) +
                        rng.choice(["", "?q=1", "?"]) + rng.choice(["", "#f", "#"]))
        if cls == "URLValidator":
            if rng.random() < 0.5:
                v["allowed_schemes"] = rng.choice([["http", "https"], ["ftp"], ["*"], []])
            if rng.random() < 0.5:
                v["allowed_parts"] = rng.sample(URL_PARTS, rng.randint(0, 6))
        elif cls == "HTTPURLValidator":
            if rng.random() < 0.4:
                v["required_parts"] = rng.choice([[["scheme", ["https"]]], [["hostname", True], ["path", True]],
                                                  [["port", ["80", "443"]]], [], [["query", True]], [["scheme", []]]])
            if rng.random() < 0.4:
                v["forbidden_parts"] = rng.choice([[["fragment", True]], [["port", True]], [["hostname", ["h.example", "example.com"]]],
                                                   [], [["query", True], ["username", True]], [["path", ["/"]]]])
        else:
            if rng.random() < 0.5:
                v["discard_parts"] = rng.sample(URL_PARTS, rng.randint(0, 3))
            if rng.random() < 0.08:
                v["discard_parts"] = rng.choice([["port"], ["fragment", "hostname"], ["username", "query"]])
    return {"v": v, "build": b}


def hostile_case(rng):
    """validators applied outside their documented element kinds / with odd parameters"""
    if rng.random() < 0.12:
        c = {"v": {"cls": "ValueIn", "valid_options": rng.choice(["yes", "yesno", "", "abc", "7 42", "é"])}, "build": rand_scalar_build(rng)}
        return c
    r = rng.random()
    if r < 0.25:
        c = rand_scalar_case(rng)
        c["v"] = {"cls": rng.choice(["NotDuplicated", "HasAtLeast", "Luhn10", "IsEmail", "URLValidator", "HTTPURLValidator", "URLCanonicalizer",
                                      "URLValidator", "HTTPURLValidator"])}
        if c["v"]["cls"] in URL_KEYS and rng.random() < 0.5:
            # falsy values that are not text: urlparse(0) / urlparse(False) do not raise (they parse as bytes)
            c["build"] = {"kind": rng.choice(["Integer", "Boolean"]), "name": "x", "set": rng.choice([0, False, "0", "false", 5, True])}
        return c
    if r < 0.5:
        c = rand_fields_case(rng)
        c["v"]["field_paths"] = c["v"]["field_paths"][:1] + ["nosuch"]
        return c
    if r < 0.75:
        c = rand_seq_case(rng)
        if c["v"]["cls"] == "HasAtMost":
            c["v"]["maximum"] = -1
        elif c["v"]["cls"] == "HasAtLeast":
            c["v"]["minimum"] = -2
        return c
    c = rand_scalar_case(rng)
    for k in ("boundary", "maximum", "minimum"):
        if k in c["v"] and c["v"]["cls"].startswith("Value"):
            c["v"][k] = None
    return c


_MSG_ATTRS = {}


def message_attrs(cls):
    """message attributes of a validator class (looked at the running library)"""
    if cls not in _MSG_ATTRS:
        import flatland.validation as V
        from flatland.validation.number import Luhn10
        C = Luhn10 if cls == "Luhn10" else getattr(V, cls)
        out = []
        for a in dir(C):
            if a.startswith("_"):
                continue
            x = getattr(C, a)
            if (isinstance(x, str) and "%(" in x) or (isinstance(x, tuple) and len(x) == 3 and all(isinstance(y, str) for y in x)):
                out.append(a)
        _MSG_ATTRS[cls] = out
    return _MSG_ATTRS[cls]


def with_overrides(rng, case):
    """Validator(**kw) overrides of message attributes (incl. the empty text) and directly assigned values"""
    if rng.random() < 0.07:
        attrs = message_attrs(case["v"]["cls"])
        if attrs:
            ms = []
            for a in rng.sample(attrs, rng.randint(1, len(attrs))):
                ms.append([a, rng.choice(["", "custom: %(label)s", "%(label)s / %(name)s!", "no placeholders", "100%% %(label)s",
                                          ["one %(label)s", "many %(label)s", "name"]])])
            case["v"]["messages"] = ms
    b = case["build"]
    if b["kind"] in SCALARS and rng.random() < 0.04:
        b["assign"] = rng.choice([{"value": 5, "u": ""}, {"value": None, "u": "x"}, {"value": "abc", "u": "abcdef"},
                                  {"value": 0, "u": "0"}, {"value": "", "u": "q"}])
    return case


GARBAGE = ["int", "none", "text", "ints", "obj"]


def dict_ops_pool(fields):
    """inputs a Dict may have received earlier: complete, with a stray key, with a missing key, garbage, set_flat"""
    good = [[f, "v"] for f in fields]
    return [{"t": "dict", "pairs": good}, {"t": "dict", "pairs": good + [["zz", "v"]]}, {"t": "dict", "pairs": good[1:]},
            {"t": "pairs", "pairs": good[:1] + [["q", "v"]]}, {"t": "flat", "pairs": good}, {"t": "none"}] + \
           [{"t": "garbage", "g": g} for g in GARBAGE]


def with_history(rng, case):
    """earlier set()/set_flat() calls on the same element (good input, bad input, garbage — in any order) before
    the recipe's final one: whatever an earlier call left behind must not influence the verdict"""
    b = case["build"]
    kind = b["kind"]
    p = 0.4 if kind == "Dict" else 0.15
    if rng.random() >= p or b.get("noset"):
        return case
    n = rng.choice([1, 1, 2])
    if kind == "Dict":
        pool = dict_ops_pool(b["fields"])
        b["history"] = [copy.deepcopy(rng.choice(pool)) for _ in range(n)]
        if rng.random() < 0.5:
            b["raw"] = copy.deepcopy(rng.choice(pool))  # the final input is garbage / bad just as often
    elif kind in SCALARS:
        pool = [None, "", "abc", "12", 5, 4111111111111111, True, " x ", "a@b.c", "http://h.example/#f"]
        b["history"] = [rng.choice(pool) for _ in range(n)]
    elif kind in ("List", "Array"):
        pool = [["a", "a", "b"], [], ["1", "x"], {"garbage": "int"}, {"garbage": "none"}, ["z"] * 5]
        b["history"] = [copy.deepcopy(rng.choice(pool)) for _ in range(n)]
        if "index" not in b and rng.random() < 0.2:
            b["values"] = {"garbage": rng.choice(["int", "none"])}
    elif kind == "fields":
        names = [f["name"] for f in b["fields"]]
        pool = [{"pairs": [[nm, "h"] for nm in names]}, {"pairs": [[names[0], "q"], ["zz", "1"]]}, {"garbage": "int"}, {"garbage": "text"}]
        b["history"] = [copy.deepcopy(rng.choice(pool)) for _ in range(n)]
    return case


def with_pre_errors(rng, case):
    """sometimes the element already carries errors, sometimes the very message that will be added"""
    with_overrides(rng, case)
    with_history(rng, case)
    r = rng.random()
    if r < 0.12:
        case["pre_errors"] = ["earlier problem"]
    elif r < 0.2:
        try:
            finish(case)
            obs, _, _ = run_case(case)
            if obs["errors"]:
                case["pre_errors"] = rng.choice([[obs["errors"][-1]], ["earlier problem", obs["errors"][-1]]])
        except Exception:
            pass
    return case


def _vs(maker):
    def f(rng):
        return with_vstate(rng, maker(rng))
    f.__name__ = maker.__name__
    return f


_MAKERS = [(rand_numeric_case, 0.08), (rand_scalar_case, 0.27), (_vs(rand_seq_case), 0.09), (_vs(rand_dup_case), 0.09), (_vs(rand_fields_case), 0.09),
           (rand_dict_case, 0.12), (rand_net_case, 0.20), (hostile_case, 0.06)]


def PROP_GEN(rng):
    """one random finished C15 case (also used by C16's built-in stream)"""
    f = rng.choices([m for m, _ in _MAKERS], [w for _, w in _MAKERS])[0]
    return finish(with_pre_errors(rng, f(rng)))


class C15(Property):
    id = "C15"
    title = "built-in validators decide their documented predicate and explain failures"
    proof_module = "Proofs.C15"
    theorems = ["Flatland.C15.Proofs." + t for t in (
        "decides_partial", "C15_partial", "C15_full_fails", "setWith_nontext_key_reported", "setWith_bad_pairs_valid",
        "decides_urlValidator_partial", "schemeAllowed_eq_code", "C15_empty_scheme_always_blocked", "C15_UrlFull_fails", "urlValidate_eq", "urlPartsLoop_eq",
        "reqFails_eq", "forbFails_eq", "oldRequired_fails", "C15_full_fails_with_value", "http_rule_honoured",
        "canonicalizer_idempotent_partial", "canonicalizer_faithful_partial", "canonicalizer_not_idempotent", "canonicalizer_idempotent_fails",
        "canonicalizer_faithful_fails", "canonicalizer_changes_host",
        "decides_httpURL_partial", "httpURL_key", "httpPartsLoop_eq", "attr_table", "http_no_value_accepted", "C15_HttpFull_fails",
        "http_rule_honoured_partial", "http_netloc_before_later_parts",
        "decides_urlCanonicalizer", "canonicalizer_value", "canonicalizer_failure_keeps_value",
        "blankLoop_ok", "blankLoop_bad", "canonical_has_no_fragment", "value_preserved", "warn_eq_error", "verdict_ignores_validation_state", "notdup_ignores_valid",
        "decides_isEmail", "isEmail_length_on_idna", "isEmail_accepts_short_idna",
        "messages", "messages_total", "false_verdict_records_one", "true_verdict_records_nothing", "expansion_of_chosen",
        "verdict_shape",
        "luhn_pairs_eq_digits", "luhn10Check_eq", "notdup_first_kept",
        "decides_present", "decides_isTrue", "decides_isFalse", "decides_converted", "decides_valueIn",
        "decides_valueInText", "decides_shorterThan", "decides_longerThan", "decides_lengthBetween",
        "decides_valueLessThan", "decides_valueAtMost", "decides_valueGreaterThan", "decides_valueAtLeast",
        "decides_valueBetween", "decides_mapEqual", "decides_notDuplicated",
        "decides_hasAtLeast", "decides_hasAtMost", "decides_hasBetween",
        "decides_setWithKnownFields", "decides_setWithAllFields", "decides_luhn10")]
    generated_obligations = ["Flatland.C15.Proofs.shapes_ok", "Flatland.C15.Proofs.default_all_parts_is_vocabulary"]
    quick_n = 80000
    case_timeout = 30   # per-case alarm (run_impl and oracle each): a hang is reported as an oracle failure
    thorough_n = 800000
    trusted_base = [
        "the element view (value, u, label, siblings, raw keys, resolved field paths) is read off the real element by the harness and re-asserted on every run",
        "urllib.parse.urlparse (and the derived attributes username/password/hostname/port of its result) and the idna codec are opaque: the parse record of the element's value (and of value.strip()) is an input of the model, taken from the real urllib.parse or from the stand-in object of the case; the URL validators' own logic (checks, order, message keys, blanking, rebuild) is modelled and proved over ALL parse records",
        "urllib.parse.urlunparse/urlunsplit are transcribed by hand (stdUnparse/stdUnsplit), pinned against the running interpreter's source by the extractor and compared with the real function on every URLCanonicalizer case; uses_netloc is regenerated (Flatland/Generated/C15Url.lean)",
        "the six items of a parse result are texts (URLCanonicalizer's `current is not None` branch is outside the model)",
        "message templates come from the regenerated table Flatland/Generated/C16Catalogues.lean; expansion is the C16 model",
        "Python comparison/equality of natives modelled for None/str/int/bool only (no float, Decimal, date)",
        "str.isspace code points and IsEmail.domain_pattern are re-implemented by hand (pinned by the extractor)",
    ]
    assumptions = [
        "the model covers String/Integer/Boolean scalars, List/Array of them, Dict of them, with int/str/bool parameters; Float and Decimal elements and float/Decimal parameters (inf, nan, sNaN, non-integral, 1e999) are generated but oracle-only (tag model=oracle-only): the Lean `Val` has no such numbers",
        "MapEqual field paths are plain child names resolved by the harness (path evaluation is C14's subject)",
        "URL validators on values that are not text: URLValidator is modelled and compared (`.strip()` fails inside its try: bad_format); HTTPURLValidator and URLCanonicalizer hand the value to urlparse as it is — 0 / False / 0.0 / b'' parse as BYTES (HTTPURLValidator: False with required_part; URLCanonicalizer: True and the element's value becomes b''), other numbers raise AttributeError (HTTPURLValidator) / give bad_format (URLCanonicalizer): the model answers Raise.unsupported there, the cases are generated (Integer / Boolean elements holding 0 / False / 5 / True) but oracle-only, and the theorems canonicalizer_failure_keeps_value / value_preserved carry the hypothesis Spec.inModel (text or no value).  Oracle clause for them: URLValidator / HTTPURLValidator leave value and u unchanged on every element kind",
        "URLCanonicalizer storing b'' in an Integer(0) / Boolean(False) element is OUTSIDE the property's quantifier, not a finding: its docstring is about 'a valid URL' (a text value), C15 itself exempts the canonicalising validator from 'no validator changes the element's value', and nothing is promised for a validator applied to an element kind it is not documented for (recorded in NOTES-m2 as an observation with the witness)",
        "'the URL has the part' is read once for required_parts and forbidden_parts and for all ten names: the part has a non-empty value (the six tuple items are '' when absent, derived attributes None or ''); allowed_schemes: the wildcard is exactly the one-item sequence ('*',) as the docstring writes it — ('*', 'x') restricts to the names '*' and 'x' (code and docstring agree); a LIST ['*'] (the attribute is documented as a 'sequence') blocks everything in the code: not generated (the harness always passes tuples), noted in NOTES-m2",
        "stand-in urlparse objects are the standard functions with listed deviations (urlparse raising ValueError/TypeError/KeyError, derived attributes overridden or raising ValueError, urlunparse returning other text / None / raising); note_warning is exercised by rebinding note_error to the real Validator.note_warning on 5% of the cases",
        "never generated: custom comparator/transform/domain_pattern objects, NotDuplicated on container members, MapEqual with nested or '..' paths (path evaluation is C14's), ValueIn with set/dict containers (a str container is modelled)",
        "IsEmail: the docstring says the IDN domain must be 'less than 253 characters', the code accepts exactly 253; spec B and the oracle follow the code's reading (<= 253, the DNS limit) — a documentation discrepancy, not counted as a finding",
    ]
    level_text = "proof"
    level_note = ("partial: the per-class decision theorems, Luhn equivalence, first-occurrence, value preservation and message theorems are proved for all inputs on model A; "
                  "IsEmail is decided relative to the opaque idna conversion.  URL validators (over the opaque parse record; spec B is the DOCSTRINGS' predicate, not the code's): "
                  "'the URL has the part' = the part has a non-empty value, read once for required_parts and forbidden_parts and for all ten names; an empty collection is never satisfied; the scheme wildcard is exactly ('*',); "
                  "scheme membership also for '' when listed.  decides_urlValidator_partial (everything outside KF-C15-g: no scheme, '' listed — refuted in full by C15_empty_scheme_always_blocked / C15_UrlFull_fails); "
                  "decides_httpURL_partial excludes only KF-C15-a (no value: http_no_value_accepted / C15_HttpFull_fails) — KF-C15-c / -d are repaired in /repo, the code's required-reading IS the docstring's (reqFails_eq; oldRequired_fails is the counter-model of the old code); "
                  "http_rule_honoured holds again in full for every documented part name under the docstring reading (default all_parts regenerated: default_all_parts_is_vocabulary); which message key is noted (httpURL_key, urlValidate_eq); "
                  "URLCanonicalizer: decides_urlCanonicalizer (verdict), canonicalizer_value (the rebuild of the kept parts), canonicalizer_failure_keeps_value; the promise about the RESULT (canonFaithful: re-parsed, no discarded part, the others kept) and idempotence only as "
                  "canonicalizer_faithful_partial / canonicalizer_idempotent_partial under the explicit hypothesis that the rebuilt text parses back to the kept parts — false in general: canonicalizer_not_idempotent ('////' -> '//' -> ''), canonicalizer_changes_host (KF-C15-e); "
                  "C15_Full is refuted (C15_full_fails, C15_full_fails_with_value), C15_partial proves everything outside Spec.excluded (KF-C15-a, -g); HTTPURLValidator / URLCanonicalizer on values that are not text are outside the model (Spec.inModel); urlparse itself, idna and the derived netloc attributes stay opaque")
    technique = "Lean 4 model + theorems (refinement to the documented predicate per class) + differential correspondence + Python oracle"
    rule = ("every validator class x random parameterisations x String/Integer/Boolean elements set with None / adapted / unadapted text / blank / never set, "
            "List/Array with 0-5 members, members with duplicates at random positions, Dicts set with dict / pairs / flat / non-iterable / malformed raw values, "
            "Float/Decimal elements (8% of cases: inf, nan, sNaN, 1e999, 1.5, 4111111111111111.0 …) against Luhn10, the value-bound validators, ValueIn, ValuesEqual, NotDuplicated; e-mail and URL shape pools plus random assembly, e-mail domains of mixed ASCII / non-ASCII labels steered to every side of 253 characters as text and in IDN form (incl. text <= 253 < IDN), optional local_part_pattern; 6% hostile stream (validator on an element kind it is not documented for, missing field path, "
            "negative counts, None bounds, ValueIn with a str as container, illegal discard_parts names); 7% of cases override message attributes (incl. the empty text, plural triples), 4% of scalar elements get value/u assigned directly; Dicts are also set from one-shot iterators, generators and dict views, SparseDict 30% — two thirds of them with 1-3 member operations (pop / del / clear / item assignment of declared and undeclared keys) between the set() and the validator call; NotDuplicated also on children of a Dict; 45% of the List/Array/fields cases (NotDuplicated, HasAtLeast/AtMost/Between, MapEqual family) carry prior validation state on the container and its children — an earlier whole-tree validate() with other validators in the member chain, members repaired / appended afterwards, .valid assigned True / False / Unevaluated, left-over errors — which no documented predicate reads; 20% of cases start with pre-existing errors (incl. the very message).  non-trivial = the validator returned a verdict")

    def corpus(self):
        out = []
        # fixed in /repo — regressions must be re-reported:
        # 8066146 value-bound validators on None
        for cls, key in (("ValueLessThan", "boundary"), ("ValueAtMost", "maximum"), ("ValueGreaterThan", "boundary"), ("ValueAtLeast", "minimum")):
            out.append({"v": {"cls": cls, key: 4}, "build": {"kind": "Integer", "name": "wishes", "set": "abc"}})
            out.append({"v": {"cls": cls, key: 4}, "build": {"kind": "Integer", "name": "wishes", "noset": True}})
        for inc in (True, False):
            out.append({"v": {"cls": "ValueBetween", "minimum": 1, "maximum": 3, "inclusive": inc},
                        "build": {"kind": "Integer", "name": "wishes", "set": None}})
        # 6e84206 IsEmail on None
        out.append({"v": {"cls": "IsEmail"}, "build": {"kind": "String", "name": "email", "set": None}})
        # e117256 HTTPURLValidator on a URL urlparse rejects
        out.append({"v": {"cls": "HTTPURLValidator"}, "build": {"kind": "String", "name": "url", "set": "http://[::1"}})
        # 88e2ca0 Luhn10 on a negative number
        out.append({"v": {"cls": "Luhn10"}, "build": {"kind": "Integer", "name": "cc", "set": -5}})
        out.append({"v": {"cls": "Luhn10"}, "build": {"kind": "Integer", "name": "cc", "set": 4111111111111111}})
        # seeded C15-email-length-before-idna: 25 labels `snow☃man` + .com are 228 characters as text, 428 in IDN form
        for n_lab in (14, 15, 25):
            out.append({"v": {"cls": "IsEmail"}, "build": {"kind": "String", "name": "email",
                                                          "set": "bob@" + ".".join(["snow\u2603man"] * n_lab) + ".com"}})
        # fixed 2bd63cf (audit rev6 C15-F1): Luhn10 on non-integral / NaN / infinite numbers (used to hang or raise)
        for kind, txt in (("Float", "1e999"), ("Float", "inf"), ("Float", "nan"), ("Float", "1.5"), ("Float", "4111111111111111.0"),
                          ("Decimal", "sNaN"), ("Decimal", "Infinity"), ("Decimal", "4111111111111111"), ("Decimal", "17.5")):
            out.append({"v": {"cls": "Luhn10"}, "build": {"kind": kind, "name": "cc", "set": txt}})
        # fixed 4b20261 (C15-F2): value-bound validators, ValueIn, ValuesEqual on decimal NaN / sNaN
        for txt in ("NaN", "sNaN"):
            out.append({"v": {"cls": "ValueLessThan", "boundary": 4}, "build": {"kind": "Decimal", "name": "n", "set": txt}})
            out.append({"v": {"cls": "ValueBetween", "minimum": 1, "maximum": 5}, "build": {"kind": "Decimal", "name": "n", "set": txt}})
            out.append({"v": {"cls": "ValueIn", "valid_options": [1, {"decimal": "4"}]}, "build": {"kind": "Decimal", "name": "n", "set": txt}})
            out.append({"v": {"cls": "ValuesEqual", "field_paths": ["a", "b"]},
                        "build": {"kind": "fields", "name": "form", "fields": [{"name": "a", "type": "Decimal", "set": txt},
                                                                               {"name": "b", "type": "Decimal", "set": txt}]}})
        # open D-C15-10: NotDuplicated next to a signaling NaN
        out.append({"v": {"cls": "NotDuplicated"}, "build": {"kind": "List", "name": "xs", "member": "Decimal", "member_name": "m",
                                                            "values": ["sNaN", "1.50", "4.0"], "index": 2}})
        # seeded C15-dict-raw-kept-on-failed-set: a stray-key mapping, then something unadaptable
        for g in ("int", "none", "text", "ints"):
            for cls in ("SetWithKnownFields", "SetWithAllFields"):
                out.append({"v": {"cls": cls}, "build": {"kind": "Dict", "name": "d", "fields": ["x", "y"],
                                                        "history": [{"t": "dict", "pairs": [["x", "1"], ["z", "3"]]}],
                                                        "raw": {"t": "garbage", "g": g}}})
        # seeded C15-notduplicated-skips-invalid-siblings: the earlier occurrence failed another validator / carries a stale flag
        lst = {"kind": "List", "name": "colors", "member": "String", "member_name": "color"}
        out.append({"v": {"cls": "NotDuplicated"}, "build": dict(lst, values=["ab", "ab"], index=1, vstate={
            "prevalidate": True, "member_validators": [["NotDuplicated"], ["LongerThan", 3]]})})
        out.append({"v": {"cls": "NotDuplicated"}, "build": dict(lst, values=["x", "x"], index=2, vstate={
            "prevalidate": True, "member_validators": [["NotDuplicated"]], "repair": [[0, "y"]], "append": ["x"]})})
        out.append({"v": {"cls": "NotDuplicated"}, "build": dict(lst, values=["a", "a"], index=1, vstate={"flags": [[0, False]]})})
        out.append({"v": {"cls": "NotDuplicated"}, "build": dict(lst, values=["a", "b", "a"], index=2, vstate={
            "flags": [[0, False], [1, None], ["container", False]], "sib_errors": [[0, ["left over"]]]})})
        # seeded C15-setwithknown-checks-current-members: a SparseDict set() with allowed keys, a member dropped, then validated
        for after in ([{"op": "pop", "key": "y"}], [{"op": "del", "key": "x"}], [{"op": "clear"}],
                      [{"op": "pop", "key": "x"}, {"op": "assign", "key": "x"}]):
            for cls in ("SetWithKnownFields", "SetWithAllFields"):
                out.append({"v": {"cls": cls}, "build": {"kind": "Dict", "name": "point", "fields": ["x", "y"], "sparse": True,
                                                        "raw": {"t": "dict", "pairs": [["x", "1"], ["y", "2"]]}, "after": after}})
        out.append({"v": {"cls": "SetWithKnownFields"}, "build": {"kind": "Dict", "name": "point", "fields": ["x", "y"], "sparse": True,
                                                                 "raw": {"t": "dict", "pairs": [["x", "1"], ["y", "2"], ["z", "3"]]},
                                                                 "after": [{"op": "pop", "key": "x"}]}})
        # fixed fe503f0 (audit rev3a C15-1): set() from a one-shot iterator / generator
        for t, pairs in (("iter", [["a", "1"], ["b", "2"]]), ("iter", [["a", "1"], ["b", "2"], ["z", "3"]]), ("gen", [["a", "1"], ["b", "2"]])):
            for cls in ("SetWithAllFields", "SetWithKnownFields"):
                out.append({"v": {"cls": cls}, "build": {"kind": "Dict", "name": "d", "fields": ["a", "b"], "raw": {"t": t, "pairs": pairs}}})
        # open KF-C15-a; fixed 3bf2238 (D-C15-8), 6dc976e (D-C15-9)
        out.append({"v": {"cls": "HTTPURLValidator"}, "build": {"kind": "String", "name": "url", "set": None}})
        out.append({"v": {"cls": "URLCanonicalizer"}, "build": {"kind": "String", "name": "url", "set": None}})
        out.append({"v": {"cls": "ValueIn", "valid_options": "yes"}, "build": {"kind": "String", "name": "yn", "set": None}})
        out.append({"v": {"cls": "ValueIn", "valid_options": "yes"}, "build": {"kind": "Integer", "name": "yn", "set": 5}})
        out.append({"v": {"cls": "ValueIn", "valid_options": "yes"}, "build": {"kind": "String", "name": "yn", "set": "es"}})
        out.append({"v": {"cls": "URLCanonicalizer", "discard_parts": ["scheme", "path"]}, "build": {"kind": "String", "name": "url", "set": None}})
        # fixed KF-C15-b (all_parts lacked netloc, a rule on it was never looked at): False, one message
        out.append({"v": {"cls": "HTTPURLValidator", "required_parts": [["netloc", ["example.com"]]]},
                    "build": {"kind": "String", "name": "url", "set": "http://evil.example/"}})
        out.append({"v": {"cls": "HTTPURLValidator", "required_parts": [["netloc", ["example.com"]]]},
                    "build": {"kind": "String", "name": "url", "set": "h"}})
        out.append({"v": {"cls": "HTTPURLValidator", "forbidden_parts": [["netloc", True]], "required_parts": []},
                    "build": {"kind": "String", "name": "url", "set": "http://h/"}})
        # fixed KF-C15-c (`required is True` tested `value is None`: never failed on a part that is '') and KF-C15-d (an
        # empty collection was skipped): False, one message (required_part, each key with its own text)
        kmr = [[k, "K:" + k + " %(label)s"] for k in URL_KEYS["HTTPURLValidator"]]
        for rules, url in (([["path", True]], "http://h"), ([["query", True]], "http://h/p"), ([["fragment", True]], "http://h/p?q"),
                           ([["username", True]], "http://@h/"), ([["scheme", []]], "ftp://h/"), ([["hostname", []]], "http://h/"),
                           ([["params", True], ["scheme", []]], "http://h/p;x")):
            out.append({"v": {"cls": "HTTPURLValidator", "required_parts": rules, "forbidden_parts": [], "messages": kmr},
                        "build": {"kind": "String", "name": "url", "set": url}})
            out.append({"v": {"cls": "HTTPURLValidator", "required_parts": rules}, "build": {"kind": "String", "name": "url", "set": url}})
        # netloc is visited second: a URL violating a netloc rule AND a later part's rule gets the netloc message,
        # one violating a scheme rule and a netloc rule gets the scheme message (every key with its own text)
        km = [[k, "K:" + k + " %(label)s"] for k in URL_KEYS["HTTPURLValidator"]]
        out.append({"v": {"cls": "HTTPURLValidator", "required_parts": [["port", ["80"]]], "forbidden_parts": [["netloc", ["evil.example"]]],
                          "messages": km}, "build": {"kind": "String", "name": "url", "set": "http://evil.example/"}})
        out.append({"v": {"cls": "HTTPURLValidator", "required_parts": [["scheme", ["https"]]], "forbidden_parts": [["netloc", ["evil.example"]]],
                          "messages": km}, "build": {"kind": "String", "name": "url", "set": "http://evil.example/"}})
        out.append({"v": {"cls": "HTTPURLValidator", "required_parts": [["netloc", ["example.com"]]], "forbidden_parts": [["username", True]],
                          "messages": km}, "build": {"kind": "String", "name": "url", "set": "http://u@evil.example/"}})
        out.append({"v": {"cls": "HTTPURLValidator", "required_parts": [["netloc", ["example.com"]]], "all_parts": HTTP_PARTS + ["netloc"]},
                    "build": {"kind": "String", "name": "url", "set": "http://evil.example/"}})
        # one witness per message key / branch of the URL validators, every message attribute with its own text
        for cls, vd, url in (
                ("URLValidator", {}, "http://[::1"), ("URLValidator", {}, "example.com"), ("URLValidator", {"allowed_schemes": ["https"]}, " http://h/ "),
                ("URLValidator", {"allowed_parts": ["scheme", "netloc"]}, "http://h/p"), ("URLValidator", {"allowed_parts": ["scheme", "netloc"]}, "\u00a0http://h\t"),
                ("HTTPURLValidator", {}, "http://h:x/"), ("HTTPURLValidator", {}, "http://h:99999/"), ("HTTPURLValidator", {}, "ftp://h/"),
                ("HTTPURLValidator", {}, "http:///p"), ("HTTPURLValidator", {}, "http://u:p@h/"), ("HTTPURLValidator", {}, "http://[::1]:80/"),
                ("HTTPURLValidator", {"required_parts": [["port", ["80", "443"]]]}, "http://h:80/"),
                ("HTTPURLValidator", {"required_parts": [["port", ["80", "443"]]]}, "http://h:8080/"),
                ("HTTPURLValidator", {"forbidden_parts": [["hostname", ["h"]], ["scheme", True]], "required_parts": [["scheme", ["http"]]]}, "http://h/"),
                ("HTTPURLValidator", {"lib": {"attrs": {"hostname": "raises"}}}, "http://h/"),
                ("HTTPURLValidator", {"lib": {"parse_raises": "TypeError"}}, "http://h/"),
                ("URLCanonicalizer", {}, "http://h/p?q#f"), ("URLCanonicalizer", {}, "http://[::1"), ("URLCanonicalizer", {"discard_parts": ["netloc", "query"]}, "http://h/p?q#f"),
                ("URLCanonicalizer", {"discard_parts": ["scheme"]}, "http://h/p"), ("URLCanonicalizer", {"discard_parts": ["path"]}, "x-y:p;a?q"),
                ("URLCanonicalizer", {"lib": {"unparse": "upper"}}, "http://h/p#f"), ("URLCanonicalizer", {"lib": {"unparse": "raises"}}, "http://h/p#f"),
                ("URLCanonicalizer", {"lib": {"parse_raises": "KeyError"}}, "http://h/p#f")):
            vd = dict(vd, cls=cls, messages=[[k, "K:" + k + " %(label)s"] for k in URL_KEYS[cls]])
            out.append({"v": vd, "build": {"kind": "String", "name": "url", "set": url}})
        # note_warning in place of note_error
        out.append({"v": {"cls": "Present", "note": "warning"}, "build": {"kind": "String", "name": "s", "set": ""}, "pre_warnings": ["earlier"]})
        out.append({"v": {"cls": "HTTPURLValidator", "note": "warning"}, "build": {"kind": "String", "name": "url", "set": "ftp://h/"},
                    "pre_errors": ["earlier problem"]})
        # message attribute overridden with the empty text: a false verdict that records nothing
        out.append({"v": {"cls": "Present", "messages": [["missing", ""]]}, "build": {"kind": "String", "name": "s", "set": ""}})
        out.append({"v": {"cls": "URLCanonicalizer", "discard_parts": ["port"]}, "build": {"kind": "String", "name": "url", "set": "http://a.example/"}})
        # fixed 5e93603 (D-C15-5: raw items that are not pairs), 7308ea3 (D-C15-6: a key that is not text)
        out.append({"v": {"cls": "SetWithKnownFields"}, "build": {"kind": "Dict", "name": "d", "fields": ["a", "b"], "raw": {"t": "str", "s": "abc"}}})
        out.append({"v": {"cls": "SetWithAllFields"}, "build": {"kind": "Dict", "name": "d", "fields": ["a", "b"], "raw": {"t": "triples"}}})
        out.append({"v": {"cls": "SetWithKnownFields"}, "build": {"kind": "Dict", "name": "d", "fields": ["a"],
                                                                 "raw": {"t": "dict", "pairs": [[{"int": 1}, "x"]]}}})
        # fixed e508833 (D-C15-7): MapEqual's default transform was a plain function in the class body
        out.append({"v": {"cls": "MapEqual", "field_paths": ["a", "b"]},
                    "build": {"kind": "fields", "name": "form", "fields": [{"name": "a", "type": "String", "set": "x"},
                                                                           {"name": "b", "type": "String", "set": "x"}]}})
        out.append({"v": {"cls": "MapEqual", "field_paths": ["a", "b"]},
                    "build": {"kind": "fields", "name": "form", "fields": [{"name": "a", "type": "Integer", "set": "1"},
                                                                           {"name": "b", "type": "Integer", "set": "01"}]}})
        out.append({"v": {"cls": "SetWithAllFields"}, "build": {"kind": "Dict", "name": "d", "fields": ["a"],
                                                               "raw": {"t": "dict", "pairs": [["a", "x"], [{"int": 1}, "x"], ["1", "y"]]}}})
        extra = []
        try:
            import json as _json, os as _os
            _p = _os.path.join(_os.path.dirname(__file__), 'c15_corpus.json')
            if _os.path.exists(_p):
                extra = _json.load(open(_p))
        except Exception:
            extra = []
        return extra + [finish(c) for c in out]

    def exhaustive(self, tier):
        for c in boundary_scalar_cases():
            yield finish(c)
        for c in all_dup_positions():
            yield finish(c)
        for c in vstate_dup_cases():
            yield finish(c)
        # every member count 0..5 against every bound 0..4
        for n in range(0, 6):
            for bound in range(0, 5):
                base = {"kind": "List", "name": "xs", "member": "String", "member_name": "wish", "values": ["v"] * n}
                yield finish({"v": {"cls": "HasAtLeast", "minimum": bound}, "build": dict(base)})
                yield finish({"v": {"cls": "HasAtMost", "maximum": bound}, "build": dict(base)})
                for hi in range(bound, 5):
                    if tier == "thorough" or hi - bound <= 1:
                        yield finish({"v": {"cls": "HasBetween", "minimum": bound, "maximum": hi}, "build": dict(base)})
        # IsEmail: 1..32 international labels (8 characters as text, 16 in IDN form) and 1..5 ASCII labels of 60/63
        for n_lab in range(1, 33):
            for lab in ("snow\u2603man", "b\u00fccher"):
                for nl in (True, False):
                    yield finish({"v": {"cls": "IsEmail", "non_local": nl},
                                  "build": {"kind": "String", "name": "email", "set": "bob@" + ".".join([lab] * n_lab) + ".com"}})
        for n_lab in range(1, 6):
            for ln in (60, 62, 63, 64):
                yield finish({"v": {"cls": "IsEmail"}, "build": {"kind": "String", "name": "email",
                                                                "set": "bob@" + ".".join(["x" * ln] * n_lab) + ".com"}})
        # raw-key validators after every sequence of 2 (thorough: 2-3) earlier/final inputs out of 11 kinds
        flds = ["a", "b"]
        pool = dict_ops_pool(flds)
        for length in ((2, 3) if tier == "thorough" else (2,)):
            for seq in itertools.product(range(len(pool)), repeat=length):
                for cls in ("SetWithKnownFields", "SetWithAllFields"):
                    ops = [copy.deepcopy(pool[i]) for i in seq]
                    yield finish({"v": {"cls": cls}, "build": {"kind": "Dict", "name": "d", "fields": flds,
                                                              "history": ops[:-1], "raw": ops[-1]}})
        # SparseDict: every raw key set out of 4 x every sequence of 1-2 member operations out of 6, both validators
        mops = [{"op": "pop", "key": "a"}, {"op": "pop", "key": "b"}, {"op": "del", "key": "a"}, {"op": "clear"},
                {"op": "assign", "key": "b"}, {"op": "assign", "key": "a"}]
        for keys in (["a", "b"], ["a"], ["a", "b", "z"], []):
            for length in (1, 2):
                for seq in itertools.product(range(len(mops)), repeat=length):
                    for cls in ("SetWithKnownFields", "SetWithAllFields"):
                        yield finish({"v": {"cls": cls}, "build": {"kind": "Dict", "name": "d", "fields": flds, "sparse": True,
                                                                  "raw": {"t": "dict", "pairs": [[k, "v"] for k in keys]},
                                                                  "after": [copy.deepcopy(mops[i]) for i in seq]}})
        # Luhn: every number below 2000 (thorough: 20000)
        top = 20000 if tier == "thorough" else 2000
        for n in range(0, top):
            yield finish({"v": {"cls": "Luhn10"}, "build": {"kind": "Integer", "name": "cc", "set": n}})

    exhaustive_note = ("every comparison class at value = bound-1, bound, bound+1, None, unadapted; length classes at every length 0..6; "
                       "NotDuplicated with one duplicate at every pair of positions of a 4-member List/Array checked at every index; NotDuplicated at every member of every 2-3 member list over two values after a whole-tree validate() under three member chains and under every assignment of valid in {True, False, Unevaluated} to the members; "
                       "member counts 0..5 against every bound 0..4; SetWithKnownFields/SetWithAllFields on a SparseDict set with each of 4 key sets followed by every sequence of 1-2 member operations (pop / del / clear / item assignment) out of 6; SetWithKnownFields/SetWithAllFields after every sequence of 2 (thorough: also 3) inputs out of 11 kinds (complete / stray key / missing key / pairs / set_flat / None / five kinds of garbage); IsEmail on 1..32 international labels (text length vs IDN length around 253) and on 60/62/63/64-character ASCII labels; Luhn10 on every integer below 2000 (thorough: 20000)")

    def generate(self, rng, n, tier):
        for _ in range(n):
            f = rng.choices([m for m, _ in _MAKERS], [w for _, w in _MAKERS])[0]
            case = with_pre_errors(rng, f(rng))
            if rng.random() < 0.05 and not _tagged(case["v"]):
                # the validator reports through note_warning (same key, same keywords): warnings in place of errors
                case["v"]["note"] = "warning"
                case["pre_warnings"], case["pre_errors"] = case.get("pre_errors", []), rng.choice([[], [], ["earlier problem"]])
            yield finish(case)

    def has_model(self, case):
        def ok(x):
            return not (isinstance(x, dict) and "other" in x)
        if _tagged(case["v"]):
            return False  # float / Decimal parameters: oracle only

        def has_other(x):
            if isinstance(x, dict):
                return "other" in x or any(has_other(y) for y in x.values())
            if isinstance(x, list):
                return any(has_other(y) for y in x)
            return False
        if has_other(case["view"]):
            return False  # float / Decimal / bytes … values anywhere in the view: oracle only
        view = case["view"]
        if not ok(view.get("value")) or not ok(view.get("label")):
            return False
        if any(not ok(k) for k in (view.get("raw") or {}).get("keys", [])):
            return False
        if case["v"]["cls"] in ("HTTPURLValidator", "URLCanonicalizer", "IsEmail") and \
                not (view.get("value") is None or isinstance(view.get("value"), str)):
            return False  # urlparse / str methods on a number: outside the modelled domain
        return True

    def run_impl(self, case):
        obs, _, _ = run_case(case)
        return obs

    def oracle(self, case):
        return oracle_case(case)

    def classify(self, case, failure):
        """A failure is filed under an open finding only if the case is in its class AND the observation is the one
        the finding describes."""
        v = case["v"]
        view = case["view"]
        cl = failure.get("clause")
        if v["cls"] == "HTTPURLValidator" and view.get("value") is None and case["build"]["kind"] == "String" \
                and cl == "verdict-equals-documented-condition" and failure.get("observed") is True \
                and failure.get("_errors_unchanged") and failure.get("_warnings_unchanged") and failure.get("_value_unchanged"):
            return "KF-C15-a"
        if v["cls"] == "URLValidator" and isinstance(view.get("value"), str) and case["build"]["kind"] == "String" \
                and ((cl == "verdict-equals-documented-condition" and failure.get("expected") is True
                      and failure.get("observed") is False and failure.get("_value_unchanged"))
                     or (cl == "false-verdict-records-the-one-message" and failure.get("observed") == _predict_blocked_scheme(case))):
            # (the second form: the docstring's predicate is False for another reason — a part not allowed — and the
            # message noted is nevertheless the blocked_scheme one)
            # KF-C15-g: no scheme, '' listed in allowed_schemes (not the wildcard)
            sch = v.get("allowed_schemes")
            try:
                no_scheme = (lib_of(v) or _urlparse).urlparse(view["value"].strip()).scheme == ""
            except Exception:
                no_scheme = False
            if sch is not None and tuple(sch) != ("*",) and "" in sch and no_scheme:
                return "KF-C15-g"
        if v["cls"] == "URLCanonicalizer" and cl in ("canonical-url-has-no-discarded-part", "canonical-url-keeps-the-other-parts",
                                                      "canonical-url-is-stable", "canonical-url-parses") and _roundtrip_fails(case):
            return "KF-C15-e"
        b = case["build"]
        if v["cls"] == "NotDuplicated" and b.get("member") == "Decimal" and "index" in b \
                and cl == "returns-a-verdict-without-raising" and failure.get("observed") == "InvalidOperation" \
                and any(isinstance(x, str) and x.strip().lower() == "snan" for x in b["values"][:b["index"] + 1]):
            return "D-C15-10"
        return None

    def nontrivial(self, case, obs):
        return obs.get("raise") is None

    def tags(self, case, obs):
        v = case["v"]
        b = case["build"]
        t = ["cls=" + v["cls"], "elem=" + b["kind"] + ("-member" if "index" in b else ""),
             "outcome=" + (obs["raise"] or str(obs["verdict"]))]
        view = case["view"]
        if not view.get("container"):
            val = view.get("value")
            t.append("value=" + ("None" if val is None else type(val).__name__))
            if val is None and view.get("u"):
                t.append("unadapted-text")
        if case.get("pre_errors"):
            t.append("pre-errors")
        # how often the model / the theorems apply
        model = self.has_model(case)
        t.append("model=" + ("yes" if model else "oracle-only"))
        if b["kind"] in NUMERIC or b.get("member") in NUMERIC:
            t.append("numeric-element")
        if model and obs["raise"] is None and v["cls"] not in ("URLValidator", "HTTPURLValidator", "URLCanonicalizer"):
            t.append("hyp:decides(documented=some)~holds")  # the model returned a verdict on a class with a spec
        if obs["raise"] is None and obs["verdict"] is False and len(obs["errors"]) > len(case.get("pre_errors", [])):
            t.append("hyp:messages_total=holds")
        if b.get("history"):
            t.append("history=%d" % len(b["history"]))
        vs = b.get("vstate")
        if vs:
            t.append("prior-validation-state")
            for k in ("prevalidate", "member_validators", "repair", "append", "flags", "sib_errors"):
                if vs.get(k):
                    t.append("vstate:" + k)
            st = case["view"].get("sibling_state") or []
            pos = case["view"].get("pos")
            if pos is not None and any(x[0] is False for x in st[:pos]):
                t.append("vstate:earlier-sibling-invalid")
        if b.get("sparse"):
            t.append("sparse-dict")
        if b.get("after"):
            t.append("member-ops-after-set=%d" % len(b["after"]))
            for a in b["after"]:
                t.append("member-op=" + a["op"])
        if v["cls"] in URL_KEYS:
            t += url_tags(case, obs)
        elif v.get("note") == "warning":
            t.append("note_warning")
        if v["cls"] == "IsEmail":
            ec = email_class(view.get("value"))
            if ec:
                t.append(ec)
            if v.get("local_part_pattern") is not None:
                t.append("email-local-pattern")
        return t

    def shrink_candidates(self, case):
        b = case["build"]
        def redo(c):
            try:
                return finish(c)
            except Exception:
                return None
        if case.get("pre_errors"):
            c = copy.deepcopy(case)
            c["pre_errors"] = []
            r = redo(c)
            if r:
                yield r
        for i in range(len(b.get("history", []))):
            c = copy.deepcopy(case)
            del c["build"]["history"][i]
            r = redo(c)
            if r:
                yield r
        for k in list(b.get("vstate", {}).keys()):
            c = copy.deepcopy(case)
            del c["build"]["vstate"][k]
            if k == "append" and "index" in b:
                continue
            r = redo(c)
            if r:
                yield r
        for i in range(len(b.get("after", []))):
            c = copy.deepcopy(case)
            del c["build"]["after"][i]
            r = redo(c)
            if r:
                yield r
        if "values" in b and len(b["values"]) > 1:
            for i in range(len(b["values"])):
                if "index" in b and i == b["index"]:
                    continue
                c = copy.deepcopy(case)
                del c["build"]["values"][i]
                if "index" in b and i < b["index"]:
                    c["build"]["index"] -= 1
                r = redo(c)
                if r:
                    yield r
        if isinstance(b.get("set"), str) and len(b["set"]) > 1:
            for cut in (b["set"][: len(b["set"]) // 2], b["set"][1:], b["set"][:-1]):
                c = copy.deepcopy(case)
                c["build"]["set"] = cut
                r = redo(c)
                if r:
                    yield r
        if isinstance(b.get("set"), int) and not isinstance(b.get("set"), bool) and abs(b["set"]) > 9:
            for cut in (b["set"] // 10, b["set"] // 100, b["set"] % 100):
                c = copy.deepcopy(case)
                c["build"]["set"] = cut
                r = redo(c)
                if r:
                    yield r
        if b["kind"] == "fields" and len(b["fields"]) > 2:
            for i in range(len(b["fields"])):
                if b["fields"][i]["name"] in case["v"].get("field_paths", []) and len(case["v"]["field_paths"]) <= 2:
                    continue
                c = copy.deepcopy(case)
                nm = c["build"]["fields"][i]["name"]
                del c["build"]["fields"][i]
                c["v"]["field_paths"] = [p for p in c["v"]["field_paths"] if p != nm]
                r = redo(c)
                if r:
                    yield r
        if b["kind"] == "Dict" and "pairs" in b.get("raw", {}):
            for i in range(len(b["raw"]["pairs"])):
                c = copy.deepcopy(case)
                del c["build"]["raw"]["pairs"][i]
                r = redo(c)
                if r:
                    yield r
        for k in ("label", "member_label"):
            if k in b:
                c = copy.deepcopy(case)
                del c["build"][k]
                r = redo(c)
                if r:
                    yield r


PROP = C15()
