"""C09 — Sequence elements behave as Python lists of member elements."""
import copy
import itertools

from harness.core import Property, canon
from harness.props import g1common as G


# ---------------------------------------------------------------- observation

def view(ex, info):
    root = ex.root
    members = []
    from flatland.schema.base import Element
    for m in root:
        if not isinstance(m, Element):
            members.append([ex.lab(m), {"raw": G.vj(m)}, None])
            continue
        scalar = G.kind_of_element(m) in ("integer", "string")
        members.append([ex.lab(m), G.sv(m), m.u if scalar else None])
    slots = None
    if G.kind_of_element(root) == "list":
        slots = [(getattr(getattr(m, "parent", None), "name", None)) for m in root]
    return {"members": members, "slots": slots, "value": G.sv(root), "len": len(root)}


# ---------------------------------------------------------------- oracle: a real Python list

class Ref:
    """the plain Python list of adapted values that receives the same operations.
    Items are (value, u) so that the key functions of sort() have something to read; equality
    searches compare the adapted value only, as the property states."""

    def __init__(self):
        self.items = []

    def values(self):
        return [v for v, _ in self.items]


class It(tuple):
    """(value, u) of a member, plus what the sort keys of the harness read off the member"""
    extra = None


def _item(m):
    it = It((m.value, m.u))
    extra = {}
    try:
        extra["len"] = len(m)
    except Exception:
        extra["len"] = None
    try:
        fs = getattr(m, "field_schema", None)
        extra["field"] = m[fs[0].name].u if fs else None
    except Exception:
        extra["field"] = None
    it.extra = extra
    return it


def _adapted(ex, tagged):
    """(value, u) an argument contributes: an Element as it is, a plain value through the member
    schema (adaptation itself is C04's business, it is taken as given here)"""
    tag, v = tagged
    if tag == "elem":
        return _item(v)
    return _item(ex.root.member_schema(v))


def _unadapted(pair):
    value, u = pair
    return value is None and u != ""


def _adapt_all(ex, values):
    """values of member_schema(v) for each v; ("raises", ExcName) if a constructor raises"""
    out = []
    for v in values:
        try:
            out.append(ex.root.member_schema(v).value)
        except Exception as e:
            return ("raises", type(e).__name__)
    return out


def _expected_after_set(ex, value):
    """members' values after seq.set(value): the adapted items of the iterable; [] when it is not iterable or a member
    constructor raises; None = not predicted"""
    try:
        items = list(iter(value))
    except TypeError:
        return []
    r = _adapt_all(ex, items)
    if isinstance(r, tuple):
        return []
    return r


def _expected_after_default(ex, before_values):
    root = ex.root
    d = root.default_value
    if d is None:
        return list(before_values)
    if G.kind_of_element(root) == "list":
        if isinstance(d, int):
            try:
                return [root.member_schema.from_defaults().value for _ in range(d)]
            except Exception:
                return None
        return _expected_after_set(ex, d)
    try:
        r = _adapt_all(ex, list(d))
    except TypeError:
        return None
    return None if isinstance(r, tuple) else r


def _expected_after_flat(ex, pairs):
    """members' values after seq.set_flat(pairs) in the simple shapes: a List / named Array / named MultiValue of
    scalar members, every key either exactly addressing a member (`name_<i>[_member]`, `name[_member]`) or not
    starting with the sequence's name at all.  None = not predicted (aliases, junk continuations, ... are C01/C02's)"""
    import re
    root = ex.root
    kind = G.kind_of_element(root)
    ms = root.member_schema
    if G.kind_of_class(ms) not in ("integer", "string"):
        return None
    name, mname = root.name, ms.name
    prune = bool(getattr(root, "prune_empty", True))
    if kind == "list":
        prefix = (name + "_") if name else ""
        exact = re.compile("^" + re.escape(prefix) + r"([0-9]{1,3})" + ("_" + re.escape(mname) if mname else "") + "$")
        by_index = {}
        for k, v in pairs:
            m = exact.match(k)
            if m is None:
                if (name and k.startswith(name)) or (not name and k[:1].isdigit()):
                    return None            # a key that may still address something: not predicted here
                continue
            if isinstance(v, str) and v == "" and prune:    # "empty" is the empty STRING, nothing else (see assumptions)
                continue
            by_index.setdefault(int(m.group(1)), v)      # the first pair of a slot wins
        if not prune:
            # lossless: members up to the highest index seen, the ones without a pair blank
            if not by_index:
                return []
            if max(by_index) >= 1024:
                return None
            blank = ms().value
            r = []
            for i in range(max(by_index) + 1):
                if i in by_index:
                    a = _adapt_all(ex, [by_index[i]])
                    if isinstance(a, tuple):
                        return None
                    r.append(a[0])
                else:
                    r.append(blank)
            return r
        vals = [by_index[i] for i in sorted(by_index)]
    elif kind in ("array", "multi") and name:
        want = name + ("_" + mname if mname else "")
        vals = []
        for k, v in pairs:
            if k == want:
                if isinstance(v, str) and v == "" and prune:
                    continue
                vals.append(v)
            elif k.startswith(name):
                return None
    else:
        return None
    r = _adapt_all(ex, vals)
    return None if isinstance(r, tuple) else r


def _expected_after_roundtrip(ex, before_pairs, text):
    """members' values after `seq.set_flat(seq.flatten(value=lambda e: e.value))` (or the text form): the plain list
    of the values the sequence held, re-adapted, member i at index i — minus, on a pruning sequence, the members whose
    flat value is the empty string.  Predicted for scalar members and for Dict members with scalar fields (a pruned
    field comes back blank; a member all of whose fields are pruned disappears).  None = not predicted."""
    root = ex.root
    kind = G.kind_of_element(root)
    ms = root.member_schema
    prune = bool(getattr(root, "prune_empty", True))
    mk = G.kind_of_class(ms)
    if mk in ("integer", "string"):
        if kind in ("array", "multi") and not root.name and not ms.name and len(before_pairs) > 0:
            return None        # the key of every pair is None / '': not predicted here
        vals = [(u if text else v) for v, u in before_pairs]
        empty = lambda x: isinstance(x, str) and x == ""
        if kind == "list" and not prune:
            pass
        else:
            vals = [x for x in vals if not (prune and empty(x))]
        r = _adapt_all(ex, vals)
        return None if isinstance(r, tuple) else r
    return None


def _expected_after_route(ex, init, out):
    if init["route"] in ("from_flat", "set_flat") and not (isinstance(out, dict) and "exc" in out):
        return _expected_after_flat(ex, init.get("pairs") or [])
    route = init["route"]
    if isinstance(out, dict) and "exc" in out:
        return [] if route in ("ctor_value", "from_defaults") else None
    if route == "ctor":
        return []
    if route in ("ctor_value", "set"):
        return _expected_after_set(ex, G.py(init.get("value")))
    if route in ("from_defaults", "set_default"):
        return _expected_after_default(ex, [])
    return None


def make_check():
    state = {"ref": None}

    def check(ex, info):
        fails = []
        root = ex.root
        kind = G.kind_of_element(root)

        extra = {}

        def fail(clause, expected, observed):
            un = any(_leaf_unadapted(m) for m in root) or any(
                (tag == "elem" and _leaf_unadapted(v)) or (tag == "plain" and _plain_unadapted(ex, v))
                for tag, v in (info.get("args") or []))
            raised = info.get("raised")
            fails.append({"clause": clause, "expected": expected, "observed": observed, "step": info["i"],
                          "op": info.get("op"), "unadapted": un, "kind": kind,
                          "raised": type(raised).__name__ if raised is not None else None,
                          "plain": bool(info.get("args")) and info["args"][0][0] == "plain"})
            fails[-1].update(extra)

        if info["init"]:
            ref = Ref()
            ref.items = [_item(m) for m in root]     # the list the construction route produced
            state["ref"] = ref
            exp = _expected_after_route(ex, ex.case["init"], info["out"])
            if exp is not None and exp != ref.values():
                fail("route-builds-adapted-list", G.vj(exp), G.vj(ref.values()))
        else:
            ref = state["ref"]
            op = info["op"]
            fails.extend(G.check_rejected(ex, info))
            fails.extend(G.check_sort_failure(ex, info))
            if info.get("target") is not None and info["target"] is not root:
                # a call on another sequence (the second tree the case keeps alive, or a member that is itself a
                # sequence): the list at the root received NO operation — whatever the call did or rejected, with
                # members of the root as arguments or not, the root still equals the reference (state clauses below)
                before_pairs = list(ref.items)
                op = None
                if any(p is root for p in ex.parents(info["target"])):
                    # ... unless the target is a sequence BELOW the root (a member that is itself a List, round m1): the
                    # member's value is what that call made of it; the root's reference follows (the call itself is under
                    # G.check_sort_failure / C08's clauses, the root under the state clauses below)
                    ref.items = [_item(m) for m in root]
            if op is not None and "skip" not in (info["out"] if isinstance(info["out"], dict) else {}):
                name = op["op"]
                raised = info["raised"]
                rname = type(raised).__name__ if raised is not None else None
                exp_exc = None
                exp_ret = None
                items = ref.items
                before_pairs = list(ref.items)
                handled = False
                try:
                    args = None
                    if name in ("append", "insert", "setitem", "remove", "contains", "index", "count"):
                        try:
                            args = [_adapted(ex, info["args"][0])]
                        except Exception:
                            args = None     # the member schema rejected the plain value: nothing to compare
                    elif name in ("extend", "iadd", "setslice"):
                        args = []
                        for a in info["args"]:
                            try:
                                args.append(_adapted(ex, a))
                            except Exception:
                                args = None
                                break
                    if name == "append" and args:
                        items.append(args[0])
                    elif name in ("extend", "iadd") and args is not None:
                        items.extend(args)
                    elif name in ("insert", "setitem") and "ix" in op:
                        # an index that is no integer: a Python list raises TypeError and stays as it is
                        try:
                            if name == "insert":
                                items.insert(G.bad_index(op), args[0] if args else None)
                            else:
                                items[G.bad_index(op)] = args[0] if args else None
                        except TypeError:
                            exp_exc = "TypeError"
                    elif name == "insert" and args:
                        items.insert(op["i"], args[0])
                    elif name == "setitem" and args:
                        items[op["i"]] = args[0]
                    elif name == "setslice" and args is not None:
                        items[slice(*op["sl"])] = args
                    elif name == "delitem":
                        del items[op["i"]]
                    elif name == "delslice":
                        del items[slice(*op["sl"])]
                    elif name == "pop":
                        exp_ret = items.pop() if op.get("i") is None else items.pop(op["i"])
                    elif name == "remove" and args:
                        vals = ref.values()
                        del items[vals.index(args[0][0])]
                    elif name == "reverse":
                        items.reverse()
                    elif name == "sort":
                        if op.get("key") == "u":
                            items.sort(key=lambda p: p[1], reverse=bool(op["rev"]))
                        elif op.get("key") == "ulen":
                            items.sort(key=lambda p: len(p[1]), reverse=bool(op["rev"]))
                        elif op.get("key") == "raise":
                            if len(items) >= 2:
                                exp_exc = "KeyRaises"        # the key function fails on its second call: nothing moves
                        elif op.get("key") in G.SORT_CMP_FAILS:
                            # a key under which a COMPARISON may fail (round m1): the plain list receives the same call
                            # with the same key on the adapted values — it ends sorted, or raises and is left in SOME
                            # rearrangement of its items (CPython's documented behaviour)
                            keyf = G.comparison_failing_key(op, lambda p: p[0], lambda p: p[1], lambda: items.append(None))
                            try:
                                items.sort(key=keyf, reverse=bool(op["rev"]))
                            except Exception as e:
                                exp_exc = "CmpFails:" + type(e).__name__
                        elif op.get("key") in ("len", "field"):
                            if any(p.extra is None or p.extra.get(op["key"]) is None for p in items):
                                exp_exc = "KeyRaises"        # the key function raises on some member: so must sort()
                            else:
                                items.sort(key=lambda p: p.extra[op["key"]], reverse=bool(op["rev"]))
                        # sort() without a key: a list of elements raises TypeError; not demanded
                    elif name == "reversed":
                        exp_ret = list(reversed(items))
                    elif name == "imul_bad":
                        try:
                            items *= {"float": 2.5, "str": "a", "none": None}[op["x"]]
                        except TypeError:
                            exp_exc = "TypeError"
                    elif name == "set_mixed":
                        ref.items = [_item(m) for m in root]
                        if raised is None:
                            want, elem_pos = [], []
                            for j, a in enumerate(info["args"]):
                                try:
                                    want.append(_adapted(ex, a)[0])
                                except Exception:
                                    want = None
                                    break
                                if a[0] == "elem":
                                    elem_pos.append(j)
                            got = ref.values()
                            if want is not None and got != want:
                                bad = [j for j in range(max(len(got), len(want)))
                                       if j >= len(got) or j >= len(want) or got[j] != want[j]]
                                extra["mismatch_positions"] = bad
                                extra["element_positions"] = elem_pos
                                # what `member_schema().set(<the Element>)` gives: that is what set() does today
                                as_set = True
                                for j in bad:
                                    try:
                                        tmp = root.member_schema()
                                        tmp.set(info["args"][j][1])
                                        as_set = as_set and j < len(got) and tmp.value == got[j]
                                    except Exception:
                                        as_set = False
                                extra["observed_is_set_of_element"] = as_set
                                extra["same_length"] = len(got) == len(want)
                                fail("set-builds-adapted-list", G.vj(want), G.vj(got))
                                extra.clear()
                    elif name == "clear":
                        items.clear()
                    elif name == "imul":
                        items *= op["n"]          # plain list semantics on the adapted items
                    elif name == "set_flat_rt":
                        ref.items = [_item(m) for m in root]
                        exp = _expected_after_roundtrip(ex, before_pairs, bool(op.get("text")))
                        if info.get("tainted"):
                            exp = None      # an aliased member (listed twice) is flattened once: outside the quantifier
                        if exp is not None and raised is None and exp != ref.values():
                            extra["flat_pairs"] = G.vj([list(p) for p in ex.memo.get("rt_pairs", [])])
                            fail("flatten-set_flat-round-trip", G.vj(exp), G.vj(ref.values()))
                            extra.clear()
                    elif name in ("set", "set_default", "set_flat"):
                        # construction routes: the reference restarts from what they produced ...
                        ref.items = [_item(m) for m in root]
                        # ... which must be the adapted values of what was handed in
                        exp = None
                        if name == "set":
                            exp = _expected_after_set(ex, G.py(op["v"]))
                        elif name == "set_flat":
                            exp = _expected_after_flat(ex, op["pairs"])
                        elif name == "set_default":
                            exp = _expected_after_default(ex, [v for v, _ in before_pairs])
                        if exp is not None and raised is None and exp != ref.values():
                            fail(name + "-builds-adapted-list", G.vj(exp), G.vj(ref.values()))
                    elif name == "len":
                        exp_ret = len(items)
                    elif name == "getitem":
                        exp_ret = items[op["i"]]
                    elif name == "getslice":
                        exp_ret = items[slice(*op["sl"])]
                    elif name == "contains" and args:
                        exp_ret = args[0][0] in ref.values()
                    elif name == "index" and args:
                        exp_ret = ref.values().index(args[0][0])
                    elif name == "count" and args:
                        exp_ret = ref.values().count(args[0][0])
                except (IndexError, ValueError) as e:
                    exp_exc = type(e).__name__
                items = ref.items
                if name in ("remove", "contains", "index", "count") and args:
                    # equality searches: the statement's reference compares adapted VALUES; flatland compares
                    # (value, u).  A divergence is filed under KF-C09-a only if what was observed is exactly what
                    # the same call gives on the list of (value, u) pairs.
                    handled = True
                    pair = args[0]
                    vu_exc, vu_ret, vu_items = None, None, list(before_pairs)
                    try:
                        if name == "remove":
                            del vu_items[before_pairs.index(pair)]
                        elif name == "contains":
                            vu_ret = pair in before_pairs
                        elif name == "index":
                            vu_ret = before_pairs.index(pair)
                        else:
                            vu_ret = before_pairs.count(pair)
                    except ValueError:
                        vu_exc = "ValueError"
                    obs_exc = rname
                    obs_ret = None if raised is not None or name == "remove" else \
                        (bool(info["ret"][1]) if name == "contains" else info["ret"][1])
                    actual_pairs = [_item(m) for m in root]
                    agrees_value = (obs_exc == exp_exc) and (raised is not None or name == "remove" or obs_ret == exp_ret) \
                        and [v for v, _ in actual_pairs] == ref.values()
                    if not agrees_value:
                        extra["matches_value_u_list"] = (obs_exc == vu_exc and obs_ret == vu_ret and actual_pairs == vu_items)
                        if obs_exc != exp_exc:
                            fail("raises-like-list", exp_exc, obs_exc)
                        elif name == "remove":
                            fail("members-equal-list", G.vj(ref.values()), G.vj([v for v, _ in actual_pairs]))
                        else:
                            fail(name + "-equals-list", exp_ret, obs_ret)
                        extra.clear()
                    ref.items = actual_pairs       # keep the text forms in step (and report a divergence once)
                elif args is None and name in ("append", "insert", "setitem", "remove", "contains", "index", "count",
                                             "extend", "iadd", "setslice"):
                    # the value was rejected by the member schema's constructor (e.g. an undeclared key of a
                    # Dict member): the call must have raised and changed nothing that the list sees — except
                    # extend/iadd, which keep the items before the rejected one, as list.extend(generator) does
                    if name in ("extend", "iadd"):
                        ref.items = [_item(m) for m in root]
                    if raised is None:
                        fail("rejected-argument-raises", "an exception", "returned normally")
                elif name == "sort" and op.get("key") in G.SORT_CMP_FAILS:
                    # the list returned sorted <-> the sequence returned (then the ORDER must agree: members-equal-list
                    # below); the list raised inside a comparison <-> the sequence raised the same exception, and both
                    # are left in SOME rearrangement: compared as multisets, the reference then follows the sequence's
                    # order and every later call / positional clause addresses it by position
                    want = exp_exc.split(":", 1)[1] if exp_exc else None
                    if (rname != want) if op.get("key") != "cmp-mutate" else ((rname is None) != (want is None)):
                        fail("raises-like-list", want, rname)
                    now_items = [_item(m) for m in root]
                    if sorted(repr(G.vj(v)) for v, _ in now_items) != sorted(repr(G.vj(v)) for v, _ in items):
                        fail("failed-sort-rearranges", G.vj([v for v, _ in before_pairs]), G.vj([v for v, _ in now_items]))
                    if exp_exc is not None or raised is not None:
                        ref.items = now_items
                elif name == "sort" and op.get("key") is None:
                    # not demanded to succeed (elements define no ordering; sequence members compare as Python lists,
                    # so a key-less sort may go through): if it returns, the members are a rearrangement of what was there
                    # (CPython leaves the list rearranged also when a comparison raises half-way)
                    now_items = [_item(m) for m in root]
                    if sorted(repr(G.vj(v)) for v, _ in now_items) != sorted(repr(G.vj(v)) for v, _ in before_pairs):
                        fail("keyless-sort-rearranges", G.vj([v for v, _ in before_pairs]), G.vj([v for v, _ in now_items]))
                    ref.items = now_items
                elif name == "imul_bad" or (name in ("insert", "setitem") and "ix" in op):
                    if rname != exp_exc:
                        fail("raises-like-list", exp_exc, rname)
                elif name == "sort" and exp_exc == "KeyRaises":
                    if raised is None:
                        fail("sort-key-raises", "the key function's exception", "returned normally")
                elif name == "set_mixed":
                    pass
                else:
                    if exp_exc != (rname if rname in ("IndexError", "ValueError") else None) or \
                            (raised is not None and rname not in ("IndexError", "ValueError")):
                        if not (name in ("set", "set_default") and raised is not None):
                            fail("raises-like-list", exp_exc, rname)
                    if raised is None and exp_exc is None:
                        ret = info["ret"]
                        if name == "pop":
                            got = ret[1]
                            fail_if = (got.value != exp_ret[0])
                            if fail_if:
                                fail("pop-returns", G.vj(exp_ret[0]), G.vj(got.value))
                        elif name in ("len", "index", "count"):
                            if ret[1] != exp_ret:
                                fail(name + "-equals-list", exp_ret, ret[1])
                        elif name == "contains":
                            if bool(ret[1]) != exp_ret:
                                fail("contains-equals-list", exp_ret, bool(ret[1]))
                        elif name == "getitem":
                            if ret[1].value != exp_ret[0]:
                                fail("getitem-equals-list", G.vj(exp_ret[0]), G.vj(ret[1].value))
                        elif name == "reversed":
                            got = [x.value for x in ret[1]]
                            if got != [v for v, _ in exp_ret] or any(a is not b for a, b in zip(ret[1], reversed(list(root)))):
                                fail("reversed-equals-list", G.vj([v for v, _ in exp_ret]), G.vj(got))
                        elif name == "getslice":
                            got = [x.value for x in ret[1]]
                            if got != [v for v, _ in exp_ret]:
                                fail("getslice-equals-list", G.vj([v for v, _ in exp_ret]), G.vj(got))
        # shape of an in-place item assignment (KF-C09-b): only member i may differ, and it is either unchanged or reset
        if not info["init"] and info.get("op") and info["op"]["op"] == "setitem" and kind == "list" and info.get("args") \
                and info["args"][0][0] == "plain" and "skip" not in (info["out"] if isinstance(info["out"], dict) else {}):
            try:
                old_vals = [v for v, _ in before_pairs]
                now = [m.value for m in root]
                i = info["op"]["i"]
                i = i + len(old_vals) if i < 0 else i
                blank = root.member_schema().value
                try:
                    root.member_schema(info["args"][0][1])
                    extra["value_rejected_by_member_schema"] = False
                except Exception:
                    extra["value_rejected_by_member_schema"] = True
                extra["inplace_shape"] = (len(now) == len(old_vals) and 0 <= i < len(old_vals)
                                          and all(now[j] == old_vals[j] for j in range(len(now)) if j != i)
                                          and now[i] in (old_vals[i], blank))
            except Exception:
                extra["inplace_shape"] = False
        # the state clauses, after every step
        from flatland.schema.base import Element
        if any(not isinstance(m, Element) for m in root):
            fail("members-typed", root.member_schema.__name__, "a raw value is stored as a member")
            return fails
        got = [m.value for m in root]
        if ex.taint and any(id(m) in ex.taint for m in root):
            # ALIASING (outside the quantifier, see `assumptions`): a member of the root is listed by a second
            # container (or twice by the root) because a SUCCESSFUL call was handed a live member; a later in-place
            # set through the other holder changes it here too, which no list of values can follow.  The reference
            # is resynchronised while that lasts; typing, length and .value are still checked.  Rejected calls never
            # get here: they must change nothing (rejected-changes-nothing).
            ref.items = [_item(m) for m in root]
        if got != ref.values():
            fail("members-equal-list", G.vj(ref.values()), G.vj(got))
            ref.items = [_item(m) for m in root]     # resynchronise: report each divergence once
        else:
            # the values agree; keep the text forms (read by the sort keys and by the (value, u) comparison of
            # KF-C09-a only) in step with the element — e.g. `*=` re-feeds values, so a copy of a Dict member holding
            # unadaptable text has the same value but not the same text
            ref.items = [_item(m) for m in root]
        if len(root) != len(ref.items):
            fail("len-equals-list", len(ref.items), len(root))
        if kind == "multi":
            exp_value = ref.values()[0] if ref.items else None
        else:
            exp_value = ref.values()
        if root.value != exp_value:
            fail("value-equals-list", G.vj(exp_value), G.vj(root.value))
        ms = root.member_schema
        for i, m in enumerate(root):
            if not isinstance(m, ms):
                fail("members-typed", ms.__name__, type(m).__name__)
                break
        if kind == "list":
            for i, m in enumerate(root):
                if id(m) in ex.taint:
                    continue        # aliased: its parent pointer designates the holder it was handed to last
                slot = m.parent
                nm = getattr(slot, "name", None)
                if nm != str(i):
                    fail("positional-slot-name", str(i), nm)
                    break
                try:
                    found = root.find(str(i), single=True)
                except Exception as e:
                    found = type(e).__name__
                if found is not m:
                    fail("positional-find", "member %d" % i, "other" if not isinstance(found, str) else found)
                    break
                names = [p.name for p in m.path if p.name is not None]
                want = ([root.name] if root.name is not None else []) + [str(i)] + ([m.name] if m.name is not None else [])
                if names != want:
                    fail("positional-flat-name", want, names)
                    break
        return fails

    return check


def eq_search_with_unadapted(case, failure):
    """class predicate of KF-C09-a: an equality search whose observed outcome (return value, exception, members
    afterwards) is exactly the outcome of the same call on the list of (value, u) pairs, differs from the outcome on
    the list of values, and unadaptable text (value None, u != '') is what separates the two"""
    op = failure.get("op") or {}
    return (op.get("op") in ("remove", "contains", "index", "count")
            and failure.get("clause") in ("contains-equals-list", "index-equals-list", "count-equals-list",
                                          "raises-like-list", "members-equal-list")
            and failure.get("matches_value_u_list") is True and bool(failure.get("unadapted")))


def set_feeds_elements_to_set(case, failure):
    """class predicate of KF-C09-c: seq.set(iterable) whose iterable contains ready-made Elements: every member that
    differs from the reference sits at the position of an Element item, and holds exactly what
    `member_schema().set(<that Element>)` produces (the Element is fed to set() as if it were a plain value)"""
    op = failure.get("op") or {}
    bad = failure.get("mismatch_positions")
    return (failure.get("clause") == "set-builds-adapted-list" and op.get("op") == "set_mixed"
            and failure.get("same_length") is True and bool(bad)
            and set(bad) <= set(failure.get("element_positions") or [])
            and failure.get("observed_is_set_of_element") is True)


def _dictlike(v):
    return (isinstance(v, dict) and ("d" in v or "p" in v or v.get("l") == [])) or v == ""


def failed_inplace_set(case, failure):
    """class predicate of KF-C09-b: `lst[i] = plain value` on a List (slot-based) whose member schema is a
    Dict/SparseDict, where Dict.set() does not end as a fresh member_schema(value) would: it raised
    KeyError/TypeError after resetting the member, or the value is not dict-like and the member was left as
    it was"""
    op = failure.get("op") or {}
    return (failure.get("clause") in ("members-equal-list", "value-equals-list")
            and failure.get("kind") == "list" and op.get("op") == "setitem" and failure.get("plain")
            and ((failure.get("raised") in ("KeyError", "TypeError") and failure.get("value_rejected_by_member_schema") is True)
                 or (failure.get("raised") is None and not _dictlike((op.get("a") or {}).get("v"))))
            and failure.get("inplace_shape") is True
            and case["schema"]["subs"][0]["k"] in ("dict", "sparse"))


# ---------------------------------------------------------------- the property

def _int(cid, name=None):
    return {"cid": cid, "k": "integer", "name": name, "opt": False, "policy": "subset", "minreq": False, "isa": [],
            "default": None, "subs": []}


def _str(cid, name=None):
    d = _int(cid, name)
    d["k"] = "string"
    return d


def _seq(kind, member, cid=1, name=None, default=None):
    return {"cid": cid, "k": kind, "name": name, "opt": False, "policy": "subset", "minreq": False, "isa": [],
            "default": default, "subs": [member]}


def _dict(cid, fields, name=None, policy="subset"):
    return {"cid": cid, "k": "dict", "name": name, "opt": False, "policy": policy, "minreq": False, "isa": [],
            "default": None, "subs": fields}


def _op(s):
    return {"t": 0, "s": s}


FAILURE_PATH_SHARE = 0.25
SORT_FAILURE_SHARE = 0.04


class C09(Property):
    id = "C09"
    title = "Sequence elements behave as Python lists of member elements"
    proof_module = "Proofs.C09SortFailure"
    theorems = [
        "Flatland.C09.Proofs.step_refines",
        "Flatland.C09.Proofs.run_refines",
        "Flatland.C09.Proofs.run_refines_scalar",
        "Flatland.C09.Proofs.histOK_of_static",
        "Flatland.C09.Proofs.set_nonlist_refines",
        "Flatland.C09.Proofs.imul_guard_scalar",
        "Flatland.C09.Proofs.imul_fixed_is_python",
        "Flatland.C09.Proofs.members_typed",
        "Flatland.C09.Proofs.items_eq_members",
        "Flatland.C09.Proofs.positional_step",
        "Flatland.C09.Proofs.rejected_call_keeps_members",
        "Flatland.C08.Proofs.rejected_seq_unchanged",
        # round m1: the model's keyed sort never raises (it sorts or declines); the failure path of the code — SOME
        # rearrangement, then renumbering — for every permutation
        "Flatland.C08.Proofs.keyed_sort_only_refuses",
        "Flatland.C08.Proofs.keyed_sort_sorts",
        "Flatland.C09.Proofs.sort_failure_any_permutation_dps",
        "Flatland.C09.Proofs.sort_failure_keeps_members",
        "Flatland.C09.Proofs.sort_failure_positional",
        "Flatland.C09.Proofs.sort_failure_flatten_positional",
        "Flatland.C09.Proofs.sort_success_is_instance",
        "Flatland.C09.Proofs.sortBy_perm",
        "Flatland.C09.Proofs.sort_failure_old_stale",
        "Flatland.Tree.setNode_indep",
        "Flatland.Tree.fromDefaults_indep",
        "Flatland.Tree.wrap_plain_ok",
        "Flatland.Tree.setNode_member",
        "Flatland.C09.Proofs.C09_full_fails",
        "Flatland.C09.Proofs.C09_fullMembers_fails",
    ]
    level_text = "proof (partial)"
    level_note = ("THEOREM (partial): step_refines/run_refines — refinement to the CPython list functions over the (value,u) "
                  "structure `sig` of a member (for a Dict/List member: its whole exported state), for EVERY member schema "
                  "(Integer, String, Dict, SparseDict, List, Array ...) and EVERY call of the model: adaptOp is total — "
                  "append/extend/+=/insert/item+slice assignment/item+slice deletion/pop/remove/reverse/sort(key)/len/"
                  "getitem/getslice/in/index/count as before, and now clear, set(list), set(None|int) (empties, returns "
                  "False: set_nonlist_refines), set_default (no default: nothing; List with int default k: k members from "
                  "member.from_defaults(); list default: its adapted values), key-less sort (a list of objects without "
                  "ordering: TypeError for >= 2 items, no-op below), *= (count<=0 empties; else count-1 copies of the "
                  "members' re-adapted values: ROp.imul with re = sig(member_schema(value or u)); imul_fixed_is_python: "
                  "literally CPython's *= when the members are fixed points of re). The adapted value of a plain "
                  "argument is sig(member_schema(value)), well defined because set()/from_defaults() do not look at ids "
                  "or stored parents (setNode_indep, fromDefaults_indep, wrap_plain_ok). run_refines holds for every "
                  "history whose calls satisfy the guard OpOK in the state they are made in (HistOK); for Integer/String "
                  "members the guard is static (run_refines_scalar). GUARD (exact): plain arguments are values "
                  "member_schema(value=...) accepts without raising, Element arguments are of the member schema; item "
                  "assignment of a plain value onto a List of Dict/SparseDict members needs a dict-like value "
                  "(SetItemOK/Resets; the excluded case is refuted: C09_fullMembers_fails = KF-C09-b); sort(key) needs "
                  "the key to apply to every item (SortOK: e.u / len(e.u) on scalar members — automatic, sortOK_scalar —, "
                  "len(e) on List/Array members, e[<first field>].u on Dict members); key-less sort needs items without "
                  "ordering (a List's slots, or members that are not themselves sequences: List/Array/MultiValue members are "
                  "Python lists and compare as such); set(str|dict) is outside the model; set_default needs DefaultOK; *= with count>0 (24425c6: copies are "
                  "rebuilt from _replica_value(member), which keeps nested unadaptable texts and ALL members of a "
                  "MultiValue) needs a non-MultiValue member schema whose re-fed values are accepted and NO MultiValue "
                  "nested inside a member (ImulDeep/noMulti: a MultiValue shows as (value,u) by its first member only, so "
                  "the reference list does not determine its copies) — automatic for Integer/String (imul_guard_scalar, "
                  "imulDeep_scalar); with a MultiValue inside, *= is checked by correspondence and the value oracle only. positional_step — every call, every member schema. rejected_call_keeps_members (round h8) — a call on a rejection route (seqAtomic: all but extend/+=/*=/set/set_default, in-place `lst[i] = plain` with a valid index, and EVERY sort) that raises leaves members, slot names and parents exactly as they were, as a Python list is unchanged after IndexError/TypeError/ValueError; on the code: oracle clause rejected-changes-nothing (incl. non-integer indexes, sort key FUNCTIONS that raise, live members of a second sequence as arguments; KF-C09-d = KF-C08-b on the unchanged library). SORT THAT FAILS IN A COMPARISON (round m1): a Python list whose sort(key=...) raises inside a comparison (or finds itself modified) is NOT unchanged: it is left in some rearrangement of its items. The model's keyed sort cannot take that path (keyed_sort_only_refuses: it sorts — sort_success_is_instance — or answers `.unsupported`, the model declining, which is no claim about the code), so run_refines / positional_step / rejected_call_keeps_members say nothing about it. What is proved instead, about the repaired code's effect `rearranged, then _renumber()` for EVERY permutation of the slots: sort_failure_positional (slots named by current position), sort_failure_keeps_members (the same member nodes), sort_failure_any_permutation_dps (the deep positional invariant), sort_failure_old_stale (without the renumbering: refuted on a 3-member List). On the code: the reference list receives the same call with the same key on the adapted values; both must raise the same exception or both return (then in the same order); after a failure they are compared as MULTISETS (clause failed-sort-rearranges), the reference follows the sequence's order and every later call and positional clause addresses by position (positional-slot-name / -find / -flat-name, sort-slots-named-by-position: the clauses the defect repaired by 9873cdc violated). REFUTED reading: value-only "
                  "(C09_Full, KF-C09-a). ORACLE ONLY: set_flat/from_flat (values predicted for the simple key shapes only, "
                  "typing and positional naming always), set(<iterable containing Elements>) (KF-C09-c), *= with a "
                  "non-integer count (TypeError), the flags returned by set(list), model paths answering `unsupported` (= "
                  "the calls the guard excludes)")
    technique = "refinement proof (Lean 4) + differential testing against the implementation and a real Python list"
    trusted_base = [
        "CPython list semantics (index normalisation, PySlice_AdjustIndices, slice assignment/deletion, insert "
        "clamping, stable sort) reproduced in lean/Flatland/PyList.lean; validated against the real `list` type by "
        "the oracle, which drives a real Python list next to the element",
        "Integer/String adaptation for ASCII text (strip, int() grammar with sign and underscores) reproduced by hand; "
        "adaptation itself is C04's subject and is taken as given",
        "Element.__eq__ modelled structurally on (value, u); equal to comparing the rendered `.u` strings as long as "
        "no string contains a quote or backslash (generator alphabet)",
    ]
    assumptions = [
        "sort keys of the COMPARED histories range over the family {e.u, len(e.u), len(e), e[<first field>].u} with and without reverse (the last "
        "two only work on MEMBERS, not on ListSlots: fix 5c843db; on other members the key FUNCTION raises and nothing moves). Keys under which "
        "a COMPARISON fails — e.value over members mixing ints and None (unadapted text), a key object whose `<` raises after k comparisons or "
        "appends to the list being sorted — are generated in 4 % of the histories, oracle only; that CPython then leaves the list in SOME "
        "rearrangement of the same items is taken as given (list.sort documentation), WHICH one is not predicted; reversed(l) is observed as l[::-1]; sort() without key "
        "raises TypeError "
        "as a list of elements does (recorded non-defect): its reference operation is ROp.sortNoKey (sort on items "
        "without ordering), not the sort of a list of ints",
        "`*=` (Sequence.__imul__, commits 33a67e3 / 24425c6: fresh members from _replica_value(member); non-integer "
        "count raises TypeError) is modelled and compared, MultiValue and nested sequence members included; "
        "`+` and `*` return plain lists and are not element operations",
        "re-inserting an element that is already a member (`l.append(l[0])`) is aliasing, outside the quantifier: since round "
        "h8 such calls ARE generated (25 % of the histories, oracle only; live members of the root or of a second sequence of "
        "the same class kept alive by the case). A REJECTED call must change nothing (members, parents, slot names of both "
        "sequences) and raise what a Python list raises; after a SUCCESSFUL one the call itself is checked against the "
        "reference (the element is where a list would have it), and while a member of the root is listed by two holders the "
        "reference is resynchronised at every step and the positional clauses skip that member",
        "Element arguments are fresh or detached elements of the member schema (no aliasing)",
        "MultiValue.value is the first member's value (documented), the list clause is checked on iteration",
        "set_flat / from_flat and EMPTY values: `prune_empty` is documented as 'skip missing index numbers in set_flat', the "
        "code comments say 'missing (or empty-valued) indexes are omitted', and the unchanged code drops exactly the pairs "
        "whose value == '' (List, Array and MultiValue alike). So 'empty' is the empty STRING a blank form input sends — "
        "not a falsy native: integer 0, False, 0.0 and None are values (None is kept as a member whose adapted value is "
        "None; the unchanged library is consistent on this across List / Array / MultiValue, no finding). Flat pairs may "
        "carry natives: `flatten(value=lambda e: e.value)` is documented in Element.flatten and the library's tests feed "
        "ints to from_flat. Reference: the plain list of the adapted values of the non-pruned pairs, member i at index i "
        "(pruning: in index order; non-pruning List: up to the highest index, gaps blank); for the flatten round trip on "
        "the sequence itself: the list of the values it held, minus (pruning) the members whose flat value is ''",
    ]
    rule = ("histories of 1-14 list-protocol calls (all 25 operation kinds; indexes in -8..7, slices with "
            "None/negative/out-of-range bounds and steps in {None,1,2,3,-1,-2,0}) on a List / Array / MultiValue of "
            "Integer, String, Dict, List, Array or MultiValue members, started by a constructor/set/set_default/from_defaults route; arguments "
            "are plain values (valid, unadaptable, None), fresh Elements, or Elements detached earlier (pool); "
            "Cases the Lean model does not cover (set_flat/from_flat, model paths answering unsupported) are marked oracle-only before the run and are not counted as validated traces (tag model=oracle-only). "
            "Element arguments are read (root/path/parents/fq_name) before they are handed over in half of the cases; 'observe' steps only read. "
            "25 % of the histories (tag fp:case, oracle only) exercise failure / recovery paths: a second sequence of the same class kept alive, calls aimed at it, live members as arguments, item assignment and insert with out-of-range and NON-INTEGER indexes ('1', None, 1.5), extended-slice size mismatches, items the member schema rejects, a sort key FUNCTION that raises on its second call, followed by calls that succeed. 4 % of the histories (tag sortfail:case, oracle only; g1common.gen_sort_failure_case) are built around sorts whose COMPARISON raises: Lists / Arrays / MultiValues of 2-8 Integer members mixing ints and unadapted text, Lists of Lists, Lists of Dicts with a nested List; keys value / cmp-raise / cmp-mutate with and without reverse, aimed at the root or at a nested List; each followed by an observation, an append (no renumbering), a renumbering call and an observation. "
            "16 % of the histories use flat routes (oracle only): half of them with NATIVE flat values (0, False, True, None, negatives; '' and '0' as text for contrast) in from_flat / set_flat pairs, 30 % on non-pruning sequences, each with one or two flatten round trips `seq.set_flat(seq.flatten(value=lambda e: e.value))` (or the text form) placed after list calls that put 0 / False / None / '' / '0' into the list (tags flat:*). "
            "non-trivial = at least 3 calls changed the sequence or raised")
    quick_n = 40000
    thorough_n = 300000

    # cases are tiny (< 10 ms); the alarm only guards against a genuine hang (e.g. a cycle of parent pointers).
    # 10 s proved too tight on a shared, oversubscribed machine: thorough runs saw spurious alarms on cases
    # that replay in 0.1 s.
    case_timeout = 60

    def __init__(self):
        self._cache = (None, None)

    # -- corpus: one witness per fixed defect + the open finding
    def corpus(self):
        I = _int(2)
        out = []
        # fixed 11bd054: a += [2, 3] stored raw ints
        out.append({"schema": _seq("array", I), "init": {"route": "ctor_value", "value": {"l": [1]}},
                    "ops": [_op({"op": "iadd", "as": [{"v": 2}, {"v": 3}]}), _op({"op": "len"})]})
        out.append({"schema": _seq("list", I), "init": {"route": "ctor_value", "value": {"l": [1]}},
                    "ops": [_op({"op": "iadd", "as": [{"v": 2}, {"new": 3}]}), _op({"op": "getitem", "i": 2})]})
        # fixed 5fc1487: l[1] = Integer(9) gave value [1, None, 3]
        out.append({"schema": _seq("list", I), "init": {"route": "ctor_value", "value": {"l": [1, 2, 3]}},
                    "ops": [_op({"op": "setitem", "i": 1, "a": {"new": 9}}), _op({"op": "getitem", "i": 1})]})
        # fixed 212ef73 (C08's, same code path): a[1] = element
        out.append({"schema": _seq("array", I), "init": {"route": "ctor_value", "value": {"l": [1, 2, 3]}},
                    "ops": [_op({"op": "setitem", "i": 1, "a": {"new": 9}}), _op({"op": "index", "a": {"v": 9}})]})
        # open KF-C09-a: an unadaptable member is not found by its adapted value
        out.append({"schema": _seq("array", I), "init": {"route": "ctor_value", "value": {"l": ["abc", None, 3]}},
                    "ops": [_op({"op": "index", "a": {"v": None}})]})
        # open KF-C09-b: a rejected in-place assignment wipes the member
        D = _dict(2, [_int(3, "x"), _str(4, "y")])
        out.append({"schema": _seq("list", D), "init": {"route": "ctor_value", "value": {"l": [{"d": [["x", 1], ["y", "a"]]}]}},
                    "ops": [_op({"op": "setitem", "i": 0, "a": {"v": {"d": [["zz", 3]]}}})]})
        out.append({"schema": _seq("list", D), "init": {"route": "ctor_value", "value": {"l": [{"d": [["x", 1], ["y", "a"]]}]}},
                    "ops": [_op({"op": "setitem", "i": 0, "a": {"v": 5}})]})
        # open KF-C09-c: set() of an iterable that contains a ready-made Element
        out.append({"schema": _seq("list", I, name="l"), "init": {"route": "ctor", "value": None}, "nomodel": True,
                    "ops": [_op({"op": "set_mixed", "as": [{"new": 3}, {"v": 4}]})]})
        # failure paths (round h8, oracle only): rejected item assignment / insert with a live member of a second List
        # (seeded C08-setitem-reparents-before-index-check), non-integer indexes, a failing sort key, then success
        lv = lambda tree, k: {"live": {"tree": tree, "k": k, "where": "any"}}
        out.append({"schema": _seq("list", I, name="l"), "nomodel": True, "aux": [{"value": {"l": [10, 20]}}],
                    "init": {"route": "ctor_value", "value": {"l": [1, 2, 3]}},
                    "ops": [{"t": 0, "tt": 1, "s": {"op": "setitem", "i": 7, "a": lv(0, 2)}},
                            {"t": 0, "tt": 1, "s": {"op": "setitem", "i": 0, "ix": "str", "a": lv(0, 1)}},
                            _op({"op": "setitem", "i": 1, "ix": "none", "a": {"v": 5}}),
                            _op({"op": "insert", "i": 1, "ix": "float", "a": {"new": 5}}),
                            _op({"op": "sort", "key": "raise", "rev": False}),
                            _op({"op": "setitem", "i": -4, "a": lv(1, 0)}),
                            _op({"op": "append", "a": {"v": 4}}), _op({"op": "getitem", "i": 2})]})
        # open KF-C09-d (= KF-C08-b): a rejected insert re-parents the live member of the other List
        out.append({"schema": _seq("list", I, name="l"), "nomodel": True, "aux": [{"value": {"l": [10]}}],
                    "init": {"route": "ctor_value", "value": {"l": [1, 2, 3]}},
                    "ops": [{"t": 0, "tt": 1, "s": {"op": "insert", "i": 0, "ix": "str", "a": lv(0, 2)}},
                            _op({"op": "append", "a": {"v": 4}})]})
        # seeded C09-set-flat-prunes-falsy-natives: native falsy flat values are VALUES, only '' is empty; then the
        # native flatten round trip after list calls that left zeros in the list ([7, 5, 0, 0] must come back)
        Li = _seq("list", _int(2, "i"), name="l")
        out.append({"schema": Li, "nomodel": True,
                    "init": {"route": "set_flat", "value": None, "pairs": [["l_0_i", 0], ["l_1_i", 1], ["l_2_i", 2]]},
                    "ops": [_op({"op": "getitem", "i": 0}), _op({"op": "index", "a": {"v": 1}}),
                            _op({"op": "set_flat", "pairs": [["l_0_i", False], ["l_1_i", ""], ["l_2_i", None], ["l_3_i", "0"], ["l_5_i", -3]]}),
                            _op({"op": "clear"}), _op({"op": "extend", "as": [{"v": 5}, {"v": 0}]}),
                            _op({"op": "insert", "i": 0, "a": {"v": 7}}), _op({"op": "append", "a": {"v": 0}}),
                            _op({"op": "set_flat_rt"}), _op({"op": "count", "a": {"v": 0}}),
                            _op({"op": "set_flat_rt", "text": True})]})
        Ln = _seq("list", _int(2, "i"), name="l")
        Ln["prune"] = False
        out.append({"schema": Ln, "nomodel": True,
                    "init": {"route": "from_flat", "value": None, "pairs": [["l_2_i", 0], ["l_0_i", ""]]},
                    "ops": [_op({"op": "len"}), _op({"op": "set_flat_rt"})]})
        out.append({"schema": _seq("array", _int(2), name="a"), "nomodel": True,
                    "init": {"route": "set_flat", "value": None, "pairs": [["a", 0], ["a", ""], ["a", None], ["a", False], ["a", "0"]]},
                    "ops": [_op({"op": "append", "a": {"v": 0}}), _op({"op": "set_flat_rt"})]})
        # round m1 (defect repaired by 9873cdc): `[3, 1, 2, None, 0].sort(key=lambda e: e.value)` raises TypeError in a
        # COMPARISON; CPython leaves [1, 2, 3, None, 0]; the old List.sort skipped _renumber() (slot names 1,2,0,3,4).
        # The reference list receives the same call: multisets agree, then addressing is by CURRENT position
        out.append({"schema": Li, "nomodel": True, "init": {"route": "ctor_value", "value": {"l": [3, 1, 2, None, 0]}},
                    "ops": [_op({"op": "sort", "key": "value", "rev": False}), _op({"op": "getitem", "i": 0}),
                            _op({"op": "append", "a": {"v": 4}}), _op({"op": "sort", "key": "value", "rev": True}),
                            _op({"op": "insert", "i": 0, "a": {"v": 9}}), _op({"op": "getitem", "i": 2})]})
        out.append({"schema": Li, "nomodel": True, "init": {"route": "ctor_value", "value": {"l": [5, 4, 3, 2, 1, 0]}},
                    "ops": [_op({"op": "sort", "key": "cmp-raise", "after": 3, "rev": False}), _op({"op": "index", "a": {"v": 5}}),
                            _op({"op": "sort", "key": "cmp-mutate", "after": 2, "v": 7, "rev": True}),
                            _op({"op": "append", "a": {"v": 6}}), _op({"op": "pop", "i": 0})]})
        # past disagreements / edge shapes
        out.append({"schema": _seq("list", I), "init": {"route": "ctor_value", "value": {"l": [1, 2, 3, 4, 5]}},
                    "ops": [_op({"op": "setslice", "sl": [None, None, 2], "as": [{"v": 7}]}),
                            _op({"op": "setslice", "sl": [None, None, -2], "as": [{"v": 7}, {"v": 8}, {"new": 9}]}),
                            _op({"op": "delslice", "sl": [-1, None, -3]}), _op({"op": "insert", "i": -9, "a": {"v": 0}}),
                            _op({"op": "sort", "key": "u", "rev": True}), _op({"op": "pop", "i": None}),
                            _op({"op": "setslice", "sl": [3, 1, None], "as": [{"v": 1}, {"v": 2}]})]})
        return out

    def has_model(self, case):
        return not case.get("nomodel")

    def generate(self, rng, n, tier):
        yield from G.mark_unmodelled(self, list(self._generate(rng, n, tier)))

    def _generate(self, rng, n, tier):
        for _ in range(n):
            if rng.random() < SORT_FAILURE_SHARE:
                # a keyed sort whose COMPARISON raises (round m1, oracle only): root sequence, nested Lists
                yield G.gen_sort_failure_case(rng, root_seq=True)
                continue
            cid = G.Counter()
            kind = rng.choice(["list", "list", "array", "multi"])
            root_cid = cid()
            r = rng.random()
            if r < 0.4:
                member = _int(cid(), rng.choice([None, None, "m"]))
            elif r < 0.7:
                member = _str(cid(), rng.choice([None, None, "m"]))
            elif r < 0.9:
                member = _dict(cid(), [_int(cid(), "x"), _str(cid(), "y")], policy=rng.choice(["subset", "duck", "strict"]))
            else:
                # sequence members: List / Array / MultiValue of Integer or String
                inner = _int(cid()) if rng.random() < 0.6 else _str(cid())
                member = _seq(rng.choice(["list", "array", "multi"]), inner, cid=cid(), name=rng.choice([None, "m"]))
            hostile = rng.random() < 0.2
            schema = _seq(kind, member, cid=root_cid, name=rng.choice([None, "l"]))
            if rng.random() < 0.2:
                if kind == "list" and rng.random() < 0.5:
                    schema["default"] = rng.randint(0, 3)
                else:
                    schema["default"] = G.gen_value(rng, schema, valid=True)
            if member["k"] in ("integer", "string") and rng.random() < 0.2:
                member["default"] = G.gen_scalar_raw(rng)
            route = rng.choice(["ctor", "ctor_value", "ctor_value", "ctor_value", "set", "from_defaults", "set_default"])
            init = {"route": route, "value": G.gen_value(rng, schema, valid=not hostile)}
            # set_flat / from_flat (oracle only: the flat-key parser is C01/C02's model): a tenth of the histories;
            # Arrays/MultiValues are flattenable only with scalar members
            flat = rng.random() < 0.16 and (kind == "list" or member["k"] in ("integer", "string"))
            # half of the flat histories carry NATIVE flat values (ints incl. 0 and negatives, bools, None; '' and '0'
            # as text for contrast) and the native flatten round trip; 30 % of them are on NON-pruning sequences
            native = flat and rng.random() < 0.5
            if flat and rng.random() < 0.3:
                schema["prune"] = False
            if flat and rng.random() < 0.5:
                init = {"route": rng.choice(["from_flat", "set_flat"]), "value": None,
                        "pairs": G.gen_flat_pairs(rng, schema, native=native)}
            nops = rng.choice([1, 2, 3, 4, 6, 8, 10, 14])
            ops = [_op(G.gen_seq_op(rng, member, valid=not hostile, seq=schema if flat else None)) for _ in range(nops)]
            if flat:
                for o in ops:
                    if o["s"]["op"] == "set_flat" and native:
                        o["s"]["pairs"] = G.gen_flat_pairs(rng, schema, native=True)
                # the flatten round trip after list operations that may have left zeros / Falses / Nones / '' in the list
                for _ in range(rng.choice([1, 1, 2])):
                    pos = rng.randint(0, len(ops))
                    pre = []
                    if rng.random() < 0.6:
                        zero = rng.choice([0, 0, False, None, "", "0", -1])
                        how = rng.choice(["append", "insert", "extend"])
                        if how == "append":
                            pre = [_op({"op": "append", "a": {"v": zero}})]
                        elif how == "insert":
                            pre = [_op({"op": "insert", "i": rng.choice([0, 1, -1]), "a": {"v": zero}})]
                        else:
                            pre = [_op({"op": "extend", "as": [{"v": rng.choice([5, 7, "a"])}, {"v": zero}, {"v": 0}]})]
                    rt = {"op": "set_flat_rt"}
                    if not native and rng.random() < 0.5:
                        rt["text"] = True
                    ops[pos:pos] = pre + [_op(rt), _op({"op": "getitem", "i": 0})]
            # set(<iterable with Elements>) leaves members no other route can build (KF-C09-c: value None with text the
            # member schema WOULD adapt); it is generated as the last call of a history so that the finding's class
            # stays the call itself
            mixed = [o for o in ops if o["s"]["op"] == "set_mixed"]
            ops = [o for o in ops if o["s"]["op"] != "set_mixed"] + mixed[:1]
            case = {"schema": schema, "init": init, "ops": ops}
            if G.has_flat(case):
                case["nomodel"] = True
            if rng.random() < FAILURE_PATH_SHARE and not mixed:
                # failure / recovery paths (oracle only): a second sequence of the same class kept alive, live members
                # as arguments, rejected calls (out-of-range / non-integer indexes, size mismatches, failing sort keys)
                G.inject_failure_paths(rng, case, schema, any_class=False, t_max=0)
            yield case

    # -- running
    def _run(self, case):
        key = canon(case)
        if self._cache[0] == key:
            return self._cache[1]
        ex = G.Exec(case, view, make_check())
        obs = ex.run()
        # attach, for classification, whether unadaptable text is around at a failing equality search
        self._cache = (key, (obs, ex.failures))
        return self._cache[1]

    def run_impl(self, case):
        return self._run(case)[0]

    def oracle(self, case):
        return [dict(f, op=f.get("op")) for f in self._run(case)[1]]

    def compare(self, impl_obs, model_obs):
        if isinstance(model_obs, dict) and model_obs.get("unsupported"):
            return None
        return super().compare(impl_obs, model_obs)

    def classify(self, case, failure):
        if G.rejected_placement_reparents(case, failure):
            return "KF-C09-d"
        if set_feeds_elements_to_set(case, failure):
            return "KF-C09-c"
        if eq_search_with_unadapted(case, failure):
            return "KF-C09-a"
        if failed_inplace_set(case, failure):
            return "KF-C09-b"
        return None

    def nontrivial(self, case, obs):
        if any("view_raises" in st["view"] for st in obs["steps"]):
            return True
        steps = obs["steps"]
        changed = 0
        for a, b in zip(steps, steps[1:]):
            if a["view"]["members"] != b["view"]["members"] or (isinstance(b["out"], dict) and "exc" in b["out"]):
                changed += 1
        return changed >= 3

    def tags(self, case, obs):
        if any("view_raises" in st["view"] for st in obs["steps"]):
            return ["view-raises"]
        t = ["model=" + ("oracle-only" if case.get("nomodel") else "compared"), "kind=" + case["schema"]["k"], "member=" + case["schema"]["subs"][0]["k"], "route=" + case["init"]["route"],
             "ops=%d" % len(case["ops"])]
        fps = obs.get("_fp") or [None] * len(obs["steps"])
        for idx, (o, st) in enumerate(zip(case["ops"], obs["steps"][1:]), 1):
            out = st["out"]
            name = o["s"]["op"]
            if isinstance(out, dict) and "exc" in out:
                t.append("op:%s:%s" % (name, out["exc"]))
            elif isinstance(out, dict) and "skip" in out:
                t.append("skip:" + out["skip"].split(":")[0])
            else:
                t.append("op:%s:ok" % name)
            a = o["s"].get("a") or {}
            if "new" in a or "pool" in a:
                t.append("arg:element")
            fp = fps[idx]
            if fp:
                if fp["raised"]:
                    t.append("fp:rejected:%s" % fp["route"] if fp["route"] else "fp:raised-after-effects")
                    t.append(("fp:live-arg:" if fp["live"] else "fp:no-live-arg:") + ("rejected" if fp["route"] else "raised-after-effects"))
                elif fp["live"]:
                    t.append("fp:live-arg:accepted")
                if fp["tree"]:
                    t.append("fp:target-in-second-tree")
                if fp["taint"]:
                    t.append("fp:aliased-elements-present")
        if G.has_failure_paths(case):
            t.append("fp:case")
        for o, st in zip(case["ops"], obs["steps"][1:]):
            sp = o["s"]
            if sp.get("op") == "sort" and sp.get("key") in G.SORT_CMP_FAILS and not (isinstance(st["out"], dict) and "skip" in st["out"]):
                exc = st["out"].get("exc") if isinstance(st["out"], dict) else None
                t.append("sortfail:%s:%s" % (sp["key"], "raised-in-comparison:" + exc if exc else "sorted"))
                t.append("sortfail:target=" + ("root" if o["t"] == 0 else "nested"))
                if exc:
                    t.append("sortfail:raised" + (":reverse" if sp.get("rev") else ""))
        if G.has_sort_failure(case):
            t.append("sortfail:case")
        # flat routes: text / native values, falsy natives, non-pruning, round trips
        def _pairs_tags(pairs, what):
            if any(not isinstance(v, str) for _, v in pairs):
                t.append("flat:%s:native-values" % what)
            if any((v is None or v is False or (isinstance(v, int) and v == 0)) for _, v in pairs):
                t.append("flat:%s:falsy-native" % what)
            if any(v == "" for _, v in pairs if isinstance(v, str)):
                t.append("flat:%s:empty-text" % what)
        if case["init"].get("pairs") is not None and case["init"]["route"] in ("from_flat", "set_flat"):
            _pairs_tags(case["init"]["pairs"], "route")
        for o, st in zip(case["ops"], obs["steps"][1:]):
            sop = o["s"]
            if sop["op"] == "set_flat":
                _pairs_tags(sop["pairs"], "set_flat")
            elif sop["op"] == "set_flat_rt":
                t.append("flat:roundtrip:" + ("text" if sop.get("text") else "native"))
        if case["schema"].get("prune") is False:
            t.append("flat:non-pruning")
        elif G.has_flat(case):
            t.append("flat:pruning")
        t.append("maxlen=%d" % min(12, max(s["view"]["len"] for s in obs["steps"])))
        return sorted(set(t))

    def shrink_candidates(self, case):
        yield from G.shrink_history(case)


def _leaf_unadapted(el):
    """the element or one of its descendants holds text that could not be adapted"""
    for e in itertools.chain([el], el.all_children):
        if G.kind_of_element(e) in ("integer", "string") and e.value is None and e.u != "":
            return True
    return False


def _plain_unadapted(ex, v):
    try:
        return _leaf_unadapted(ex.root.member_schema(v))
    except Exception:
        return False


PROP = C09()
