"""C16 — validation messages expand completely under every lookup source and locale.

Case kinds
  syn      a synthetic validator / state / element chain: which of the five documented sources define
           which key (distinct values), plural triples with a count, translator placements
           (state attr, state item, element instance/class, each ancestor, builtins)
  builtin  a real built-in validator made to fail (scenario shared with C15) under
           {source, de, es, fr} with the real gettext catalogues placed on state / element / root
"""
import builtins
import copy
import gettext
import itertools
import os
import re
import types

from harness.core import Property, REPO

LANGS = ["de", "es", "fr"]
KEYS = ["label", "name", "value", "u", "k1", "k2", "k3", "cnt"]
SOURCES = ["kwargs", "sitem", "sattr", "vattr", "eattr"]

_TRANS = {}


def translation(lang):
    if lang not in _TRANS:
        _TRANS[lang] = gettext.translation(
            "flatland", localedir=os.path.join(REPO, "src", "flatland", "i18n"), languages=[lang])
    return _TRANS[lang]


# ------------------------------------------------------------------ building the real objects


def mk_u(desc):
    if desc is None:
        return None
    if "locale" in desc:
        return translation(desc["locale"]).gettext
    tag = desc.get("tag")
    tbl = {a: b for a, b in desc.get("tbl", [])}

    def ugettext(x):
        if not isinstance(x, str):
            return x
        if x in tbl:
            return tbl[x]
        return "%s:%s" % (tag, x) if tag is not None else x
    return ugettext


def mk_n(desc):
    if desc is None:
        return None
    if "locale" in desc:
        return translation(desc["locale"]).ngettext
    tag = desc.get("tag")
    rule = desc["rule"]

    def ungettext(s, p, n):
        if isinstance(n, int) and not isinstance(n, bool):
            sing = (n <= 1) if rule == "gt1" else (n == 1)
        else:
            sing = False
        chosen = s if sing else p
        return "%s:%s" % (tag, chosen) if tag is not None else chosen
    return ungettext


def _slot_present(slot):
    return isinstance(slot, dict)


class _ObjDict:
    """state with attributes *and* [index] access (KeyError on a miss)"""

    def __init__(self, items):
        self._items = items

    def __getitem__(self, k):
        return self._items[k]


class _Obj:
    pass


def _val(v):
    """case value -> python value.  Numbers JSON cannot carry are tagged: {"float": "1.5" | "inf" | "nan"},
    {"decimal": "1.7"}, {"fraction": "3/2"} (such cases are oracle-only: the Lean `Val` has no such numbers)."""
    if isinstance(v, dict):
        if "float" in v:
            return float(v["float"])
        if "decimal" in v:
            import decimal
            return decimal.Decimal(v["decimal"])
        if "fraction" in v:
            import fractions
            return fractions.Fraction(v["fraction"])
    return v


def _has_exotic_number(x):
    if isinstance(x, dict):
        return any(k in x for k in ("float", "decimal", "fraction")) or any(_has_exotic_number(y) for y in x.values())
    if isinstance(x, list):
        return any(_has_exotic_number(y) for y in x)
    return False


def mk_state(st):
    if st is None:
        return None
    kind = st["kind"]
    items = {k: _val(v) for k, v in st.get("items", [])}
    attrs = {k: _val(v) for k, v in st.get("attrs", [])}
    if kind == "seq":
        return ["x"]
    if kind == "dict":
        obj = dict(items)
    elif kind == "objdict":
        obj = _ObjDict(dict(items))
    else:
        obj = _Obj()
    if kind in ("obj", "objdict"):
        for k, v in attrs.items():
            setattr(obj, k, v)
        if _slot_present(st.get("u_attr")):
            obj.ugettext = mk_u(st["u_attr"]["v"])
        if _slot_present(st.get("n_attr")):
            obj.ungettext = mk_n(st["n_attr"]["v"])
    if kind in ("dict", "objdict"):
        tgt = obj if kind == "dict" else obj._items
        if _slot_present(st.get("u_item")):
            tgt["ugettext"] = mk_u(st["u_item"]["v"])
        if _slot_present(st.get("n_item")):
            tgt["ungettext"] = mk_n(st["n_item"]["v"])
    return obj


def _attrs(e):
    return {k: v for k, v in e.get("attrs", [])}


def mk_chain(chain):
    """Build the real element tree for chain[0] (the element) … chain[-1] (the root).
    Returns the element."""
    import flatland

    def cls_kw(e):
        kw = {}
        if e.get("u_cls") is not None:
            kw["ugettext"] = mk_u(e["u_cls"])
        if e.get("n_cls") is not None:
            kw["ungettext"] = mk_n(e["n_cls"])
        a = _attrs(e)
        if "label" in a and a["label"] != a.get("name"):
            kw["label"] = a["label"]
        return kw

    e0 = chain[0]
    a0 = _attrs(e0)
    if e0["kind"] == "scalar":
        schema = flatland.String
    elif e0["kind"] == "dict":
        schema = flatland.Dict.of(*[flatland.String.named(k) for k, _ in e0.get("items", [])])
    else:
        schema = flatland.List.of(flatland.String)
    schema = schema.named(a0.get("name")).using(**cls_kw(e0))
    # parents
    for i in range(1, len(chain)):
        p = chain[i]
        pa = _attrs(p)
        # "impl" chooses the real container class of an ancestor; the property (and the model) only know that it is
        # an ancestor.  A DateYYYYMMDD whose parts do not form a date and a JoinedString whose text is '' are
        # FALSY elements that nevertheless have children (seeded C16-ancestry-stops-at-falsy)
        if p.get("impl") == "date":
            schema = flatland.DateYYYYMMDD.using(field_schema=[schema])
        elif p.get("impl") == "joined":
            schema = flatland.JoinedString.using(member_schema=schema)
        elif p["kind"] == "dict":
            schema = flatland.Dict.of(schema)
        else:
            schema = flatland.List.of(schema)
        schema = schema.named(pa.get("name")).using(**cls_kw(p))
    root = schema()
    # instantiate downwards
    els = [None] * len(chain)
    cur = root
    for i in range(len(chain) - 1, -1, -1):
        els[i] = cur
        if i == 0:
            break
        p = chain[i]
        if p["kind"] == "dict":
            cur = cur[_attrs(chain[i - 1]).get("name")]
        else:
            cur.append(None)
            cur = cur[0]
    el = els[0]
    if e0["kind"] == "scalar":
        if a0.get("u") is not None:
            el.set(a0["u"])
    elif e0["kind"] == "dict":
        el.set({k: v["elem"] for k, v in e0.get("items", [])})
    else:
        el.set(["m"])
    for i, e in enumerate(chain):
        if _slot_present(e.get("u_inst")):
            els[i].ugettext = mk_u(e["u_inst"]["v"])
        if _slot_present(e.get("n_inst")):
            els[i].ungettext = mk_n(e["n_inst"]["v"])
        for k, v in _attrs(e).items():
            if k in ("name", "label", "value", "u"):
                continue
            setattr(els[i], k, _val(v))
    return el


def mk_validator(case):
    from flatland.validation import Validator
    m = case["msg"]
    msg = m["s"] if m["t"] == "plain" else (m["s"], m["p"], m["n"])
    attrs = {k: _val(v) for k, v in case.get("vattrs", [])}
    if case.get("callable"):
        the = msg
        attrs["m_"] = staticmethod(lambda element, state: the)
    else:
        attrs["m_"] = msg
    cls = type("SynValidator", (Validator,), attrs)
    return cls()


class _Builtins:
    def __init__(self, b):
        self.b = b or {}
        self.saved = {}

    def __enter__(self):
        for name, key, mk in (("ugettext", "u", mk_u), ("ungettext", "n", mk_n)):
            self.saved[name] = getattr(builtins, name, _Builtins)
            if _slot_present(self.b.get(key)):
                setattr(builtins, name, mk(self.b[key]["v"]))
            elif hasattr(builtins, name):
                delattr(builtins, name)
        return self

    def __exit__(self, *a):
        for name, old in self.saved.items():
            if old is _Builtins:
                if hasattr(builtins, name):
                    delattr(builtins, name)
            else:
                setattr(builtins, name, old)


def run_syn(case):
    el = mk_chain(case["chain"])
    a0 = _attrs(case["chain"][0])
    # the harness' claim about the element attributes must hold on the real element
    for k, v in a0.items():
        got = getattr(el, k)
        if case["chain"][0]["kind"] != "scalar" and k in ("value", "u"):
            continue
        assert got == v, "harness: element attribute %s is %r, case says %r" % (k, got, v)
    state = mk_state(case.get("state"))
    v = mk_validator(case)
    kwargs = {k: _val(val) for k, val in case.get("kwargs", [])}
    el.errors[:] = list(case.get("pre_errors", []))
    out = {"raise": None, "result": None}
    with _Builtins(case.get("builtins")):
        try:
            res = v.expand_message(el, state, v.m_, **kwargs)
            out["result"] = _noaddr(res) if isinstance(res, str) else "<%s>" % type(res).__name__
        except Exception as e:
            if type(e).__name__ == "CaseTimeout":
                raise  # the harness' per-case alarm: a hang, not a Python exception of the library
            out["raise"] = type(e).__name__
            out["_exc_msg"] = str(e)
            tb = e.__traceback__
            while tb.tb_next is not None:
                tb = tb.tb_next
            out["_exc_file"] = os.path.basename(tb.tb_frame.f_code.co_filename)
        try:
            ret = v.note_error(el, state, "m_", **kwargs)
            out["_note_error_ret"] = ret
        except Exception as e:
            if type(e).__name__ == "CaseTimeout":
                raise
            out["_note_error_raise"] = type(e).__name__
    out["errors"] = [_noaddr(m) for m in el.errors]
    return out


_ADDR = re.compile(r" at 0x[0-9a-fA-F]+>")


def _noaddr(text):
    """`<built-in method items of dict object at 0x7f…>` -> `<built-in method items of dict object>`"""
    return _ADDR.sub(">", text) if isinstance(text, str) else text


# ------------------------------------------------------------------ oracle (spec B transcribed in Python)

_PH = re.compile(r"%(?:\(([^()]*)\)s|%)")


def scan_class(tmpl):
    """how the model's `%` scanner classifies a template: "ok", "ValueError" (malformed: Python raises it too) or
    "unsupported" (a conversion other than %(key)s / %%)"""
    i, n = 0, len(tmpl)
    while i < n:
        if tmpl[i] != "%":
            i += 1
            continue
        i += 1
        if i >= n:
            return "ValueError"
        if tmpl[i] == "%":
            i += 1
            continue
        if tmpl[i] != "(":
            return "unsupported"
        depth = 1
        i += 1
        while i < n and depth:
            depth += {"(": 1, ")": -1}.get(tmpl[i], 0)
            i += 1
        if depth:
            return "ValueError"
        if i >= n:
            return "ValueError"
        if tmpl[i] != "s":
            return "unsupported"
        i += 1
    return "ok"


def simulate_format(tmpl, get):
    """`tmpl % mapping` in CPython's order (the key is fetched when its `)` is read): -> text, or ("KeyError", repr(key)),
    ("ValueError", "incomplete format…"), or None for a conversion outside %(key)s / %%.  `get(key)` -> (found, text)"""
    out, i, n = [], 0, len(tmpl)
    while i < n:
        ch = tmpl[i]
        if ch != "%":
            out.append(ch)
            i += 1
            continue
        i += 1
        if i >= n:
            return ("ValueError", "incomplete format")
        if tmpl[i] == "%":
            out.append("%")
            i += 1
            continue
        if tmpl[i] != "(":
            return None
        depth, j = 1, i + 1
        while j < n and depth:
            depth += {"(": 1, ")": -1}.get(tmpl[j], 0)
            j += 1
        if depth:
            return ("ValueError", "incomplete format key")
        key = tmpl[i + 1:j - 1]
        found, text = get(key)
        if not found:
            return ("KeyError", repr(key))
        if j >= n:
            return ("ValueError", "incomplete format")
        if tmpl[j] != "s":
            return None
        out.append(text)
        i = j + 1
    return "".join(out)


def fragment_ok(tmpl):
    """template uses only %(key)s (no parentheses in key) and %%"""
    rest = _PH.sub("", tmpl)
    return "%" not in rest


def placeholders(tmpl):
    return [m.group(1) for m in _PH.finditer(tmpl) if m.group(1) is not None]


DICT_METHODS = ["clear", "copy", "fromkeys", "get", "items", "keys", "pop", "popitem", "setdefault", "update", "values"]
LIST_METHODS = ["append", "clear", "copy", "count", "extend", "index", "insert", "pop", "remove", "reverse", "sort"]


def _methods(owner, names):
    # dict.fromkeys is a classmethod: bound to the type
    return {n: {"method": n, "owner": "type" if n == "fromkeys" else owner} for n in names}


def doc_sources(case, quirks=()):
    """the five documented sources, in documented order, as dicts.  (A dict / list state has its methods as
    attributes: they are "attributes of state".)
    quirks: what the two open findings add —
      "kf_d": the keyword dict's own attributes, right after the keywords;
      "kf_a": the items of a Mapping element (its children), right before the element's attributes."""
    st = case.get("state") or {}
    kind = st.get("kind")
    sitems = {k: v for k, v in st.get("items", [])} if kind in ("dict", "objdict") else {}
    if kind in ("obj", "objdict"):
        sattrs = {k: v for k, v in st.get("attrs", [])}
    elif kind == "dict":
        sattrs = _methods("dict", DICT_METHODS)
    elif kind == "seq":
        sattrs = _methods("list", LIST_METHODS)
    else:
        sattrs = {}
    e0 = case["chain"][0]
    out = [{k: v for k, v in case.get("kwargs", [])}]
    if "kf_d" in quirks:
        out.append(_methods("dict", DICT_METHODS))
    out += [sitems, sattrs, {k: v for k, v in case.get("vattrs", [])}]
    if "kf_a" in quirks and e0["kind"] == "dict":
        out.append({k: v for k, v in e0.get("items", [])})
    out.append(_attrs(e0))
    return out


def _text(v):
    """str() of a case value"""
    if isinstance(v, dict) and "elem" in v:
        return v["elem"]
    if isinstance(v, dict) and "method" in v:
        return "<built-in method %s of %s object>" % (v["method"], v["owner"])
    return str(_val(v))


def doc_lookup(srcs, key):
    for s in srcs:
        if key in s:
            return True, s[key]
    return False, None


def doc_translator(case, which):
    """first of: state attribute, state item, element (instance over class), nearest ancestor, builtins"""
    st = case.get("state") or {}
    kind = st.get("kind")
    a, i = which + "_attr", which + "_item"
    if kind in ("obj", "objdict") and _slot_present(st.get(a)):
        return st[a]["v"]
    if kind in ("dict", "objdict") and _slot_present(st.get(i)):
        return st[i]["v"]
    for e in case["chain"]:
        inst = e.get(which + "_inst")
        cand = inst["v"] if _slot_present(inst) else e.get(which + "_cls")
        if cand is not None:
            return cand
    b = (case.get("builtins") or {}).get(which)
    if _slot_present(b):
        return b["v"]
    return None


def _count_number(v):
    """the number a count stands for (an int for text and integral numbers), or None when it is not a number"""
    import decimal
    import fractions
    v = _val(v)
    if isinstance(v, bool):
        return int(v)
    if isinstance(v, int):
        return v
    if isinstance(v, str):
        try:
            return int(v)
        except ValueError:
            return None
    if isinstance(v, (float, decimal.Decimal, fractions.Fraction)):
        try:
            if v == int(v):
                return int(v)
        except (ValueError, OverflowError, ArithmeticError):
            pass
        return v  # 1.5, inf, nan: a number, never equal to 1
    return None


def _not_a_finite_number(num):
    """None (not a number at all), nan or an infinity"""
    if num is None:
        return True
    if isinstance(num, int):
        return False
    try:
        int(num)
        return False
    except (ValueError, OverflowError, ArithmeticError):
        return True


NORAISE = "<some expansion, no exception>"
MALFORMED = "<ValueError: incomplete format>"


def _catalogue_form(lang, single, plural, idx):
    """msgstr[idx] of the shipped catalogue's entry for this triple (read from the catalogue itself, not through
    ngettext's plural rule), or the source form"""
    cat = translation(lang)._catalog
    return cat.get((single, idx), single if idx == 0 else plural)


def expected_syn(case, quirks=()):
    """(expected text | None when outside the documented domain, reason).
    `quirks` = deviations of the open findings to apply (for the class predicates): kf_a, kf_d (lookup),
    kf_c (the plural form is whatever the locale's ngettext selects, not "singular iff 1")."""
    m = case["msg"]
    srcs = doc_sources(case, quirks)
    u = mk_u(doc_translator(case, "u"))

    def tr(x):
        return u(x) if (u and isinstance(x, str)) else x
    if m["t"] == "plain":
        tmpl = tr(m["s"])
    else:
        found, n = doc_lookup(srcs, m["n"])
        n = tr(n) if found else None
        num = _count_number(n)
        ndesc = doc_translator(case, "n")
        if ndesc is not None and "locale" in ndesc:
            if _not_a_finite_number(num):
                # the count is handed to gettext's ngettext, which accepts finite numbers only: the documentation
                # still promises an expansion (the plural form); which text exactly is gettext's business
                return NORAISE, "gettext's ngettext needs a number"
            if "kf_c" in quirks:
                tmpl = mk_n(ndesc)(m["s"], m["p"], num)
            else:
                # documented: the singular form exactly when the count is 1
                tmpl = _catalogue_form(ndesc["locale"], m["s"], m["p"], 0 if num == 1 else 1)
        elif ndesc is not None:
            # a user-supplied ungettext: the choice is delegated to it, with the coerced count
            tmpl = mk_n(ndesc)(m["s"], m["p"], num if num is not None else n)
        else:
            tmpl = tr(m["s"]) if num == 1 else tr(m["p"])
    if isinstance(tmpl, str) and quirks:
        # what the findings predict, whatever form they make the count select (possibly one that is no template)
        def get(key):
            found, v = doc_lookup(srcs, key)
            return found, (_text(tr(v)) if found else None)
        return simulate_format(tmpl, get), "prediction under the lookup quirks"
    if not isinstance(tmpl, str) or not fragment_ok(tmpl):
        return None, "template outside the %(key)s fragment"
    out = []
    pos = 0
    for mt in _PH.finditer(tmpl):
        out.append(tmpl[pos:mt.start()])
        pos = mt.end()
        if mt.group(1) is None:
            out.append("%")
            continue
        found, v = doc_lookup(srcs, mt.group(1))
        if not found:
            if quirks:
                return ("KeyError", repr(mt.group(1))), "the form the quirk selects uses a key no source defines"
            return None, "key %r is not defined by any source" % mt.group(1)
        out.append(_text(tr(v)))
    out.append(tmpl[pos:])
    return "".join(out), None


def expected_errors(case, text):
    pre = list(case.get("pre_errors", []))
    m = case["msg"]
    empty = m["t"] == "plain" and m["s"] == "" and not case.get("callable")
    return pre if (empty or text in pre) else pre + [text]


def oracle_syn(case):
    obs = run_syn(case)
    fails = []
    exp, why = expected_syn(case)
    if exp is None:
        return fails  # outside the documented domain: nothing is promised
    if obs["raise"] is not None:
        fails.append({"clause": "expands-without-error", "expected": exp, "observed": obs["raise"],
                      "_exc_msg": obs.get("_exc_msg"), "_exc_file": obs.get("_exc_file")})
        return fails
    if exp == NORAISE:
        return fails
    if obs["result"] != exp:
        fails.append({"clause": "documented-expansion", "expected": exp, "observed": obs["result"]})
    # leftover placeholders: only meaningful when no substituted value / literal carries a '%'
    vals = [_text(v) for s in doc_sources(case) for v in s.values()]
    if "%(" in (obs["result"] or "") and not any("%" in v for v in vals) and "%%" not in exp_template_text(case):
        fails.append({"clause": "no-leftover-placeholder", "expected": "no %( in result", "observed": obs["result"]})
    want = expected_errors(case, exp)
    if obs["errors"] != want:
        fails.append({"clause": "note_error-records-once", "expected": want, "observed": obs["errors"]})
    if obs.get("_note_error_ret") is not False:
        fails.append({"clause": "note_error-returns-False", "expected": False, "observed": repr(obs.get("_note_error_ret"))})
    return fails


def exp_template_text(case):
    m = case["msg"]
    return m["s"] + (m.get("p") or "")


# ------------------------------------------------------------------ built-in validators under the shipped locales

PLACES = ["state-dict", "state-obj", "element", "root", "builtins"]


def _builtin_objects(case):
    """(element, validator, state, the two translator callables or None)"""
    from harness.props import c15
    from flatland.schema.base import Slot
    el = c15.build(case["c15"])
    v = c15.mk_validator(case["c15"]["v"])
    lang = case.get("lang")
    g = translation(lang).gettext if lang else None
    n = translation(lang).ngettext if (lang and case.get("with_n", True)) else None
    place = case["place"]
    state = None
    if place == "state-dict":
        state = {}
        if g:
            state["ugettext"] = g
        if n:
            state["ungettext"] = n
    elif place == "state-obj":
        state = _Obj()
        if g:
            state.ugettext = g
        if n:
            state.ungettext = n
    elif place in ("element", "root"):
        tgt = el
        if place == "root":
            tgt = el.root
        if g:
            tgt.ugettext = g
        if n:
            tgt.ungettext = n
    return el, v, state, g, n


def _root_is_other(case):
    """does the element have a parent (so that `root` differs from `element`)?"""
    return "index" in case["c15"]["build"]


def run_builtin(case):
    from harness.props import c15
    el, v, state, g, n = _builtin_objects(case)
    view = c15.view_of(case["c15"], el)
    assert view == case["c15"]["view"], "harness: element view differs from the case"
    el.errors[:] = list(case["c15"].get("pre_errors", []))
    b = {}
    if case["place"] == "builtins":
        lang = case.get("lang")
        if lang:
            b["u"] = {"v": {"locale": lang}}
            if case.get("with_n", True):
                b["n"] = {"v": {"locale": lang}}
    out = {"raise": None, "verdict": None}
    with _Builtins(b):
        try:
            ret = v(el, state)
            out["verdict"] = ret if isinstance(ret, bool) else "<%s>" % type(ret).__name__
        except Exception as e:
            if type(e).__name__ == "CaseTimeout":
                raise  # the harness' per-case alarm: a hang, not a Python exception of the library
            out["raise"] = type(e).__name__
    out["errors"] = list(el.errors)
    return out, el, v, g, n


def oracle_builtin(case):
    """the message a failing built-in validator must record under the locale: the catalogue's translation of
    the documented form (real gettext on the shipped .mo), every value passed through gettext, fully expanded"""
    from harness.props import c15
    obs, el, v, g, n = run_builtin(case)
    fails = []
    want, msg = c15.documented(case["c15"], el)
    if want is None or want == "no-raise":
        return fails
    if obs["raise"] is not None:
        base = dict(case)
        base["lang"] = None
        if run_builtin(base)[0]["raise"] is not None:
            return fails  # the validator raises without any translator: C15's business
        fails.append({"clause": "expands-without-error", "expected": want, "observed": obs["raise"]})
        return fails
    if obs["verdict"] is not want:
        return fails  # C15's business
    pre = list(case["c15"].get("pre_errors", []))
    if want is True or msg is None:
        return fails
    keys, extra = msg
    keys = keys if isinstance(keys, list) else [keys]
    tr = g if g else (lambda x: x)

    def val(k):
        if k in extra:
            return extra[k]
        if hasattr(v, k):
            return getattr(v, k)
        return getattr(el, k)

    class M(dict):
        def __missing__(self, k):
            return tr(val(k))
    candidates = []
    for key in keys:
        tmpl = getattr(v, key)
        by_ngettext = None
        if isinstance(tmpl, tuple):
            single, plural, nkey = tmpl
            cnt = tr(val(nkey))
            try:
                cnt = int(cnt)
            except (TypeError, ValueError):
                pass
            if n:
                # documented: the singular form exactly when the count is 1 — read msgstr[0 | 1] off the catalogue
                # itself instead of asking the ngettext under test which form it would pick
                by_ngettext = n(single, plural, cnt)
                tmpl = _catalogue_form(case["lang"], single, plural, 0 if cnt == 1 else 1)
            else:
                tmpl = tr(single) if cnt == 1 else tr(plural)
        else:
            cnt = None
            tmpl = tr(tmpl)
        text = tmpl % M()
        candidates.append((pre if text in pre else pre + [text], tmpl, by_ngettext, cnt))
    # the property: "the singular form exactly when the count is 1" — a form that SHOWS the count (its template
    # substitutes the count key) is acceptable for any count, whatever index the catalogue keeps it under
    for key in keys:
        t0 = getattr(v, key)
        if isinstance(t0, tuple) and n:
            single, plural, nkey = t0
            cnt0 = tr(val(nkey))
            try:
                cnt0 = int(cnt0)
            except (TypeError, ValueError, OverflowError):
                continue
            chosen = n(single, plural, cnt0)
            if ("%%(%s)s" % nkey) in chosen:
                text = chosen % M()
                candidates.append((pre if text in pre else pre + [text], chosen, None, cnt0))
    if obs["errors"] not in [c[0] for c in candidates]:
        exp, tmpl, by_ngettext, cnt = candidates[0]
        f = {"clause": "translated-expansion", "expected": exp, "observed": obs["errors"]}
        if by_ngettext is not None and by_ngettext != tmpl:
            alt = by_ngettext % M()
            f["clause"] = "singular-iff-count-is-one"
            f["_ngettext_choice"] = pre if alt in pre else pre + [alt]
            f["_count"] = cnt
        fails.append(f)
    tmpl = candidates[0][1]
    for m in obs["errors"][len(pre):]:
        if "%(" in m and "%(" not in "".join(str(val(k)) for k in placeholders(tmpl)):
            fails.append({"clause": "no-leftover-placeholder", "expected": "no %( left", "observed": m})
    return fails


def builtin_scenarios():
    """one failing scenario per built-in message attribute (singular and plural counts where it is a triple):
    (label, unfinished C15 case)"""
    S, I, B = "String", "Integer", "Boolean"
    sc = lambda kind, val, name="fld": {"kind": kind, "name": name, "set": val}
    lst = lambda n, kind="List": {"kind": kind, "name": "wishes", "member": S, "member_name": "wish", "values": ["w"] * n}
    dct = lambda raw: {"kind": "Dict", "name": "frm", "fields": ["a", "b"], "raw": raw}
    two = lambda a, b: {"kind": "fields", "name": "frm", "fields": [{"name": "x", "type": S, "set": a}, {"name": "y", "type": S, "set": b}]}
    out = [
        ("Converted.incorrect", {"cls": "Converted"}, sc(I, "abc")),
        ("Present.missing", {"cls": "Present"}, sc(S, "")),
        ("IsTrue.false", {"cls": "IsTrue"}, sc(B, False)),
        ("IsFalse.true", {"cls": "IsFalse"}, sc(B, True)),
        ("ValueIn.fail", {"cls": "ValueIn", "valid_options": ["a", "b"]}, sc(S, "z")),
        ("ValueIn.fail/empty-value", {"cls": "ValueIn", "valid_options": ["a"]}, sc(S, "")),
        ("ValueIn.fail/None", {"cls": "ValueIn", "valid_options": [1]}, sc(I, "q")),
        ("ShorterThan.exceeded", {"cls": "ShorterThan", "maxlength": 2}, sc(S, "abc")),
        ("LongerThan.short", {"cls": "LongerThan", "minlength": 5}, sc(S, "abc")),
        ("LengthBetween.breached", {"cls": "LengthBetween", "minlength": 4, "maxlength": 8}, sc(S, "abc")),
        ("ValueLessThan.failure", {"cls": "ValueLessThan", "boundary": 4}, sc(I, 4)),
        ("ValueAtMost.failure", {"cls": "ValueAtMost", "maximum": 3}, sc(I, 4)),
        ("ValueGreaterThan.failure", {"cls": "ValueGreaterThan", "boundary": 4}, sc(I, 4)),
        ("ValueAtLeast.failure", {"cls": "ValueAtLeast", "minimum": 5}, sc(I, None)),
        ("ValueBetween.failure_inclusive", {"cls": "ValueBetween", "minimum": 1, "maximum": 3, "inclusive": True}, sc(I, 9)),
        ("ValueBetween.failure_exclusive", {"cls": "ValueBetween", "minimum": 1, "maximum": 3, "inclusive": False}, sc(I, 3)),
        ("MapEqual.unequal", {"cls": "MapEqual", "field_paths": ["x", "y"]}, two("p", "q")),
        ("ValuesEqual.unequal", {"cls": "ValuesEqual", "field_paths": ["x", "y"]}, two("p", "q")),
        ("UnisEqual.unequal", {"cls": "UnisEqual", "field_paths": ["x", "y"]}, two("p", "q")),
        ("NotDuplicated.failure", {"cls": "NotDuplicated"}, dict(lst(3), index=2)),
        ("HasAtLeast.failure/singular", {"cls": "HasAtLeast", "minimum": 1}, lst(0)),
        ("HasAtLeast.failure/plural", {"cls": "HasAtLeast", "minimum": 3}, lst(1)),
        ("HasAtMost.failure/singular", {"cls": "HasAtMost", "maximum": 1}, lst(2)),
        ("HasAtMost.failure/plural", {"cls": "HasAtMost", "maximum": 2}, lst(3)),
        ("HasAtMost.failure/zero", {"cls": "HasAtMost", "maximum": 0}, lst(1)),
        ("HasBetween.exact/singular", {"cls": "HasBetween", "minimum": 1, "maximum": 1}, lst(2)),
        ("HasBetween.exact/plural", {"cls": "HasBetween", "minimum": 2, "maximum": 2}, lst(0)),
        ("HasBetween.exact/zero", {"cls": "HasBetween", "minimum": 0, "maximum": 0}, lst(1)),
        ("HasBetween.range/singular", {"cls": "HasBetween", "minimum": 0, "maximum": 1}, lst(3)),
        ("HasBetween.range/plural", {"cls": "HasBetween", "minimum": 1, "maximum": 3}, lst(5, "Array")),
        ("SetWithKnownFields.unexpected", {"cls": "SetWithKnownFields"}, dct({"t": "dict", "pairs": [["a", "1"], ["z", "2"], ["q", "3"]]})),
        ("SetWithAllFields.unexpected", {"cls": "SetWithAllFields"}, dct({"t": "dict", "pairs": [["a", "1"], ["b", "2"], ["z", "3"]]})),
        ("SetWithAllFields.missing", {"cls": "SetWithAllFields"}, dct({"t": "dict", "pairs": [["a", "1"]]})),
        ("SetWithAllFields.both", {"cls": "SetWithAllFields"}, dct({"t": "pairs", "pairs": [["z", "1"]]})),
        ("Luhn10.invalid", {"cls": "Luhn10"}, sc(I, 4111111111111112)),
        ("IsEmail.invalid", {"cls": "IsEmail"}, sc(S, "not-an-address")),
        ("URLValidator.bad_format", {"cls": "URLValidator"}, sc(S, None)),
        ("URLValidator.blocked_scheme", {"cls": "URLValidator", "allowed_schemes": ["https"]}, sc(S, "http://a.example/")),
        ("URLValidator.blocked_part", {"cls": "URLValidator", "allowed_parts": ["scheme", "netloc"]}, sc(S, "http://a.example/p")),
        ("HTTPURLValidator.bad_format", {"cls": "HTTPURLValidator"}, sc(S, "http://[::1")),
        ("HTTPURLValidator.required_part", {"cls": "HTTPURLValidator"}, sc(S, "ftp://a.example/")),
        ("HTTPURLValidator.forbidden_part", {"cls": "HTTPURLValidator"}, sc(S, "http://u:p@a.example/")),
        ("URLCanonicalizer.bad_format", {"cls": "URLCanonicalizer"}, sc(S, "http://[::1")),
    ]
    return [(label, {"v": v, "build": b}) for label, v, b in out]


def rand_builtin(rng, c15case=None):
    from harness.props import c15
    if c15case is None:
        for _ in range(6):
            c = c15.PROP_GEN(rng)
            try:
                el = c15.build(c)
                want, msg = c15.documented(c, el)
            except Exception:
                continue
            if want is False:
                break
        c15case = c
    c15case["v"].pop("messages", None)  # overridden templates are not in the catalogues: C15's stream covers them
    place = rng.choice(PLACES)
    lang = rng.choice(LANGS + LANGS + [None])
    return {"k": "builtin", "c15": c15case, "lang": lang, "place": place, "with_n": rng.random() < 0.7}


# ------------------------------------------------------------------ known-finding class predicates


def used_keys(case):
    m = case["msg"]
    ks = set(placeholders(m["s"]))
    if m["t"] == "plural":
        ks |= set(placeholders(m["p"]))
        ks.add(m["n"])
    return ks


def _shadowed(case, shadow_keys, before):
    """used keys that are in `shadow_keys` and that none of the documented sources `before` defines"""
    srcs = doc_sources(case)[:before]
    return {k for k in used_keys(case) if k in shadow_keys and not any(k in s for s in srcs)}


def in_class_kf_a(case):
    """Mapping element whose child is called like a key the message uses, and no earlier source
    (keywords, state, validator) defines that key"""
    if case.get("k") != "syn":
        return False
    e0 = case["chain"][0]
    if e0["kind"] != "dict":
        return False
    return bool(_shadowed(case, {k for k, _ in e0.get("items", [])}, 4))


def in_class_kf_d(case):
    """the message uses a key that is the name of a dict method and the note_error keywords do not define it"""
    if case.get("k") != "syn":
        return False
    return bool(_shadowed(case, set(DICT_METHODS), 1))


def predicted_by_findings(case):
    """what the open lookup findings predict for this case: the documented expansion with the child's .u (KF-C16-a)
    / the keyword dict's bound method (KF-C16-d) substituted for exactly the shadowed keys.
    -> (finding id, text) or None"""
    quirks = []
    if in_class_kf_a(case):
        quirks.append("kf_a")
    if in_class_kf_d(case):
        quirks.append("kf_d")
    if not quirks:
        return None
    text, _ = expected_syn(case, tuple(quirks))
    if text is None or text == NORAISE:
        return None
    # (text may be MALFORMED: the shadowing value changes the count, and the form chosen instead is not a template)
    return ("KF-C16-a" if "kf_a" in quirks else "KF-C16-d"), text


def in_class_kf_c(case):
    """a built-in plural message under the French catalogue's own ngettext (plural=(n > 1)) with a count n <= 0:
    gettext selects msgstr[0], which spells "un(e)" instead of substituting the count"""
    if case.get("k") != "builtin" or case.get("lang") != "fr" or not case.get("with_n", True):
        return False
    v = case["c15"]["v"]
    if v["cls"] == "HasAtLeast":
        cnt = v.get("minimum", 1)
    elif v["cls"] == "HasAtMost":
        cnt = v.get("maximum", 1)
    elif v["cls"] == "HasBetween":
        cnt = v.get("minimum", 1) if v.get("minimum", 1) == v.get("maximum", 1) else v.get("maximum", 1)
    else:
        return False
    return isinstance(cnt, int) and cnt <= 0


def in_class_kf_e(case):
    """plural triple handed to a gettext-backed ungettext (GNUTranslations.ngettext) with a count that is not a
    finite number: non-integer text, None, a count key no source defines, nan, an infinity, or — through the lookup
    quirks KF-C16-a/-d — a child element or a bound method"""
    if case.get("k") != "syn" or case["msg"]["t"] != "plural":
        return False
    ndesc = doc_translator(case, "n")
    if not (isinstance(ndesc, dict) and "locale" in ndesc):
        return False
    quirks = tuple(q for q, f in (("kf_a", in_class_kf_a), ("kf_d", in_class_kf_d)) if f(case))
    found, n = doc_lookup(doc_sources(case, quirks), case["msg"]["n"])
    if not found:
        return True
    if isinstance(n, dict) and ("elem" in n or "method" in n):
        return True
    u = mk_u(doc_translator(case, "u"))
    n = _val(n)
    if u and isinstance(n, str):
        n = u(n)
    return _not_a_finite_number(_count_number(n))


def kf_e_exception_matches(failure):
    """the exception KF-C16-e predicts: raised inside gettext.py by the plural function — TypeError 'Plural value
    must be an integer, got …', or for nan / an infinity ValueError / OverflowError 'cannot convert float …'"""
    if failure.get("_exc_file") != "gettext.py":
        return False
    name, msg = failure.get("observed"), failure.get("_exc_msg") or ""
    if name == "TypeError":
        return msg.startswith("Plural value must be an integer")
    if name in ("OverflowError", "ValueError"):
        return msg.startswith("cannot convert")
    return False


# ------------------------------------------------------------------ generators


def _slot(v):
    return {"v": v}


def base_case():
    return {"k": "syn", "msg": {"t": "plain", "s": "%(label)s!"}, "callable": False, "kwargs": [],
            "state": None, "vattrs": [], "builtins": {},
            "chain": [{"kind": "scalar", "attrs": [["name", "el"], ["label", "el"], ["u", "txt"], ["value", "txt"]]}],
            "pre_errors": []}


def priority_case(key, pattern, state_kind="objdict", extra=None):
    """pattern: 5 booleans, which of (kwargs, state item, state attr, validator attr, element attr) define key"""
    c = base_case()
    c["msg"] = {"t": "plain", "s": "<%%(%s)s>" % key}
    vals = ["kw-" + key, "si-" + key, "sa-" + key, "va-" + key, "ea-" + key]
    if pattern[0]:
        c["kwargs"].append([key, vals[0]])
    if pattern[1] or pattern[2]:
        c["state"] = {"kind": state_kind, "items": [], "attrs": []}
        if pattern[1]:
            c["state"]["items"].append([key, vals[1]])
        if pattern[2]:
            c["state"]["attrs"].append([key, vals[2]])
    if pattern[3]:
        c["vattrs"].append([key, vals[3]])
    if pattern[4]:
        c["chain"][0]["attrs"].append([key, vals[4]])
    if extra:
        c.update(extra)
    return c


COUNTS = [0, 1, 2, 5, -1, "1", " 1 ", "+1", "01", "1_0", "2", True, False, None, 100]
# numbers JSON / the Lean `Val` cannot carry (oracle-only cases): integral and non-integral floats, Decimals, Fractions
EXOTIC_COUNTS = [{"float": "1.0"}, {"float": "1.5"}, {"float": "1.999"}, {"float": "0.5"}, {"float": "2.0"}, {"float": "inf"},
                 {"float": "-inf"}, {"float": "nan"}, {"decimal": "1"}, {"decimal": "1.0"}, {"decimal": "1.7"}, {"decimal": "NaN"},
                 {"decimal": "Infinity"}, {"fraction": "1"}, {"fraction": "3/2"}, {"fraction": "2"}]
BAD_COUNTS = ["abc", "", "1.0", "1 0", "_1", "1_"]


def rand_tr(rng, tag):
    r = rng.random()
    if r < 0.08:
        return {"locale": rng.choice(LANGS)}
    r = rng.random()
    if r < 0.5:
        return {"tag": tag, "tbl": []}
    if r < 0.8:
        return {"tag": None, "tbl": [["%(label)s!", "¡%(label)s!"], ["el", "EL"], ["one %(k1)s", "uno %(k1)s"],
                                     ["many %(k1)s %(cnt)s", "muchos %(k1)s %(cnt)s"]]}
    return {"tag": tag, "tbl": [["el", "EL"], ["txt", "TXT"]]}


def rand_ntr(rng, tag):
    if rng.random() < 0.12:
        return {"locale": rng.choice(LANGS)}
    return {"tag": tag if rng.random() < 0.8 else None, "rule": rng.choice(["ne1", "ne1", "gt1"])}


def rand_value(rng, key, src):
    r = rng.random()
    if key == "cnt":
        return rng.choice(COUNTS)
    if r < 0.7:
        return "%s-%s" % (src, key)
    if r < 0.8:
        return rng.choice([0, 1, 7, -3, 12345678901234567890])
    if r < 0.85:
        return rng.choice([True, False])
    if r < 0.9:
        return None
    return rng.choice(["", "ü-ñ", "a b", "100%", "x(y)", "日本"])


def rand_template(rng, keys):
    parts = []
    for _ in range(rng.randint(1, 4)):
        r = rng.random()
        if r < 0.55:
            parts.append("%%(%s)s" % rng.choice(keys))
        elif r < 0.65:
            parts.append("%%")
        else:
            parts.append(rng.choice(["", " ", "x", " is ", "é", "(", ")", "s", "must ", "."]))
    return "".join(parts)


def rand_syn(rng):
    c = base_case()
    keys = list(KEYS)
    # element
    r = rng.random()
    e0 = c["chain"][0]
    name = rng.choice(["el", "fld", "x", "名"])
    label = name if rng.random() < 0.6 else rng.choice(["Label", "the field", name.upper()])
    u = rng.choice(["txt", "", "42", "é"])
    e0["attrs"] = [["name", name], ["label", label], ["u", u], ["value", u]]
    if r < 0.08:
        e0["kind"] = "list"
        e0["attrs"] = [["name", name], ["label", label]]
    elif r < 0.14:
        # a Mapping element whose children are NOT named like message keys (outside the KF-C16-a class)
        e0["kind"] = "dict"
        e0["items"] = [[n, {"elem": rng.choice(["c", ""])}] for n in rng.sample(["zz", "child", "k9"], rng.randint(1, 2))]
        e0["attrs"] = [["name", name], ["label", label]]
    # sources
    for src in SOURCES:
        for k in keys:
            if k in ("name", "label", "u", "value") and src == "eattr":
                continue
            if rng.random() < 0.22:
                v = rand_value(rng, k, src)
                if src == "kwargs":
                    c["kwargs"].append([k, v])
                elif src in ("sitem", "sattr"):
                    if c["state"] is None:
                        c["state"] = {"kind": None, "items": [], "attrs": []}
                    c["state"]["items" if src == "sitem" else "attrs"].append([k, v])
                elif src == "vattr":
                    c["vattrs"].append([k, v])
                else:
                    e0["attrs"].append([k, v])
    if c["state"] is None and rng.random() < 0.3:
        c["state"] = {"kind": None, "items": [], "attrs": []}
    if c["state"] is not None:
        st = c["state"]
        if st["items"] and st["attrs"]:
            st["kind"] = "objdict"
        elif st["items"]:
            st["kind"] = rng.choice(["dict", "dict", "objdict"])
        elif st["attrs"]:
            st["kind"] = rng.choice(["obj", "obj", "objdict"])
        else:
            st["kind"] = rng.choice(["obj", "dict", "objdict"])
    # parents
    for depth in range(rng.choice([0, 1, 1, 2, 3])):
        p = {"kind": rng.choice(["dict", "list"]), "attrs": [["name", "p%d" % depth]]}
        if rng.random() < 0.3:
            # the ancestor is a compound / joined string (often falsy: bool(u and value)) instead of a Dict / List
            p["impl"] = "date" if p["kind"] == "dict" else "joined"
        c["chain"].append(p)
    # translators
    if rng.random() < 0.6:
        places = []
        st = c["state"]
        if st is not None:
            if st["kind"] in ("obj", "objdict"):
                places.append(("state", "u_attr"))
                places.append(("state", "n_attr"))
            if st["kind"] in ("dict", "objdict"):
                places.append(("state", "u_item"))
                places.append(("state", "n_item"))
        for i in range(len(c["chain"])):
            places += [("chain", i, "u_inst"), ("chain", i, "u_cls"), ("chain", i, "n_inst"), ("chain", i, "n_cls")]
        places += [("builtins", "u"), ("builtins", "n")]
        for n_, pl in enumerate(rng.sample(places, rng.randint(1, min(4, len(places))))):
            tag = "T%d" % n_
            slot = pl[-1]
            is_u = slot.startswith("u")
            tr = rand_tr(rng, tag) if is_u else rand_ntr(rng, tag)
            none_here = rng.random() < 0.15
            if pl[0] == "state":
                c["state"][slot] = _slot(None if none_here else tr)
            elif pl[0] == "builtins":
                c["builtins"][slot] = _slot(None if none_here else tr)
            else:
                if slot.endswith("_cls"):
                    c["chain"][pl[1]][slot] = tr
                else:
                    c["chain"][pl[1]][slot] = _slot(None if none_here else tr)
    # message
    r = rng.random()
    defined = sorted({k for s in doc_sources(c) for k in s})
    pool = defined if (defined and rng.random() < 0.85) else keys
    if e0["kind"] != "scalar":
        # .value / .u of a container are not part of the case: keep them out of the template
        pool = [k for k in pool if k not in ("value", "u")] or ["label"]
    if r < 0.5:
        c["msg"] = {"t": "plain", "s": rand_template(rng, pool)}
    else:
        nkey = "cnt" if rng.random() < 0.8 else rng.choice(keys)
        c["msg"] = {"t": "plural", "s": rng.choice(["one %(k1)s", "one", "1 " + rand_template(rng, pool)]),
                    "p": rng.choice(["many %(k1)s %(cnt)s", "many", "N " + rand_template(rng, pool)]), "n": nkey}
        if rng.random() < 0.8 and not any(nkey in s for s in doc_sources(c)):
            c["vattrs"].append([nkey, rng.choice(COUNTS)])
    c["callable"] = rng.random() < 0.2
    sanitize(c)
    if rng.random() < 0.15:
        exp, _ = expected_syn(c)
        if exp is not None and exp != NORAISE and "<built-in method" not in exp:
            c["pre_errors"] = rng.choice([[exp], ["other", exp], ["other"]])
    return c


def sanitize(c):
    """.value / .u of a container element are not described by the case: keep them out of the message"""
    if c["chain"][0]["kind"] != "scalar":
        m = c["msg"]
        for form in ("s", "p"):
            if form in m:
                m[form] = m[form].replace("%(value)s", "%(label)s").replace("%(u)s", "%(name)s")
        if m.get("n") in ("value", "u"):
            m["n"] = "cnt"
    # the repr of a bound method carries an address that differs from call to call: no dedup to observe
    c["pre_errors"] = [m for m in c.get("pre_errors", []) if "<built-in method" not in m]
    return c


def hostile_syn(rng):
    return sanitize(_hostile_syn(rng))


def _hostile_syn(rng):
    c = rand_syn(rng)
    r = rng.random()
    if r < 0.17:
        c["msg"] = {"t": "plain", "s": rng.choice(["100%", "%(label", "%(label)", "%(a(b)c)s", "%(a(b)s", "%%(label)s",
                                                     "%(nosuch)s", "%(label)s %(nosuch)s", "", "%()s", "%(label)s%"])}
    elif r < 0.3:
        c["state"] = {"kind": "seq", "items": [], "attrs": []}
        if rng.random() < 0.3:
            c["msg"] = {"t": "plain", "s": "%%(%s)s/%%(label)s" % rng.choice(LIST_METHODS)}
    elif r < 0.46:
        # keys that are names of dict methods (KF-C16-d when the keywords do not define them): defined by a random
        # subset of the other sources
        keys = rng.sample(DICT_METHODS, rng.randint(1, 2))
        c["msg"] = {"t": "plain", "s": " ".join("%%(%s)s" % k for k in keys) + " %(label)s"}
        for k in keys:
            for src in ("kwargs", "sitem", "sattr", "vattr", "eattr"):
                if rng.random() < 0.35:
                    v = "%s-%s" % (src, k)
                    if src == "kwargs":
                        c["kwargs"].append([k, v])
                    elif src == "vattr":
                        c["vattrs"].append([k, v])
                    elif src == "eattr":
                        c["chain"][0]["attrs"].append([k, v])
                    else:
                        if c["state"] is None or c["state"]["kind"] not in ("objdict",):
                            c["state"] = {"kind": "objdict", "items": [], "attrs": []}
                        c["state"]["items" if src == "sitem" else "attrs"].append([k, v])
    elif r < 0.6:
        # Mapping element with children named like message keys (KF-C16-a)
        names = rng.sample(["label", "name", "k1", "cnt", "zz"], rng.randint(1, 3))
        e0 = c["chain"][0]
        e0["kind"] = "dict"
        e0["items"] = [[n, {"elem": rng.choice(["child", "1", ""])}] for n in names]
        e0["attrs"] = [a for a in e0["attrs"] if a[0] in ("name", "label") or a[0].startswith("k")]
    elif r < 0.8:
        if c["msg"]["t"] == "plural":
            nkey = c["msg"]["n"]
            c["kwargs"] = [kv for kv in c["kwargs"] if kv[0] != nkey] + [[nkey, rng.choice(BAD_COUNTS + EXOTIC_COUNTS)]]
        else:
            c["msg"] = {"t": "plural", "s": "one", "p": "many %(cnt)s", "n": "cnt"}
            c["kwargs"] = [kv for kv in c["kwargs"] if kv[0] != "cnt"] + [["cnt", rng.choice(BAD_COUNTS + EXOTIC_COUNTS)]]
    else:
        c["msg"] = {"t": "plain", "s": rng.choice(["%s", "%(label)d", "%(label)r", "%(label)-5s", "%d %(label)s"])}
    return c


class C16(Property):
    id = "C16"
    title = "validation messages expand completely under every lookup source and locale"
    proof_module = "Proofs.C16"
    theorems = ["Flatland.C16.Proofs." + t for t in (
        "priority_partial", "priority_patterns", "C16_full_fails", "C16_full_fails_kwargs",
        "plural_choice", "plural_missing_count", "ungettext_receives_count",
        "de_singular_iff_one", "es_singular_iff_one", "plural_locale_full_fails",
        "findTransformer_eq_spec", "translator_applied",
        "expand_plain_refines", "expand_plural_refines",
        "expand_total", "no_percent_left", "expandMessage_ok_expansion",
        "builtin_expand_total", "builtin_placeholders_in_scope", "catalogue_expand_total",
        "catalogue_no_leftover", "builtin_no_leftover")]
    generated_obligations = ["Flatland.C16.Proofs." + t for t in (
        "catalogues_listed", "catalogue_placeholders", "catalogue_complete", "builtin_keys_supplied",
        "builtin_no_escape", "fr_singular_drops_count")]
    quick_n = 100000
    case_timeout = 30   # per-case alarm (run_impl and oracle each): a hang is reported as an oracle failure
    thorough_n = 600000
    trusted_base = [
        "Python's `str % mapping` modelled for the fragment %(key)s / %% only (other conversions are reported as Unsupported and not compared)",
        "int(str) modelled for ASCII digits/sign/underscores/whitespace (no Unicode digits, no 4300-digit limit)",
        "gettext .mo loading is external: the model uses the .po text; the extractor checks .mo == .po with the real gettext module on every run",
        "translators are harness-supplied text->text functions (non-text values pass through, as GNUTranslations.gettext does)",
        "attribute lookup on real objects (instance over class attributes) is Python's; the model is told the resolved attributes of the case",
    ]
    assumptions = [
        "float / Decimal / Fraction values (1.5, 1.0, inf, nan, Decimal('1.7'), Fraction(3,2) …) as counts are generated but oracle-only (tag oracle-only / exotic-number): the Lean `Val` has none; the reference computes the expected form — plural unless the count == 1",
        "cases whose template uses a `%` conversion outside %(key)s / %% are oracle-only too and are not counted as validated traces",
        "with a user-supplied ungettext the choice of the plural form is delegated to it (documented); 'singular iff count = 1' is checked without an ungettext and against the shipped catalogues' own msgstr[0|1] (KF-C16-c for fr)",
        "spec B resolves instance-over-class attributes per element along the ancestry (Python attribute lookup); the docstring of find_transformer lists 'element or parents' before 'their schemas' — the property text (nearest ancestor) is what B states",
        "keys used in templates are drawn from a pool that avoids attributes the harness does not describe (dunder attributes of dict/list targets, Element API names other than label/name/value/u); the public methods of the keyword dict and of dict/list states are modelled",
        "`.value`/`.u` of container elements are kept out of generated templates",
    ]
    level_text = "proof"
    level_note = ("proved for all inputs on model A: source priority (partial: KF-C16-a), plural choice, translator search (full) and "
                  "application, refinement of expand_message to the documented expansion, total expansion; the catalogue/template theorems are "
                  "instantiated by `decide` on tables regenerated from /repo on every run.  The tie model<->code is differential (correspondence).")
    technique = "Lean 4 model + theorems; regenerated tables (translator route) + differential correspondence + Python oracle with real gettext"
    rule = ("synthetic validators: each of 8 keys defined by a random subset of the five documented sources with distinct values; plain and plural "
            "messages with counts from {0,1,2,5,-1,'1',' 1 ','+1','01','1_0',True,False,None,100,non-numbers}; translators (tagging, table, None) "
            "and the shipped catalogues' gettext/ngettext placed on state attr/item, element instance/class, up to 3 ancestors, builtins; hostile stream: malformed templates, list state, "
            "Mapping element with children named like keys, keys that are names of dict/list methods, non-numeric counts, unsupported conversions.  Exhaustive: all 2^5 definedness "
            "patterns x {fresh key, label} x {no translator, builtins translator}.  Built-in stream: every failing built-in validator scenario x "
            "{source,de,es,fr} x translator placement.  non-trivial = an expansion was produced and the message uses at least one key")
    exhaustive_note = ("all 2^5 patterns of which documented source defines the key, for a fresh key and for `label`, with and without a builtins "
                       "translator; one failing scenario per built-in message attribute (singular and plural counts for the triples) x "
                       "{source,de,es,fr} x translator placement {state item, root element} (thorough: all five placements) x with/without ungettext")

    def corpus(self):
        out = []
        # KF-C16-a: Dict element with a child called `label`
        c = base_case()
        c["chain"][0] = {"kind": "dict", "attrs": [["name", "d"], ["label", "d"]], "items": [["label", {"elem": "child"}]]}
        out.append(c)
        # fixed 3d5403b (D-C16-1): list state
        c = base_case()
        c["state"] = {"kind": "seq", "items": [], "attrs": []}
        out.append(c)
        c = copy.deepcopy(c)
        c["chain"][0]["u_inst"] = {"v": {"tag": "E", "tbl": []}}
        out.append(c)
        # fixed b2dcb3b (old KF-C16-b): count text that is not a number -> plural form
        c = base_case()
        c["msg"] = {"t": "plural", "s": "one", "p": "many %(cnt)s", "n": "cnt"}
        c["kwargs"] = [["cnt", "abc"]]
        out.append(c)
        c = copy.deepcopy(c)
        c["state"] = {"kind": "dict", "items": [], "attrs": [], "n_item": {"v": {"tag": "N", "rule": "ne1"}}}
        out.append(c)
        # open KF-C16-d: a validator attribute called `items` is shadowed by the keyword dict's own method
        c = base_case()
        c["msg"] = {"t": "plain", "s": "%(items)s"}
        c["vattrs"] = [["items", "VALIDATOR-ATTR"]]
        out.append(c)
        # …and is fine when the keywords define it
        c = copy.deepcopy(c)
        c["kwargs"] = [["items", "kw"]]
        out.append(c)
        # audit rev3a C16-2: a Mapping element in the KF-C16-a class whose message also uses a key that keywords and
        # state both define — only the child substitution may be filed under KF-C16-a
        c = base_case()
        c["chain"][0] = {"kind": "dict", "attrs": [["name", "d"], ["label", "d"]], "items": [["label", {"elem": "child"}]]}
        c["msg"] = {"t": "plain", "s": "%(label)s %(k1)s"}
        c["kwargs"] = [["k1", "kw-k1"]]
        c["state"] = {"kind": "dict", "items": [["k1", "si-k1"]], "attrs": []}
        out.append(c)
        # open KF-C16-e (was KF-C16-b, residual): a count that is not a number handed to real gettext's ngettext
        for cnt in ("abc", None, {"float": "inf"}, {"float": "nan"}):
            c = base_case()
            c["msg"] = {"t": "plural", "s": "one", "p": "many %(cnt)s", "n": "cnt"}
            c["kwargs"] = [["cnt", cnt]]
            c["state"] = {"kind": "dict", "items": [], "attrs": [], "n_item": {"v": {"locale": "de"}}}
            out.append(c)
        # fixed 19f266a: non-integral counts choose the plural form, 1.0 / Decimal('1') the singular one
        for cnt in ({"float": "1.5"}, {"float": "1.0"}, {"decimal": "1.7"}, {"decimal": "1"}, {"fraction": "3/2"}, {"float": "inf"}):
            c = base_case()
            c["msg"] = {"t": "plural", "s": "one", "p": "many %(cnt)s", "n": "cnt"}
            c["kwargs"] = [["cnt", cnt]]
            out.append(c)
        # 5f613f8 / audit rev6 C16-F1: a Mapping element with a child named like a key, under a shipped locale —
        # the child element is unhashable and passes untranslated (KF-C16-a still substitutes it)
        c = base_case()
        c["chain"][0] = {"kind": "dict", "attrs": [["name", "d"], ["label", "d"]], "items": [["label", {"elem": "child"}], ["x", {"elem": ""}]]}
        c["msg"] = {"t": "plain", "s": "%(label)s may not contain %(k1)s"}
        c["kwargs"] = [["k1", "z"]]
        c["state"] = {"kind": "dict", "items": [], "attrs": [], "u_item": {"v": {"locale": "fr"}}, "n_item": {"v": {"locale": "fr"}}}
        out.append(c)
        # open KF-C16-c: French catalogue, count 0
        from harness.props import c15
        for label, cc in builtin_scenarios():
            if label in ("HasAtMost.failure/zero", "HasBetween.exact/zero"):
                out.append({"k": "builtin", "c15": c15.finish(copy.deepcopy(cc)), "lang": "fr", "place": "state-dict",
                            "with_n": True, "label": label})
        return out

    def exhaustive(self, tier):
        # all 2^5 definedness patterns, for a plain key, for `label` (element attribute always defined) and
        # under each state shape that can carry the pattern
        for key in ("k1", "label"):
            for pattern in itertools.product((False, True), repeat=5):
                if key == "label":
                    if not pattern[4]:
                        continue
                    c = priority_case(key, pattern[:4] + (False,))
                else:
                    c = priority_case(key, pattern)
                yield c
                if tier == "thorough" or key == "k1":
                    c2 = copy.deepcopy(c)
                    c2["builtins"] = {"u": _slot({"tag": "B", "tbl": []})}
                    yield c2
        yield from self._builtin_exhaustive(tier)

    def _builtin_exhaustive(self, tier):
        from harness.props import c15
        places = PLACES if tier == "thorough" else ["state-dict", "root"]
        for label, c in builtin_scenarios():
            fin = c15.finish(copy.deepcopy(c))
            for lang in [None] + LANGS:
                for place in places:
                    for with_n in ((True, False) if lang else (True,)):
                        yield {"k": "builtin", "c15": fin, "lang": lang, "place": place, "with_n": with_n, "label": label}

    def generate(self, rng, n, tier):
        for i in range(n):
            r = rng.random()
            if r < 0.12:
                yield hostile_syn(rng)
            elif r < 0.65:
                yield rand_syn(rng)
            else:
                yield rand_builtin(rng)

    def has_model(self, case):
        if case["k"] == "builtin":
            from harness.props import c15
            return c15.PROP.has_model(case["c15"])
        if _has_exotic_number(case):
            return False  # float / Decimal / Fraction values: the Lean `Val` has none — oracle only
        m = case["msg"]
        if any(scan_class(m[f]) == "unsupported" for f in ("s", "p") if f in m):
            return False  # `%` conversions outside %(key)s / %%: not modelled, so not counted as validated traces
        return True

    def run_impl(self, case):
        if case["k"] == "syn":
            return run_syn(case)
        if case["k"] == "builtin":
            return run_builtin(case)[0]
        raise ValueError(case["k"])

    def compare(self, impl_obs, model_obs):
        if isinstance(model_obs, dict) and model_obs.get("raise") == "Unsupported":
            return None  # outside the modelled `%` fragment (recorded in the evidence tags)
        return Property.compare(self, impl_obs, model_obs)

    def oracle(self, case):
        if case["k"] == "syn":
            return oracle_syn(case)
        if case["k"] == "builtin":
            return oracle_builtin(case)
        return []

    def classify(self, case, failure):
        """A failure belongs to an open finding only if the OBSERVED text is exactly what that finding predicts;
        an exception is never filed under a lookup finding."""
        cl = failure.get("clause")
        if case.get("k") == "syn" and cl in ("documented-expansion", "note_error-records-once"):
            pred = predicted_by_findings(case)
            if pred is not None:
                fid, text = pred
                want = text if cl == "documented-expansion" else expected_errors(case, text)
                if isinstance(text, str) and text != MALFORMED and failure.get("observed") == want:
                    return fid
        if case.get("k") == "syn" and cl == "expands-without-error" and failure.get("observed") == "ValueError" \
                and failure.get("_exc_file") == "base.py" and (failure.get("_exc_msg") or "").startswith("incomplete format"):
            # the only exception a lookup finding can predict: the shadowing value changes the count of a plural
            # triple, and the form selected instead is a malformed template
            pred = predicted_by_findings(case)
            if pred is not None and isinstance(pred[1], tuple) and pred[1][0] == "ValueError" \
                    and failure.get("_exc_msg") == pred[1][1]:
                return pred[0]
        if case.get("k") == "syn" and cl == "expands-without-error" and failure.get("observed") == "KeyError" \
                and failure.get("_exc_file") == "base.py":
            # likewise: the form selected instead uses a key that no source defines
            pred = predicted_by_findings(case)
            if pred is not None and pred[1] == ("KeyError", failure.get("_exc_msg")):
                return pred[0]
        if in_class_kf_e(case) and cl == "expands-without-error" and kf_e_exception_matches(failure):
            return "KF-C16-e"
        if in_class_kf_c(case) and cl == "singular-iff-count-is-one" and \
                failure.get("observed") == failure.get("_ngettext_choice"):
            return "KF-C16-c"
        return None

    def nontrivial(self, case, obs):
        if case["k"] == "syn":
            return obs.get("result") is not None and bool(used_keys(case))
        return obs.get("verdict") is False and len(obs.get("errors", [])) > len(case["c15"].get("pre_errors", []))

    def tags(self, case, obs):
        t = ["kind=" + case["k"]]
        if case["k"] == "syn":
            t.append("msg=" + case["msg"]["t"])
            t.append("raise=%s" % obs.get("raise"))
            st = case.get("state")
            t.append("state=%s" % (st["kind"] if st else "None"))
            t.append("chain=%d" % len(case["chain"]))
            t.append("elem=" + case["chain"][0]["kind"])
            for p_ in case["chain"][1:]:
                t.append("ancestor=" + (p_.get("impl") or p_["kind"]))
            srcs = doc_sources(case)
            for k in used_keys(case):
                pat = "".join("1" if k in s else "0" for s in srcs)
                t.append("defined-by=%d-sources" % pat.count("1"))
            u = doc_translator(case, "u")
            n = doc_translator(case, "n")
            t.append("ugettext=%s" % ("yes" if u else "no"))
            if case["msg"]["t"] == "plural":
                t.append("ungettext=%s" % ("yes" if n else "no"))
            if case.get("pre_errors"):
                t.append("pre-errors")
            # how often the hypotheses of the theorems hold
            in_a, in_d = in_class_kf_a(case), in_class_kf_d(case)
            keys_in_scope = not in_a and not in_d
            t.append("hyp:priority_partial/KeyInScope=%s" % ("holds" if keys_in_scope else "fails"))
            if st is None or st["kind"] != "seq":
                t.append("hyp:findTransformer_eq_spec(by construction)=holds")
            if case["msg"]["t"] == "plain":
                if keys_in_scope and self.has_model(case):
                    t.append("hyp:expand_plain_refines=holds")
            else:
                if n is None:
                    t.append("hyp:plural_choice(no ungettext)=holds")
                    if keys_in_scope and self.has_model(case):
                        t.append("hyp:expand_plural_refines=holds")
                else:
                    t.append("hyp:ungettext_receives_count=holds")
            if obs.get("raise") is None and obs.get("result") is not None:
                t.append("hyp:expandMessage_ok_expansion=holds")
            if not self.has_model(case):
                t.append("oracle-only")
            if _has_exotic_number(case):
                t.append("exotic-number")
        else:
            loc = case.get("lang")
            if loc and obs.get("verdict") is False:
                t.append("hyp:catalogue_expand_total=holds")
            t.append("lang=%s" % case.get("lang"))
            t.append("place=" + case["place"])
            t.append("builtin=" + case["c15"]["v"]["cls"])
            if case.get("label"):
                t.append("message=" + case["label"])
            t.append("builtin-outcome=%s" % (obs.get("raise") or obs.get("verdict")))
            t.append("ungettext=%s" % ("yes" if case.get("lang") and case.get("with_n", True) else "no"))
        return sorted(set(t))

    def shrink_candidates(self, case):
        if case["k"] == "builtin":
            from harness.props import c15
            for c in c15.PROP.shrink_candidates(case["c15"]):
                d = copy.deepcopy(case)
                d["c15"] = c
                yield d
            if case.get("lang") and case.get("with_n", True):
                d = copy.deepcopy(case)
                d["with_n"] = False
                yield d
            if case["place"] != "state-dict":
                d = copy.deepcopy(case)
                d["place"] = "state-dict"
                yield d
            return
        for key in ("kwargs", "vattrs", "pre_errors"):
            for i in range(len(case.get(key, []))):
                c = copy.deepcopy(case)
                del c[key][i]
                yield c
        if case.get("state") is not None:
            c = copy.deepcopy(case)
            c["state"] = None
            yield c
            for key in ("items", "attrs"):
                for i in range(len(case["state"].get(key, []))):
                    c = copy.deepcopy(case)
                    del c["state"][key][i]
                    yield c
            for key in ("u_attr", "u_item", "n_attr", "n_item"):
                if key in case["state"]:
                    c = copy.deepcopy(case)
                    del c["state"][key]
                    yield c
        if len(case["chain"]) > 1:
            c = copy.deepcopy(case)
            c["chain"].pop()
            yield c
        for i, e in enumerate(case["chain"]):
            for key in ("u_inst", "u_cls", "n_inst", "n_cls"):
                if key in e:
                    c = copy.deepcopy(case)
                    del c["chain"][i][key]
                    yield c
            for j, a in enumerate(e.get("attrs", [])):
                if a[0] in ("name", "label", "u", "value"):
                    continue
                c = copy.deepcopy(case)
                del c["chain"][i]["attrs"][j]
                yield c
        if case.get("builtins"):
            c = copy.deepcopy(case)
            c["builtins"] = {}
            yield c
        if case.get("callable"):
            c = copy.deepcopy(case)
            c["callable"] = False
            yield c
        m = case["msg"]
        if m["t"] == "plural":
            for form in ("s", "p"):
                c = copy.deepcopy(case)
                c["msg"] = {"t": "plain", "s": m[form]}
                yield c
        for form in ("s", "p"):
            s = m.get(form)
            if s and len(s) > 1:
                for cut in (s[: len(s) // 2], s[len(s) // 2:], s[1:], s[:-1]):
                    c = copy.deepcopy(case)
                    c["msg"][form] = cut
                    yield c


PROP = C16()
