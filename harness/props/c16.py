"""C16 — validation messages expand completely under every lookup source and locale.

Case kinds
  syn      a synthetic validator / state / element chain: which of the five documented sources define
           which key (distinct values), plural triples with a count, translator placements
           (state attr, state item, element instance/class, each ancestor, builtins)
  builtin  a real built-in validator made to fail (scenario shared with C15) under
           {source, de, es, fr} with the real gettext catalogues placed on state / element / root
"""
import builtins
import copy
import gettext
import itertools
import os
import re
import types

from harness.core import Property, REPO

LANGS = ["de", "es", "fr"]
KEYS = ["label", "name", "value", "u", "k1", "k2", "k3", "cnt"]
SOURCES = ["kwargs", "sitem", "sattr", "vattr", "eattr"]

_TRANS = {}


def translation(lang):
    if lang not in _TRANS:
        _TRANS[lang] = gettext.translation(
            "flatland", localedir=os.path.join(REPO, "src", "flatland", "i18n"), languages=[lang])
    return _TRANS[lang]


# ------------------------------------------------------------------ building the real objects


def mk_u(desc):
    if desc is None:
        return None
    if "locale" in desc:
        return translation(desc["locale"]).gettext
    tag = desc.get("tag")
    tbl = {a: b for a, b in desc.get("tbl", [])}

    def ugettext(x):
        if not isinstance(x, str):
            return x
        if x in tbl:
            return tbl[x]
        return "%s:%s" % (tag, x) if tag is not None else x
    return ugettext


def mk_n(desc):
    if desc is None:
        return None
    if "locale" in desc:
        return translation(desc["locale"]).ngettext
    tag = desc.get("tag")
    rule = desc["rule"]

    def ungettext(s, p, n):
        if isinstance(n, int) and not isinstance(n, bool):
            sing = (n <= 1) if rule == "gt1" else (n == 1)
        else:
            sing = False
        chosen = s if sing else p
        return "%s:%s" % (tag, chosen) if tag is not None else chosen
    return ungettext


def _slot_present(slot):
    return isinstance(slot, dict)


class _ObjDict:
    """state with attributes *and* [index] access (KeyError on a miss)"""

    def __init__(self, items):
        self._items = items

    def __getitem__(self, k):
        return self._items[k]


class _Obj:
    pass


def _val(v):
    """case value -> python value (element-valued items never occur outside element items)"""
    return v


def mk_state(st):
    if st is None:
        return None
    kind = st["kind"]
    items = {k: _val(v) for k, v in st.get("items", [])}
    attrs = {k: _val(v) for k, v in st.get("attrs", [])}
    if kind == "seq":
        return ["x"]
    if kind == "dict":
        obj = dict(items)
    elif kind == "objdict":
        obj = _ObjDict(dict(items))
    else:
        obj = _Obj()
    if kind in ("obj", "objdict"):
        for k, v in attrs.items():
            setattr(obj, k, v)
        if _slot_present(st.get("u_attr")):
            obj.ugettext = mk_u(st["u_attr"]["v"])
        if _slot_present(st.get("n_attr")):
            obj.ungettext = mk_n(st["n_attr"]["v"])
    if kind in ("dict", "objdict"):
        tgt = obj if kind == "dict" else obj._items
        if _slot_present(st.get("u_item")):
            tgt["ugettext"] = mk_u(st["u_item"]["v"])
        if _slot_present(st.get("n_item")):
            tgt["ungettext"] = mk_n(st["n_item"]["v"])
    return obj


def _attrs(e):
    return {k: v for k, v in e.get("attrs", [])}


def mk_chain(chain):
    """Build the real element tree for chain[0] (the element) … chain[-1] (the root).
    Returns the element."""
    import flatland

    def cls_kw(e):
        kw = {}
        if e.get("u_cls") is not None:
            kw["ugettext"] = mk_u(e["u_cls"])
        if e.get("n_cls") is not None:
            kw["ungettext"] = mk_n(e["n_cls"])
        a = _attrs(e)
        if "label" in a and a["label"] != a.get("name"):
            kw["label"] = a["label"]
        return kw

    e0 = chain[0]
    a0 = _attrs(e0)
    if e0["kind"] == "scalar":
        schema = flatland.String
    elif e0["kind"] == "dict":
        schema = flatland.Dict.of(*[flatland.String.named(k) for k, _ in e0.get("items", [])])
    else:
        schema = flatland.List.of(flatland.String)
    schema = schema.named(a0.get("name")).using(**cls_kw(e0))
    # parents
    for i in range(1, len(chain)):
        p = chain[i]
        pa = _attrs(p)
        if p["kind"] == "dict":
            schema = flatland.Dict.of(schema)
        else:
            schema = flatland.List.of(schema)
        schema = schema.named(pa.get("name")).using(**cls_kw(p))
    root = schema()
    # instantiate downwards
    els = [None] * len(chain)
    cur = root
    for i in range(len(chain) - 1, -1, -1):
        els[i] = cur
        if i == 0:
            break
        p = chain[i]
        if p["kind"] == "dict":
            cur = cur[_attrs(chain[i - 1]).get("name")]
        else:
            cur.append(None)
            cur = cur[0]
    el = els[0]
    if e0["kind"] == "scalar":
        if a0.get("u") is not None:
            el.set(a0["u"])
    elif e0["kind"] == "dict":
        el.set({k: v["elem"] for k, v in e0.get("items", [])})
    else:
        el.set(["m"])
    for i, e in enumerate(chain):
        if _slot_present(e.get("u_inst")):
            els[i].ugettext = mk_u(e["u_inst"]["v"])
        if _slot_present(e.get("n_inst")):
            els[i].ungettext = mk_n(e["n_inst"]["v"])
        for k, v in _attrs(e).items():
            if k in ("name", "label", "value", "u"):
                continue
            setattr(els[i], k, v)
    return el


def mk_validator(case):
    from flatland.validation import Validator
    m = case["msg"]
    msg = m["s"] if m["t"] == "plain" else (m["s"], m["p"], m["n"])
    attrs = {k: v for k, v in case.get("vattrs", [])}
    if case.get("callable"):
        the = msg
        attrs["m_"] = staticmethod(lambda element, state: the)
    else:
        attrs["m_"] = msg
    cls = type("SynValidator", (Validator,), attrs)
    return cls()


class _Builtins:
    def __init__(self, b):
        self.b = b or {}
        self.saved = {}

    def __enter__(self):
        for name, key, mk in (("ugettext", "u", mk_u), ("ungettext", "n", mk_n)):
            self.saved[name] = getattr(builtins, name, _Builtins)
            if _slot_present(self.b.get(key)):
                setattr(builtins, name, mk(self.b[key]["v"]))
            elif hasattr(builtins, name):
                delattr(builtins, name)
        return self

    def __exit__(self, *a):
        for name, old in self.saved.items():
            if old is _Builtins:
                if hasattr(builtins, name):
                    delattr(builtins, name)
            else:
                setattr(builtins, name, old)


def run_syn(case):
    el = mk_chain(case["chain"])
    a0 = _attrs(case["chain"][0])
    # the harness' claim about the element attributes must hold on the real element
    for k, v in a0.items():
        got = getattr(el, k)
        if case["chain"][0]["kind"] != "scalar" and k in ("value", "u"):
            continue
        assert got == v, "harness: element attribute %s is %r, case says %r" % (k, got, v)
    state = mk_state(case.get("state"))
    v = mk_validator(case)
    kwargs = {k: val for k, val in case.get("kwargs", [])}
    el.errors[:] = list(case.get("pre_errors", []))
    out = {"raise": None, "result": None}
    with _Builtins(case.get("builtins")):
        try:
            res = v.expand_message(el, state, v.m_, **kwargs)
            out["result"] = res if isinstance(res, str) else "<%s>" % type(res).__name__
        except Exception as e:
            out["raise"] = type(e).__name__
        try:
            ret = v.note_error(el, state, "m_", **kwargs)
            out["_note_error_ret"] = ret
        except Exception as e:
            out["_note_error_raise"] = type(e).__name__
    out["errors"] = list(el.errors)
    return out


# ------------------------------------------------------------------ oracle (spec B transcribed in Python)

_PH = re.compile(r"%(?:\(([^()]*)\)s|%)")


def fragment_ok(tmpl):
    """template uses only %(key)s (no parentheses in key) and %%"""
    rest = _PH.sub("", tmpl)
    return "%" not in rest


def placeholders(tmpl):
    return [m.group(1) for m in _PH.finditer(tmpl) if m.group(1) is not None]


def doc_sources(case):
    """the five documented sources, in documented order, as dicts"""
    st = case.get("state") or {}
    kind = st.get("kind")
    sitems = {k: v for k, v in st.get("items", [])} if kind in ("dict", "objdict") else {}
    sattrs = {k: v for k, v in st.get("attrs", [])} if kind in ("obj", "objdict") else {}
    return [
        {k: v for k, v in case.get("kwargs", [])},
        sitems,
        sattrs,
        {k: v for k, v in case.get("vattrs", [])},
        _attrs(case["chain"][0]),
    ]


def doc_lookup(srcs, key):
    for s in srcs:
        if key in s:
            return True, s[key]
    return False, None


def doc_translator(case, which):
    """first of: state attribute, state item, element (instance over class), nearest ancestor, builtins"""
    st = case.get("state") or {}
    kind = st.get("kind")
    a, i = which + "_attr", which + "_item"
    if kind in ("obj", "objdict") and _slot_present(st.get(a)):
        return st[a]["v"]
    if kind in ("dict", "objdict") and _slot_present(st.get(i)):
        return st[i]["v"]
    for e in case["chain"]:
        inst = e.get(which + "_inst")
        cand = inst["v"] if _slot_present(inst) else e.get(which + "_cls")
        if cand is not None:
            return cand
    b = (case.get("builtins") or {}).get(which)
    if _slot_present(b):
        return b["v"]
    return None


def _count_number(v):
    """the number a count stands for, or None"""
    if isinstance(v, bool):
        return int(v)
    if isinstance(v, int):
        return v
    if isinstance(v, str):
        try:
            return int(v)
        except ValueError:
            return None
    return None


NORAISE = "<some expansion, no exception>"


def expected_syn(case):
    """(expected text | None when outside the documented domain, reason)"""
    m = case["msg"]
    srcs = doc_sources(case)
    u = mk_u(doc_translator(case, "u"))
    tr = (lambda x: u(x)) if u else (lambda x: x)
    if m["t"] == "plain":
        tmpl = tr(m["s"])
    else:
        found, n = doc_lookup(srcs, m["n"])
        n = tr(n) if found else None
        num = _count_number(n)
        ndesc = doc_translator(case, "n")
        if ndesc is not None:
            ng = mk_n(ndesc)
            if num is None and "locale" in ndesc:
                # the count is handed to gettext's ngettext, which accepts numbers only: the documentation still
                # promises an expansion (the plural form); which text exactly is gettext's business
                return NORAISE, "gettext's ngettext needs a number"
            tmpl = ng(m["s"], m["p"], num if num is not None else n)
        else:
            tmpl = tr(m["s"]) if num == 1 else tr(m["p"])
    if not isinstance(tmpl, str) or not fragment_ok(tmpl):
        return None, "template outside the %(key)s fragment"
    out = []
    pos = 0
    for mt in _PH.finditer(tmpl):
        out.append(tmpl[pos:mt.start()])
        pos = mt.end()
        if mt.group(1) is None:
            out.append("%")
            continue
        found, v = doc_lookup(srcs, mt.group(1))
        if not found:
            return None, "key %r is not defined by any source" % mt.group(1)
        out.append(str(tr(v)))
    out.append(tmpl[pos:])
    return "".join(out), None


def oracle_syn(case):
    obs = run_syn(case)
    fails = []
    exp, why = expected_syn(case)
    if exp is None:
        return fails  # outside the documented domain: nothing is promised
    if obs["raise"] is not None:
        fails.append({"clause": "expands-without-error", "expected": exp, "observed": obs["raise"]})
        return fails
    if exp == NORAISE:
        return fails
    if obs["result"] != exp:
        fails.append({"clause": "documented-expansion", "expected": exp, "observed": obs["result"]})
    # leftover placeholders: only meaningful when no substituted value / literal carries a '%'
    vals = [str(v) for s in doc_sources(case) for v in s.values()]
    if "%(" in (obs["result"] or "") and not any("%" in v for v in vals) and "%%" not in exp_template_text(case):
        fails.append({"clause": "no-leftover-placeholder", "expected": "no %( in result", "observed": obs["result"]})
    pre = list(case.get("pre_errors", []))
    m = case["msg"]
    empty = m["t"] == "plain" and m["s"] == "" and not case.get("callable")
    want = pre if (empty or exp in pre) else pre + [exp]
    if obs["errors"] != want:
        fails.append({"clause": "note_error-records-once", "expected": want, "observed": obs["errors"]})
    if obs.get("_note_error_ret") is not False:
        fails.append({"clause": "note_error-returns-False", "expected": False, "observed": repr(obs.get("_note_error_ret"))})
    return fails


def exp_template_text(case):
    m = case["msg"]
    return m["s"] + (m.get("p") or "")


# ------------------------------------------------------------------ built-in validators under the shipped locales

PLACES = ["state-dict", "state-obj", "element", "root", "builtins"]


def _builtin_objects(case):
    """(element, validator, state, the two translator callables or None)"""
    from harness.props import c15
    from flatland.schema.base import Slot
    el = c15.build(case["c15"])
    v = c15.mk_validator(case["c15"]["v"])
    lang = case.get("lang")
    g = translation(lang).gettext if lang else None
    n = translation(lang).ngettext if (lang and case.get("with_n", True)) else None
    place = case["place"]
    state = None
    if place == "state-dict":
        state = {}
        if g:
            state["ugettext"] = g
        if n:
            state["ungettext"] = n
    elif place == "state-obj":
        state = _Obj()
        if g:
            state.ugettext = g
        if n:
            state.ungettext = n
    elif place in ("element", "root"):
        tgt = el
        if place == "root":
            tgt = el.root
        if g:
            tgt.ugettext = g
        if n:
            tgt.ungettext = n
    return el, v, state, g, n


def _root_is_other(case):
    """does the element have a parent (so that `root` differs from `element`)?"""
    return "index" in case["c15"]["build"]


def run_builtin(case):
    from harness.props import c15
    el, v, state, g, n = _builtin_objects(case)
    view = c15.view_of(case["c15"], el)
    assert view == case["c15"]["view"], "harness: element view differs from the case"
    el.errors[:] = list(case["c15"].get("pre_errors", []))
    b = {}
    if case["place"] == "builtins":
        lang = case.get("lang")
        if lang:
            b["u"] = {"v": {"locale": lang}}
            if case.get("with_n", True):
                b["n"] = {"v": {"locale": lang}}
    out = {"raise": None, "verdict": None}
    with _Builtins(b):
        try:
            ret = v(el, state)
            out["verdict"] = ret if isinstance(ret, bool) else "<%s>" % type(ret).__name__
        except Exception as e:
            out["raise"] = type(e).__name__
    out["errors"] = list(el.errors)
    return out, el, v, g, n


def oracle_builtin(case):
    """the message a failing built-in validator must record under the locale: the catalogue's translation of
    the documented form (real gettext on the shipped .mo), every value passed through gettext, fully expanded"""
    from harness.props import c15
    obs, el, v, g, n = run_builtin(case)
    fails = []
    want, msg = c15.documented(case["c15"], el)
    if want is None or want == "no-raise":
        return fails
    if obs["raise"] is not None:
        base = dict(case)
        base["lang"] = None
        if run_builtin(base)[0]["raise"] is not None:
            return fails  # the validator raises without any translator: C15's business
        fails.append({"clause": "expands-without-error", "expected": want, "observed": obs["raise"]})
        return fails
    if obs["verdict"] is not want:
        return fails  # C15's business
    pre = list(case["c15"].get("pre_errors", []))
    if want is True or msg is None:
        return fails
    key, extra = msg
    tmpl = getattr(v, key)
    tr = g if g else (lambda x: x)

    def val(k):
        if k in extra:
            return extra[k]
        if hasattr(v, k):
            return getattr(v, k)
        return getattr(el, k)
    if isinstance(tmpl, tuple):
        single, plural, nkey = tmpl
        cnt = tr(val(nkey))
        try:
            cnt = int(cnt)
        except (TypeError, ValueError):
            pass
        if n:
            tmpl = n(single, plural, cnt)
        else:
            tmpl = tr(single) if cnt == 1 else tr(plural)
    else:
        tmpl = tr(tmpl)

    class M(dict):
        def __missing__(self, k):
            return tr(val(k))
    text = tmpl % M()
    exp = pre if text in pre else pre + [text]
    if obs["errors"] != exp:
        fails.append({"clause": "translated-expansion", "expected": exp, "observed": obs["errors"]})
    for m in obs["errors"][len(pre):]:
        if "%(" in m and "%(" not in "".join(str(val(k)) for k in placeholders(tmpl)):
            fails.append({"clause": "no-leftover-placeholder", "expected": "no %( left", "observed": m})
    return fails


def builtin_scenarios():
    """one failing scenario per built-in message attribute (singular and plural counts where it is a triple):
    (label, unfinished C15 case)"""
    S, I, B = "String", "Integer", "Boolean"
    sc = lambda kind, val, name="fld": {"kind": kind, "name": name, "set": val}
    lst = lambda n, kind="List": {"kind": kind, "name": "wishes", "member": S, "member_name": "wish", "values": ["w"] * n}
    dct = lambda raw: {"kind": "Dict", "name": "frm", "fields": ["a", "b"], "raw": raw}
    two = lambda a, b: {"kind": "fields", "name": "frm", "fields": [{"name": "x", "type": S, "set": a}, {"name": "y", "type": S, "set": b}]}
    out = [
        ("Converted.incorrect", {"cls": "Converted"}, sc(I, "abc")),
        ("Present.missing", {"cls": "Present"}, sc(S, "")),
        ("IsTrue.false", {"cls": "IsTrue"}, sc(B, False)),
        ("IsFalse.true", {"cls": "IsFalse"}, sc(B, True)),
        ("ValueIn.fail", {"cls": "ValueIn", "valid_options": ["a", "b"]}, sc(S, "z")),
        ("ValueIn.fail/empty-value", {"cls": "ValueIn", "valid_options": ["a"]}, sc(S, "")),
        ("ValueIn.fail/None", {"cls": "ValueIn", "valid_options": [1]}, sc(I, "q")),
        ("ShorterThan.exceeded", {"cls": "ShorterThan", "maxlength": 2}, sc(S, "abc")),
        ("LongerThan.short", {"cls": "LongerThan", "minlength": 5}, sc(S, "abc")),
        ("LengthBetween.breached", {"cls": "LengthBetween", "minlength": 4, "maxlength": 8}, sc(S, "abc")),
        ("ValueLessThan.failure", {"cls": "ValueLessThan", "boundary": 4}, sc(I, 4)),
        ("ValueAtMost.failure", {"cls": "ValueAtMost", "maximum": 3}, sc(I, 4)),
        ("ValueGreaterThan.failure", {"cls": "ValueGreaterThan", "boundary": 4}, sc(I, 4)),
        ("ValueAtLeast.failure", {"cls": "ValueAtLeast", "minimum": 5}, sc(I, None)),
        ("ValueBetween.failure_inclusive", {"cls": "ValueBetween", "minimum": 1, "maximum": 3, "inclusive": True}, sc(I, 9)),
        ("ValueBetween.failure_exclusive", {"cls": "ValueBetween", "minimum": 1, "maximum": 3, "inclusive": False}, sc(I, 3)),
        ("MapEqual.unequal", {"cls": "MapEqual", "field_paths": ["x", "y"]}, two("p", "q")),
        ("ValuesEqual.unequal", {"cls": "ValuesEqual", "field_paths": ["x", "y"]}, two("p", "q")),
        ("UnisEqual.unequal", {"cls": "UnisEqual", "field_paths": ["x", "y"]}, two("p", "q")),
        ("NotDuplicated.failure", {"cls": "NotDuplicated"}, dict(lst(3), index=2)),
        ("HasAtLeast.failure/singular", {"cls": "HasAtLeast", "minimum": 1}, lst(0)),
        ("HasAtLeast.failure/plural", {"cls": "HasAtLeast", "minimum": 3}, lst(1)),
        ("HasAtMost.failure/singular", {"cls": "HasAtMost", "maximum": 1}, lst(2)),
        ("HasAtMost.failure/plural", {"cls": "HasAtMost", "maximum": 2}, lst(3)),
        ("HasAtMost.failure/zero", {"cls": "HasAtMost", "maximum": 0}, lst(1)),
        ("HasBetween.exact/singular", {"cls": "HasBetween", "minimum": 1, "maximum": 1}, lst(2)),
        ("HasBetween.exact/plural", {"cls": "HasBetween", "minimum": 2, "maximum": 2}, lst(0)),
        ("HasBetween.range/singular", {"cls": "HasBetween", "minimum": 0, "maximum": 1}, lst(3)),
        ("HasBetween.range/plural", {"cls": "HasBetween", "minimum": 1, "maximum": 3}, lst(5, "Array")),
        ("SetWithKnownFields.unexpected", {"cls": "SetWithKnownFields"}, dct({"t": "dict", "pairs": [["a", "1"], ["z", "2"], ["q", "3"]]})),
        ("SetWithAllFields.unexpected", {"cls": "SetWithAllFields"}, dct({"t": "dict", "pairs": [["a", "1"], ["b", "2"], ["z", "3"]]})),
        ("SetWithAllFields.missing", {"cls": "SetWithAllFields"}, dct({"t": "dict", "pairs": [["a", "1"]]})),
        ("SetWithAllFields.both", {"cls": "SetWithAllFields"}, dct({"t": "pairs", "pairs": [["z", "1"]]})),
        ("Luhn10.invalid", {"cls": "Luhn10"}, sc(I, 4111111111111112)),
        ("IsEmail.invalid", {"cls": "IsEmail"}, sc(S, "not-an-address")),
        ("URLValidator.bad_format", {"cls": "URLValidator"}, sc(S, None)),
        ("URLValidator.blocked_scheme", {"cls": "URLValidator", "allowed_schemes": ["https"]}, sc(S, "http://a.example/")),
        ("URLValidator.blocked_part", {"cls": "URLValidator", "allowed_parts": ["scheme", "netloc"]}, sc(S, "http://a.example/p")),
        ("HTTPURLValidator.bad_format", {"cls": "HTTPURLValidator"}, sc(S, "http://[::1")),
        ("HTTPURLValidator.required_part", {"cls": "HTTPURLValidator"}, sc(S, "ftp://a.example/")),
        ("HTTPURLValidator.forbidden_part", {"cls": "HTTPURLValidator"}, sc(S, "http://u:p@a.example/")),
        ("URLCanonicalizer.bad_format", {"cls": "URLCanonicalizer"}, sc(S, "http://[::1")),
    ]
    return [(label, {"v": v, "build": b}) for label, v, b in out]


def rand_builtin(rng, c15case=None):
    from harness.props import c15
    if c15case is None:
        for _ in range(6):
            c = c15.PROP_GEN(rng)
            try:
                el = c15.build(c)
                want, msg = c15.documented(c, el)
            except Exception:
                continue
            if want is False:
                break
        c15case = c
    place = rng.choice(PLACES)
    lang = rng.choice(LANGS + LANGS + [None])
    return {"k": "builtin", "c15": c15case, "lang": lang, "place": place, "with_n": rng.random() < 0.7}


# ------------------------------------------------------------------ known-finding class predicates


def used_keys(case):
    m = case["msg"]
    ks = set(placeholders(m["s"]))
    if m["t"] == "plural":
        ks |= set(placeholders(m["p"]))
        ks.add(m["n"])
    return ks


def in_class_kf_a(case):
    """Mapping element whose child is called like a key the message uses, and no earlier source
    (keywords, state, validator) defines that key"""
    if case.get("k") != "syn":
        return False
    e0 = case["chain"][0]
    if e0["kind"] != "dict":
        return False
    items = {k for k, _ in e0.get("items", [])}
    srcs = doc_sources(case)[:4]
    return any(k in items and not any(k in s for s in srcs) for k in used_keys(case))


def in_class_kf_b(case):
    """plural triple handed to a gettext-backed ungettext (GNUTranslations.ngettext) with a count that is not a
    number: non-integer text, None, or a count key no source defines"""
    if case.get("k") != "syn" or case["msg"]["t"] != "plural":
        return False
    ndesc = doc_translator(case, "n")
    if not (isinstance(ndesc, dict) and "locale" in ndesc):
        return False
    found, n = doc_lookup(doc_sources(case), case["msg"]["n"])
    if not found:
        return True
    u = mk_u(doc_translator(case, "u"))
    if u:
        n = u(n)
    return _count_number(n) is None


# ------------------------------------------------------------------ generators


def _slot(v):
    return {"v": v}


def base_case():
    return {"k": "syn", "msg": {"t": "plain", "s": "%(label)s!"}, "callable": False, "kwargs": [],
            "state": None, "vattrs": [], "builtins": {},
            "chain": [{"kind": "scalar", "attrs": [["name", "el"], ["label", "el"], ["u", "txt"], ["value", "txt"]]}],
            "pre_errors": []}


def priority_case(key, pattern, state_kind="objdict", extra=None):
    """pattern: 5 booleans, which of (kwargs, state item, state attr, validator attr, element attr) define key"""
    c = base_case()
    c["msg"] = {"t": "plain", "s": "<%%(%s)s>" % key}
    vals = ["kw-" + key, "si-" + key, "sa-" + key, "va-" + key, "ea-" + key]
    if pattern[0]:
        c["kwargs"].append([key, vals[0]])
    if pattern[1] or pattern[2]:
        c["state"] = {"kind": state_kind, "items": [], "attrs": []}
        if pattern[1]:
            c["state"]["items"].append([key, vals[1]])
        if pattern[2]:
            c["state"]["attrs"].append([key, vals[2]])
    if pattern[3]:
        c["vattrs"].append([key, vals[3]])
    if pattern[4]:
        c["chain"][0]["attrs"].append([key, vals[4]])
    if extra:
        c.update(extra)
    return c


COUNTS = [0, 1, 2, 5, -1, "1", " 1 ", "+1", "01", "1_0", "2", True, False, None, 100]
BAD_COUNTS = ["abc", "", "1.0", "1 0", "_1", "1_"]


def rand_tr(rng, tag):
    r = rng.random()
    if r < 0.08:
        return {"locale": rng.choice(LANGS)}
    r = rng.random()
    if r < 0.5:
        return {"tag": tag, "tbl": []}
    if r < 0.8:
        return {"tag": None, "tbl": [["%(label)s!", "¡%(label)s!"], ["el", "EL"], ["one %(k1)s", "uno %(k1)s"],
                                     ["many %(k1)s %(cnt)s", "muchos %(k1)s %(cnt)s"]]}
    return {"tag": tag, "tbl": [["el", "EL"], ["txt", "TXT"]]}


def rand_ntr(rng, tag):
    if rng.random() < 0.12:
        return {"locale": rng.choice(LANGS)}
    return {"tag": tag if rng.random() < 0.8 else None, "rule": rng.choice(["ne1", "ne1", "gt1"])}


def rand_value(rng, key, src):
    r = rng.random()
    if key == "cnt":
        return rng.choice(COUNTS)
    if r < 0.7:
        return "%s-%s" % (src, key)
    if r < 0.8:
        return rng.choice([0, 1, 7, -3, 12345678901234567890])
    if r < 0.85:
        return rng.choice([True, False])
    if r < 0.9:
        return None
    return rng.choice(["", "ü-ñ", "a b", "100%", "x(y)", "日本"])


def rand_template(rng, keys):
    parts = []
    for _ in range(rng.randint(1, 4)):
        r = rng.random()
        if r < 0.55:
            parts.append("%%(%s)s" % rng.choice(keys))
        elif r < 0.65:
            parts.append("%%")
        else:
            parts.append(rng.choice(["", " ", "x", " is ", "é", "(", ")", "s", "must ", "."]))
    return "".join(parts)


def rand_syn(rng):
    c = base_case()
    keys = list(KEYS)
    # element
    r = rng.random()
    e0 = c["chain"][0]
    name = rng.choice(["el", "fld", "x", "名"])
    label = name if rng.random() < 0.6 else rng.choice(["Label", "the field", name.upper()])
    u = rng.choice(["txt", "", "42", "é"])
    e0["attrs"] = [["name", name], ["label", label], ["u", u], ["value", u]]
    if r < 0.08:
        e0["kind"] = "list"
        e0["attrs"] = [["name", name], ["label", label]]
    # sources
    for src in SOURCES:
        for k in keys:
            if k in ("name", "label", "u", "value") and src == "eattr":
                continue
            if rng.random() < 0.22:
                v = rand_value(rng, k, src)
                if src == "kwargs":
                    c["kwargs"].append([k, v])
                elif src in ("sitem", "sattr"):
                    if c["state"] is None:
                        c["state"] = {"kind": None, "items": [], "attrs": []}
                    c["state"]["items" if src == "sitem" else "attrs"].append([k, v])
                elif src == "vattr":
                    c["vattrs"].append([k, v])
                else:
                    e0["attrs"].append([k, v])
    if c["state"] is None and rng.random() < 0.3:
        c["state"] = {"kind": None, "items": [], "attrs": []}
    if c["state"] is not None:
        st = c["state"]
        if st["items"] and st["attrs"]:
            st["kind"] = "objdict"
        elif st["items"]:
            st["kind"] = rng.choice(["dict", "dict", "objdict"])
        elif st["attrs"]:
            st["kind"] = rng.choice(["obj", "obj", "objdict"])
        else:
            st["kind"] = rng.choice(["obj", "dict", "objdict"])
    # parents
    for depth in range(rng.choice([0, 1, 1, 2, 3])):
        c["chain"].append({"kind": rng.choice(["dict", "list"]), "attrs": [["name", "p%d" % depth]]})
    # translators
    if rng.random() < 0.6:
        places = []
        st = c["state"]
        if st is not None:
            if st["kind"] in ("obj", "objdict"):
                places.append(("state", "u_attr"))
                places.append(("state", "n_attr"))
            if st["kind"] in ("dict", "objdict"):
                places.append(("state", "u_item"))
                places.append(("state", "n_item"))
        for i in range(len(c["chain"])):
            places += [("chain", i, "u_inst"), ("chain", i, "u_cls"), ("chain", i, "n_inst"), ("chain", i, "n_cls")]
        places += [("builtins", "u"), ("builtins", "n")]
        for n_, pl in enumerate(rng.sample(places, rng.randint(1, min(4, len(places))))):
            tag = "T%d" % n_
            slot = pl[-1]
            is_u = slot.startswith("u")
            tr = rand_tr(rng, tag) if is_u else rand_ntr(rng, tag)
            none_here = rng.random() < 0.15
            if pl[0] == "state":
                c["state"][slot] = _slot(None if none_here else tr)
            elif pl[0] == "builtins":
                c["builtins"][slot] = _slot(None if none_here else tr)
            else:
                if slot.endswith("_cls"):
                    c["chain"][pl[1]][slot] = tr
                else:
                    c["chain"][pl[1]][slot] = _slot(None if none_here else tr)
    # message
    r = rng.random()
    defined = sorted({k for s in doc_sources(c) for k in s})
    pool = defined if (defined and rng.random() < 0.85) else keys
    if e0["kind"] != "scalar":
        # .value / .u of a container are not part of the case: keep them out of the template
        pool = [k for k in pool if k not in ("value", "u")] or ["label"]
    if r < 0.5:
        c["msg"] = {"t": "plain", "s": rand_template(rng, pool)}
    else:
        nkey = "cnt" if rng.random() < 0.8 else rng.choice(keys)
        c["msg"] = {"t": "plural", "s": rng.choice(["one %(k1)s", "one", "1 " + rand_template(rng, pool)]),
                    "p": rng.choice(["many %(k1)s %(cnt)s", "many", "N " + rand_template(rng, pool)]), "n": nkey}
        if rng.random() < 0.8 and not any(nkey in s for s in doc_sources(c)):
            c["vattrs"].append([nkey, rng.choice(COUNTS)])
    c["callable"] = rng.random() < 0.2
    sanitize(c)
    if rng.random() < 0.15:
        exp, _ = expected_syn(c)
        if exp is not None:
            c["pre_errors"] = rng.choice([[exp], ["other", exp], ["other"]])
    return c


def sanitize(c):
    """.value / .u of a container element are not described by the case: keep them out of the message"""
    if c["chain"][0]["kind"] != "scalar":
        m = c["msg"]
        for form in ("s", "p"):
            if form in m:
                m[form] = m[form].replace("%(value)s", "%(label)s").replace("%(u)s", "%(name)s")
        if m.get("n") in ("value", "u"):
            m["n"] = "cnt"
    if c["chain"][0]["kind"] == "dict":
        # a child *element* handed to real gettext is unhashable (part of KF-C16-a, not modelled): keep the
        # shipped catalogues away from Mapping elements with children
        def detag(t):
            return {"tag": "L", "tbl": []} if isinstance(t, dict) and "locale" in t else t
        st = c.get("state") or {}
        for key in ("u_attr", "u_item"):
            if isinstance(st.get(key), dict):
                st[key] = {"v": detag(st[key]["v"])}
        for e in c["chain"]:
            if isinstance(e.get("u_inst"), dict):
                e["u_inst"] = {"v": detag(e["u_inst"]["v"])}
            if "u_cls" in e:
                e["u_cls"] = detag(e["u_cls"])
        b = c.get("builtins") or {}
        if isinstance(b.get("u"), dict):
            b["u"] = {"v": detag(b["u"]["v"])}
    return c


def hostile_syn(rng):
    return sanitize(_hostile_syn(rng))


def _hostile_syn(rng):
    c = rand_syn(rng)
    r = rng.random()
    if r < 0.2:
        c["msg"] = {"t": "plain", "s": rng.choice(["100%", "%(label", "%(label)", "%(a(b)c)s", "%(a(b)s", "%%(label)s",
                                                     "%(nosuch)s", "%(label)s %(nosuch)s", "", "%()s", "%(label)s%"])}
    elif r < 0.4:
        c["state"] = {"kind": "seq", "items": [], "attrs": []}
    elif r < 0.6:
        # Mapping element with children named like message keys (KF-C16-a)
        names = rng.sample(["label", "name", "k1", "cnt", "zz"], rng.randint(1, 3))
        e0 = c["chain"][0]
        e0["kind"] = "dict"
        e0["items"] = [[n, {"elem": rng.choice(["child", "1", ""])}] for n in names]
        e0["attrs"] = [a for a in e0["attrs"] if a[0] in ("name", "label") or a[0].startswith("k")]
    elif r < 0.8:
        if c["msg"]["t"] == "plural":
            nkey = c["msg"]["n"]
            c["kwargs"] = [kv for kv in c["kwargs"] if kv[0] != nkey] + [[nkey, rng.choice(BAD_COUNTS)]]
        else:
            c["msg"] = {"t": "plural", "s": "one", "p": "many %(cnt)s", "n": "cnt"}
            c["kwargs"] = [kv for kv in c["kwargs"] if kv[0] != "cnt"] + [["cnt", rng.choice(BAD_COUNTS)]]
    else:
        c["msg"] = {"t": "plain", "s": rng.choice(["%s", "%(label)d", "%(label)r", "%(label)-5s", "%d %(label)s"])}
    return c


class C16(Property):
    id = "C16"
    title = "validation messages expand completely under every lookup source and locale"
    proof_module = "Proofs.C16"
    theorems = ["Flatland.C16.Proofs." + t for t in (
        "priority_partial", "priority_first_defined", "priority_none_defined", "C16_full_fails",
        "plural_choice", "plural_missing_count", "ungettext_receives_count",
        "findTransformer_eq_spec", "transformer_full", "translator_applied",
        "expand_plain_refines", "expand_plural_refines",
        "expand_total", "no_percent_left", "expandMessage_ok_expansion",
        "builtin_expand_total", "catalogue_expand_total")]
    generated_obligations = ["Flatland.C16.Proofs." + t for t in (
        "catalogues_listed", "catalogue_placeholders", "catalogue_complete", "builtin_keys_supplied",
        "builtin_no_escape")]
    quick_n = 100000
    thorough_n = 600000
    trusted_base = [
        "Python's `str % mapping` modelled for the fragment %(key)s / %% only (other conversions are reported as Unsupported and not compared)",
        "int(str) modelled for ASCII digits/sign/underscores/whitespace (no Unicode digits, no 4300-digit limit)",
        "gettext .mo loading is external: the model uses the .po text; the extractor checks .mo == .po with the real gettext module on every run",
        "translators are harness-supplied text->text functions (non-text values pass through, as GNUTranslations.gettext does)",
        "attribute lookup on real objects (instance over class attributes) is Python's; the model is told the resolved attributes of the case",
    ]
    assumptions = [
        "keys used in templates are drawn from a pool that avoids attributes the harness does not describe (dict methods on the keyword dict / a dict state, Element API names other than label/name/value/u)",
        "`.value`/`.u` of container elements are kept out of generated templates",
    ]
    level_text = "proof"
    level_note = ("proved for all inputs on model A: source priority (partial: KF-C16-a), plural choice, translator search (full) and "
                  "application, refinement of expand_message to the documented expansion, total expansion; the catalogue/template theorems are "
                  "instantiated by `decide` on tables regenerated from /repo on every run.  The tie model<->code is differential (correspondence).")
    technique = "Lean 4 model + theorems; regenerated tables (translator route) + differential correspondence + Python oracle with real gettext"
    rule = ("synthetic validators: each of 8 keys defined by a random subset of the five documented sources with distinct values; plain and plural "
            "messages with counts from {0,1,2,5,-1,'1',' 1 ','+1','01','1_0',True,False,None,100,non-numbers}; translators (tagging, table, None) "
            "and the shipped catalogues' gettext/ngettext placed on state attr/item, element instance/class, up to 3 ancestors, builtins; hostile stream: malformed templates, list state, "
            "Mapping element with children named like keys, non-numeric counts, unsupported conversions.  Exhaustive: all 2^5 definedness "
            "patterns x {fresh key, label} x {no translator, builtins translator}.  Built-in stream: every failing built-in validator scenario x "
            "{source,de,es,fr} x translator placement.  non-trivial = an expansion was produced and the message uses at least one key")
    exhaustive_note = ("all 2^5 patterns of which documented source defines the key, for a fresh key and for `label`, with and without a builtins "
                       "translator; one failing scenario per built-in message attribute (singular and plural counts for the triples) x "
                       "{source,de,es,fr} x translator placement {state item, root element} (thorough: all five placements) x with/without ungettext")

    def corpus(self):
        out = []
        # KF-C16-a: Dict element with a child called `label`
        c = base_case()
        c["chain"][0] = {"kind": "dict", "attrs": [["name", "d"], ["label", "d"]], "items": [["label", {"elem": "child"}]]}
        out.append(c)
        # fixed 3d5403b (D-C16-1): list state
        c = base_case()
        c["state"] = {"kind": "seq", "items": [], "attrs": []}
        out.append(c)
        c = copy.deepcopy(c)
        c["chain"][0]["u_inst"] = {"v": {"tag": "E", "tbl": []}}
        out.append(c)
        # fixed b2dcb3b (old KF-C16-b): count text that is not a number -> plural form
        c = base_case()
        c["msg"] = {"t": "plural", "s": "one", "p": "many %(cnt)s", "n": "cnt"}
        c["kwargs"] = [["cnt", "abc"]]
        out.append(c)
        c = copy.deepcopy(c)
        c["state"] = {"kind": "dict", "items": [], "attrs": [], "n_item": {"v": {"tag": "N", "rule": "ne1"}}}
        out.append(c)
        # open KF-C16-b (residual): the same count handed to real gettext's ngettext
        c = copy.deepcopy(c)
        c["state"]["n_item"] = {"v": {"locale": "de"}}
        out.append(c)
        return out

    def exhaustive(self, tier):
        # all 2^5 definedness patterns, for a plain key, for `label` (element attribute always defined) and
        # under each state shape that can carry the pattern
        for key in ("k1", "label"):
            for pattern in itertools.product((False, True), repeat=5):
                if key == "label":
                    if not pattern[4]:
                        continue
                    c = priority_case(key, pattern[:4] + (False,))
                else:
                    c = priority_case(key, pattern)
                yield c
                if tier == "thorough" or key == "k1":
                    c2 = copy.deepcopy(c)
                    c2["builtins"] = {"u": _slot({"tag": "B", "tbl": []})}
                    yield c2
        yield from self._builtin_exhaustive(tier)

    def _builtin_exhaustive(self, tier):
        from harness.props import c15
        places = PLACES if tier == "thorough" else ["state-dict", "root"]
        for label, c in builtin_scenarios():
            fin = c15.finish(copy.deepcopy(c))
            for lang in [None] + LANGS:
                for place in places:
                    for with_n in ((True, False) if lang else (True,)):
                        yield {"k": "builtin", "c15": fin, "lang": lang, "place": place, "with_n": with_n, "label": label}

    def generate(self, rng, n, tier):
        for i in range(n):
            r = rng.random()
            if r < 0.12:
                yield hostile_syn(rng)
            elif r < 0.65:
                yield rand_syn(rng)
            else:
                yield rand_builtin(rng)

    def has_model(self, case):
        if case["k"] == "builtin":
            from harness.props import c15
            return c15.PROP.has_model(case["c15"])
        return True

    def run_impl(self, case):
        if case["k"] == "syn":
            return run_syn(case)
        if case["k"] == "builtin":
            return run_builtin(case)[0]
        raise ValueError(case["k"])

    def compare(self, impl_obs, model_obs):
        if isinstance(model_obs, dict) and model_obs.get("raise") == "Unsupported":
            return None  # outside the modelled `%` fragment (recorded in the evidence tags)
        return Property.compare(self, impl_obs, model_obs)

    def oracle(self, case):
        if case["k"] == "syn":
            return oracle_syn(case)
        if case["k"] == "builtin":
            return oracle_builtin(case)
        return []

    def classify(self, case, failure):
        cl = failure.get("clause")
        if in_class_kf_a(case) and cl in ("documented-expansion", "note_error-records-once", "expands-without-error"):
            return "KF-C16-a"
        if in_class_kf_b(case) and cl == "expands-without-error" and failure.get("observed") == "TypeError":
            return "KF-C16-b"
        return None

    def nontrivial(self, case, obs):
        if case["k"] == "syn":
            return obs.get("result") is not None and bool(used_keys(case))
        return obs.get("verdict") is False and len(obs.get("errors", [])) > len(case["c15"].get("pre_errors", []))

    def tags(self, case, obs):
        t = ["kind=" + case["k"]]
        if case["k"] == "syn":
            t.append("msg=" + case["msg"]["t"])
            t.append("raise=%s" % obs.get("raise"))
            st = case.get("state")
            t.append("state=%s" % (st["kind"] if st else "None"))
            t.append("chain=%d" % len(case["chain"]))
            t.append("elem=" + case["chain"][0]["kind"])
            srcs = doc_sources(case)
            for k in used_keys(case):
                pat = "".join("1" if k in s else "0" for s in srcs)
                t.append("defined-by=%d-sources" % pat.count("1"))
            u = doc_translator(case, "u")
            n = doc_translator(case, "n")
            t.append("ugettext=%s" % ("yes" if u else "no"))
            if case["msg"]["t"] == "plural":
                t.append("ungettext=%s" % ("yes" if n else "no"))
            if case.get("pre_errors"):
                t.append("pre-errors")
        else:
            t.append("lang=%s" % case.get("lang"))
            t.append("place=" + case["place"])
            t.append("builtin=" + case["c15"]["v"]["cls"])
            if case.get("label"):
                t.append("message=" + case["label"])
            t.append("builtin-outcome=%s" % (obs.get("raise") or obs.get("verdict")))
            t.append("ungettext=%s" % ("yes" if case.get("lang") and case.get("with_n", True) else "no"))
        return sorted(set(t))

    def shrink_candidates(self, case):
        if case["k"] == "builtin":
            from harness.props import c15
            for c in c15.PROP.shrink_candidates(case["c15"]):
                d = copy.deepcopy(case)
                d["c15"] = c
                yield d
            if case.get("lang") and case.get("with_n", True):
                d = copy.deepcopy(case)
                d["with_n"] = False
                yield d
            if case["place"] != "state-dict":
                d = copy.deepcopy(case)
                d["place"] = "state-dict"
                yield d
            return
        for key in ("kwargs", "vattrs", "pre_errors"):
            for i in range(len(case.get(key, []))):
                c = copy.deepcopy(case)
                del c[key][i]
                yield c
        if case.get("state") is not None:
            c = copy.deepcopy(case)
            c["state"] = None
            yield c
            for key in ("items", "attrs"):
                for i in range(len(case["state"].get(key, []))):
                    c = copy.deepcopy(case)
                    del c["state"][key][i]
                    yield c
            for key in ("u_attr", "u_item", "n_attr", "n_item"):
                if key in case["state"]:
                    c = copy.deepcopy(case)
                    del c["state"][key]
                    yield c
        if len(case["chain"]) > 1:
            c = copy.deepcopy(case)
            c["chain"].pop()
            yield c
        for i, e in enumerate(case["chain"]):
            for key in ("u_inst", "u_cls", "n_inst", "n_cls"):
                if key in e:
                    c = copy.deepcopy(case)
                    del c["chain"][i][key]
                    yield c
            for j, a in enumerate(e.get("attrs", [])):
                if a[0] in ("name", "label", "u", "value"):
                    continue
                c = copy.deepcopy(case)
                del c["chain"][i]["attrs"][j]
                yield c
        if case.get("builtins"):
            c = copy.deepcopy(case)
            c["builtins"] = {}
            yield c
        if case.get("callable"):
            c = copy.deepcopy(case)
            c["callable"] = False
            yield c
        m = case["msg"]
        if m["t"] == "plural":
            for form in ("s", "p"):
                c = copy.deepcopy(case)
                c["msg"] = {"t": "plain", "s": m[form]}
                yield c
        for form in ("s", "p"):
            s = m.get(form)
            if s and len(s) > 1:
                for cut in (s[: len(s) // 2], s[len(s) // 2:], s[1:], s[:-1]):
                    c = copy.deepcopy(case)
                    c["msg"][form] = cut
                    yield c


PROP = C16()
