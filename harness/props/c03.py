"""C03 — exported native value re-imports to an equal element."""
import collections
import copy
import datetime
import decimal
import keyword

import json

from harness import flatlib as fl
from harness.core import Property
from harness.props import scalars_g6 as S
from harness.props.c07 import _shrink_schema_value


# ------------------------------------------------------------------ case values -> Python

def decode_value(j, gens=True):
    """Case JSON -> the Python object given to set().  Beyond flatlib's tags: {"tuple": [..]},
    {"gen": [..]} (a generator; a plain list with gens=False), {"nt": [[field, v]..]} (namedtuple),
    {"kd": [[key, v]..]} (dict with arbitrary hashable keys), {"junk": 1}."""
    if isinstance(j, list):
        return [decode_value(x, gens) for x in j]
    if not isinstance(j, dict):
        return j
    if "tuple" in j:
        return tuple(decode_value(x, gens) for x in j["tuple"])
    if "gen" in j:
        items = [decode_value(x, gens) for x in j["gen"]]
        return (x for x in items) if gens else items
    if "nt" in j:
        cls = collections.namedtuple("NT", [k for k, _ in j["nt"]])
        return cls(*[decode_value(v, gens) for _, v in j["nt"]])
    if "kd" in j:
        return {decode_value(k, gens): decode_value(v, gens) for k, v in j["kd"]}
    if "d" in j:
        return {k: decode_value(v, gens) for k, v in j["d"]}
    if "pairs" in j:
        return [(k, decode_value(v, gens)) for k, v in j["pairs"]]
    if "junk" in j:
        return 3.5j  # a complex number: hashable, not iterable, not dict-like, no scalar type takes it
    if "x" in j:
        # a native of an unusual type, by its tagged description (scalars_g6.exotic_from_nat): UserString, an object with
        # __str__ only, str / int / float / Decimal / date subclasses with their own __str__, IntEnum member, Fraction,
        # aware time, bytes, bytearray.  Generated at leaf positions only.
        return S.nat_to_py(j["x"])
    return fl.decode_native(j)


# ------------------------------------------------------------------ natives <-> driver JSON

def encode_py(o):
    """Python object -> the model's native JSON: null | {"s"} | {"a": atom} | [..] | {"t": [..]} (tuple) |
    {"d": [[key, v]..]} | {"nt": [[field, v]..]} | {"junk": 1}."""
    if o is None:
        return None
    if S.is_exotic(o) or isinstance(o, S.Other):
        # the model holds it as an opaque atom carrying the full description (what a leaf makes of it is looked up in the
        # adapt table, computed by handing the re-built object to the real class)
        return {"a": "x:" + json.dumps(S.py_to_nat(o), sort_keys=True)}
    if isinstance(o, str):
        return {"s": o}
    if isinstance(o, bool):
        return {"a": "b:%s" % o}
    if isinstance(o, int):
        return {"a": "i:%d" % o}
    if isinstance(o, float):
        return {"a": "f:%s" % o.hex()}
    if isinstance(o, decimal.Decimal):
        return {"a": "dec:%s" % o}
    if isinstance(o, datetime.datetime):
        return {"a": "dt:%d,%d,%d,%d,%d,%d,%d" % (o.year, o.month, o.day, o.hour, o.minute, o.second, o.microsecond)}
    if isinstance(o, datetime.date):
        return {"a": "date:%d,%d,%d" % (o.year, o.month, o.day)}
    if isinstance(o, datetime.time):
        return {"a": "time:%d,%d,%d,%d" % (o.hour, o.minute, o.second, o.microsecond)}
    if isinstance(o, dict):
        return {"d": [[encode_py(k), encode_py(v)] for k, v in o.items()]}
    if isinstance(o, tuple) and hasattr(o, "_fields"):
        return {"nt": [[k, encode_py(v)] for k, v in zip(o._fields, o)]}
    if isinstance(o, tuple):
        return {"t": [encode_py(x) for x in o]}
    if isinstance(o, list):
        return [encode_py(x) for x in o]
    return {"junk": 1}


def decode(n):
    if n is None:
        return None
    if isinstance(n, list):
        return [decode(x) for x in n]
    if "s" in n:
        return n["s"]
    if "t" in n:
        return tuple(decode(x) for x in n["t"])
    if "d" in n:
        return {decode(k): decode(v) for k, v in n["d"]}
    if "nt" in n:
        cls = collections.namedtuple("NT", [k for k, _ in n["nt"]])
        return cls(*[decode(v) for _, v in n["nt"]])
    if "junk" in n:
        return 3.5j
    tag, _, body = n["a"].partition(":")
    if tag == "x":
        return S.nat_to_py(json.loads(body))
    if tag == "i":
        return int(body)
    if tag == "b":
        return body == "True"
    if tag == "f":
        return float.fromhex(body)
    if tag == "dec":
        return decimal.Decimal(body)
    nums = [int(x) for x in body.split(",")]
    if tag == "date":
        return datetime.date(*nums)
    if tag == "time":
        return datetime.time(*nums)
    if tag == "dt":
        return datetime.datetime(*nums)
    raise ValueError(n)


def py_iter(n):
    """What iterating the native yields (list of natives), None if it is not iterable."""
    if isinstance(n, list):
        return n
    if isinstance(n, dict):
        if "s" in n:
            return [{"s": c} for c in n["s"]]
        if "t" in n:
            return n["t"]
        if "d" in n:
            return [k for k, _ in n["d"]]
        if "nt" in n:
            return [v for _, v in n["nt"]]
    return None


def py_pairs(n):
    """list(to_pairs(n)) on native JSON, None where it raises (used to find which natives can reach which
    leaves; the model has its own toPairs)."""
    if isinstance(n, dict) and "d" in n:
        return [(k, v) for k, v in n["d"]]
    if isinstance(n, dict) and "nt" in n:
        return [({"s": k}, v) for k, v in n["nt"]]
    items = py_iter(n)
    if items is None:
        return None
    out = []
    for item in items:
        it = py_iter(item)
        if it is None or len(it) != 2:
            return None
        out.append((it[0], it[1]))
    return out


def subnatives(n, acc):
    """Every native that can be handed to a member element while set() takes n apart."""
    acc.append(n)
    if isinstance(n, dict) and "s" in n:
        # a sequence iterates a text character by character; a 2-character text unpacks into a pair
        for c in dict.fromkeys(n["s"][:24]):
            acc.append({"s": c})
    elif isinstance(n, list):
        for x in n:
            subnatives(x, acc)
    elif isinstance(n, dict) and "t" in n:
        for x in n["t"]:
            subnatives(x, acc)
    elif isinstance(n, dict) and "d" in n:
        for k, v in n["d"]:
            subnatives(k, acc)
            subnatives(v, acc)
    elif isinstance(n, dict) and "nt" in n:
        for _, v in n["nt"]:
            subnatives(v, acc)
    return acc


def dup_chains(n):
    """Value sequences a single member receives through a repeated key of one pairs list."""
    chains = []
    for sub in subnatives(n, []):
        ps = py_pairs(sub)
        if not ps:
            continue
        groups = {}
        for k, v in ps:
            if isinstance(k, dict) and "s" in k:
                groups.setdefault(k["s"], []).append(v)
        for vs in groups.values():
            if len(vs) > 1 and vs not in chains:
                chains.append(vs)
    return chains


def has_nan(n):
    if isinstance(n, list):
        return any(has_nan(x) for x in n)
    if isinstance(n, dict):
        if "a" in n:
            return n["a"] in ("f:nan", "dec:NaN", "dec:sNaN") or n["a"].startswith("f:nan")
        if "t" in n:
            return any(has_nan(x) for x in n["t"])
        if "d" in n:
            return any(has_nan(k) or has_nan(v) for k, v in n["d"])
        if "nt" in n:
            return any(has_nan(v) for _, v in n["nt"])
    return False


# ------------------------------------------------------------------ schema conversion

def to_c03_schema(s, rng=None):
    t = s["t"]
    if t in ("leaf", "joined", "compound"):
        return {"t": "leaf", "name": s["name"], "opt": bool(s.get("opt")), "k": s["k"]}
    if t == "dict":
        pol = s.get("policy") or "subset"
        return {"t": "dict", "name": s["name"], "opt": bool(s.get("opt")), "mode": s["mode"], "policy": pol,
                "fields": [to_c03_schema(f) for f in s["fields"]]}
    return {"t": "seq", "name": s["name"], "opt": bool(s.get("opt")), "member": to_c03_schema(s["member"])}


def parts_of(el):
    """Texts of the parts flatten() shows: the fields of a DateYYYYMMDD.  The members of a JoinedString are
    visible to none of .value, .u, == (value and u) and flatten() (the joined text only)."""
    import flatland
    if isinstance(el, flatland.DateYYYYMMDD):
        return [el[f.name].u for f in el.field_schema]
    return []


def extract3(el, s):
    t = s["t"]
    if t in ("leaf", "joined", "compound"):
        return {"v": encode_py(el.value), "u": el.u, "parts": parts_of(el)}
    if t == "dict":
        fields = {f["name"]: f for f in s["fields"]}
        return {"dict": [[k, extract3(v, fields[k])] for k, v in dict.items(el) if k in fields]}
    if t == "list":
        return {"seq": [extract3(m, s["member"]) for m in el]}
    return {"seq": [extract3(m, s["member"]) for m in list.__iter__(el)]}


def leaf_state(el):
    return [encode_py(el.value), el.u, parts_of(el)]


def make_env3(schema, kinds, natives, chains=()):
    """adapt table for every leaf-like kind of the schema x every native that may reach it (fresh
    leaf-likes), closed under "set with the exported value"; adapt2: the same for leaf-likes that were
    set before (the value sequences of repeated keys)."""
    ks = sorted({s["k"] for s in fl.walk_schema(schema) if s["t"] in ("leaf", "joined", "compound")})
    adapt, adapt2, blank = [], [], []
    seen = []
    for n in natives:
        if n not in seen:
            seen.append(n)
    for k in ks:
        cls = fl.kind_class(kinds[k])
        b = cls()
        bstate = leaf_state(b)
        blank.append([k] + bstate)
        todo = list(seen)
        keys2 = []
        for chain in chains:
            el = cls()
            for n in chain:
                before = leaf_state(el)
                try:
                    flag = el.set(decode(n))
                except Exception as e:
                    after = [{"junk": 1}, "!raise:" + type(e).__name__, []]
                    flag = False
                else:
                    after = leaf_state(el)
                if before != bstate and [before, n] not in keys2:
                    keys2.append([before, n])
                    adapt2.append([k, before, n, bool(flag)] + after)
                    if after[0] not in todo:
                        todo.append(after[0])
                if after[1].startswith("!raise:"):
                    break
        done = []
        while todo:
            n = todo.pop(0)
            if n in done:
                continue
            done.append(n)
            el = cls()
            try:
                flag = el.set(decode(n))
            except Exception as e:
                adapt.append([k, n, False, {"junk": 1}, "!raise:" + type(e).__name__, []])
                continue
            v = encode_py(el.value)
            adapt.append([k, n, bool(flag), v, el.u, parts_of(el)])
            if v not in done and len(done) < 400:
                todo.append(v)
    return {"adapt": adapt, "adapt2": adapt2, "blank": blank}


def hyp_holds(schema3, elem, env, need_flag):
    """`leafStable` of Flatland/C03.lean, in Python: every leaf of the element, set on a fresh leaf-like of
    its kind with its own exported value (looked up in the table of the real classes), gets into the same
    state (and reports True, with need_flag)."""
    t = schema3["t"]
    if t == "leaf":
        if "v" not in elem:
            return False
        for k, n, flag, v, u, parts in env["adapt"]:
            if k == schema3["k"] and n == elem["v"]:
                return [v, u, parts] == [elem["v"], elem["u"], elem["parts"]] and (flag or not need_flag)
        return False
    if t == "dict":
        if "dict" not in elem:
            return False
        for key, m in elem["dict"]:
            f = next((f for f in schema3["fields"] if f["name"] == key), None)
            if f is None or not hyp_holds(f, m, env, need_flag):
                return False
        return True
    if "seq" not in elem:
        return False
    return all(hyp_holds(schema3["member"], m, env, need_flag) for m in elem["seq"])


def strip_multi(s):
    for x in fl.walk_schema(s):
        if x["t"] == "array":
            x["multi"] = False
    return s


# ------------------------------------------------------------------ the element's history (pre steps)

LEAFLIKE = ("leaf", "joined", "compound")
STEP_ERRORS = (KeyError, TypeError, IndexError)


def schema_at(s, path):
    """The schema node a path of member names / indexes leads to; None if the path does not fit the schema."""
    for p in path:
        if s["t"] == "dict" and isinstance(p, str):
            s = next((f for f in s["fields"] if f["name"] == p), None)
            if s is None:
                return None
        elif s["t"] in ("list", "array") and isinstance(p, int) and not isinstance(p, bool) and p >= 0:
            s = s["member"]
        else:
            return None
    return s


def step_ok(schema, step):
    """The step addresses something the schema has (a step on a member that is not there at run time raises
    KeyError / IndexError; that is modelled; a path through a scalar is not)."""
    op = step.get("op")
    if op == "set":
        return True
    if op == "set_flat":
        return True
    node = schema_at(schema, step.get("path", []))
    if node is None:
        return False
    if op == "child_set":
        return True
    if op == "setitem":
        key = step.get("key")
        if node["t"] == "dict":
            return isinstance(key, str)
        if node["t"] in ("list", "array"):
            return isinstance(key, int) and not isinstance(key, bool) and key >= 0
    return False


def blank_keys(s3):
    """Keys of the members `_reset()` leaves (blankMs of Flatland/C03.lean)."""
    if s3["mode"] == "dense":
        return [f["name"] for f in s3["fields"]]
    if s3["mode"] == "sparse":
        return []
    return [f["name"] for f in s3["fields"] if not f["opt"]]


def shaped_py(s3, e):
    """`Shaped` of Proofs/C03.lean (= `shapedB` of Flatland/C03.lean), in Python, on an extracted state."""
    t = s3["t"]
    if t == "leaf":
        return "v" in e
    if t == "dict":
        if "dict" not in e:
            return False
        keys = [k for k, _ in e["dict"]]
        b = blank_keys(s3)
        if len(set(keys)) != len(keys) or keys[:len(b)] != b:
            return False
        for k, m in e["dict"]:
            f = next((f for f in s3["fields"] if f["name"] == k), None)
            if f is None or not shaped_py(f, m):
                return False
        return True
    return "seq" in e and all(shaped_py(s3["member"], m) for m in e["seq"])


def apply_step(el, schema, step, entries=None):
    """One step of the history on the real element (public API only).  Returns what the step shows:
    {"raise": class} | {"flag": returned flag / None for an assignment} | {"adopted": True} (set_flat: the
    model takes the state it left as an input).  With `entries`: the (kind, state before, input, flag, state
    after) of a leaf-like that was set in a state other than a fresh one's is appended (adapt table rows)."""
    import flatland
    op = step["op"]
    if op == "set_flat":
        el.set_flat([(k, v) for k, v in step["pairs"]])
        return {"adopted": True}
    path = step.get("path") or []
    x = decode_value(step["x"])
    probe, flags = None, []
    try:
        target = el
        for p in path:
            target = target[p]
        node = schema_at(schema, path)
        if op in ("set", "child_set"):
            if node is not None and node["t"] in LEAFLIKE:
                probe, pk, before = target, node["k"], leaf_state(target)
            flag = bool(target.set(x))
            out = {"flag": flag}
            flags.append(flag)
        else:
            key = step["key"]
            member = node["member"] if node is not None and node["t"] in ("list", "array") else (
                schema_at(node, [key]) if node is not None and isinstance(key, str) else None)
            present = None
            if node is not None and node["t"] == "dict" and dict.__contains__(target, key):
                present = dict.__getitem__(target, key)
            elif node is not None and node["t"] == "list" and isinstance(key, int) and 0 <= key < len(target):
                present = target[key]
            if present is not None and member is not None and member["t"] in LEAFLIKE:
                probe, pk, before = present, member["k"], leaf_state(present)

                def heard(sender, adapted=None, **kw):
                    flags.append(bool(adapted))
                with flatland.element_set.connected_to(heard, sender=present):
                    target[key] = x
            else:
                target[key] = x
            out = {"flag": None}
    except STEP_ERRORS as e:
        return {"raise": type(e).__name__}
    if entries is not None and probe is not None:
        xn = encode_py(decode_value(step["x"], gens=False))
        entries.append([pk, before, xn, flags[-1] if flags else True] + leaf_state(probe))
    return out


def model_step(schema, step, obs, state):
    """The step as the Lean runner takes it (see `runPre` in Flatland/Run/C03.lean)."""
    op = step["op"]
    if op == "set_flat":
        return {"op": "state", "cur": state}
    xn = encode_py(decode_value(step["x"], gens=False))
    resync = state if "raise" in obs else None
    path = step.get("path") or []
    if op in ("set", "child_set"):
        return {"op": "set", "path": path, "x": xn, "resync": resync}
    node = schema_at(schema, path)
    return {"op": "setitem", "path": path, "key": step["key"], "fresh": bool(node and node["t"] == "array"),
            "x": xn, "resync": resync}


def nodes_with_paths(rng, s, path=()):
    """(path, schema node) for every node of the schema, one index per sequence level."""
    yield list(path), s
    if s["t"] == "dict":
        for f in s["fields"]:
            yield from nodes_with_paths(rng, f, tuple(path) + (f["name"],))
    elif s["t"] in ("list", "array"):
        yield from nodes_with_paths(rng, s["member"], tuple(path) + (rng.choice([0, 0, 0, 1, 1, 2]),))


UNADAPTABLE = ["abc", "n/a", "zzz", "1e3", "--", "x y"]


def flat_keys3(rng, s, prefix=""):
    """Flattened names ('_' separator) of the leaves of the schema: a few indexes per list level."""
    name, t = s["name"], s["t"]
    bare = (prefix + name) if name else prefix[:-1]
    p2 = (prefix + name + "_") if name else prefix
    if t in ("leaf", "joined"):
        yield bare
    elif t == "compound":
        if rng.random() < 0.25:
            yield bare
        else:
            for f in s["fields"]:
                yield p2 + f["name"]
    elif t == "dict":
        for f in s["fields"]:
            yield from flat_keys3(rng, f, p2)
    elif t == "list":
        for idx in rng.sample([0, 1, 2, 3, 5], rng.randint(1, 3)):
            yield from flat_keys3(rng, s["member"], p2 + str(idx) + "_")
    else:
        m = s["member"]
        base = bare
        if m["name"]:
            base = (base + "_" + m["name"]) if base else m["name"]
        for _ in range(rng.randint(1, 3)):
            yield base


def gen_flat_pairs3(rng, schema):
    keys = list(flat_keys3(rng, schema))
    if len(keys) > 6 and rng.random() < 0.6:
        keys = rng.sample(keys, rng.randint(1, 6))
    pairs = []
    for k in keys:
        r = rng.random()
        v = rng.choice(fl.TEXTS) if r < 0.4 else (rng.choice(UNADAPTABLE) if r < 0.8 else "")
        pairs.append([k, v])
    if rng.random() < 0.15:
        pairs.insert(rng.randint(0, len(pairs)), [rng.choice(["", "zz", "0", "a_", (schema["name"] or "q") + "_9_"]), "x"])
    return pairs


def gen_target_value(rng, node, kinds):
    """A value for set() on a member: valid for it, hostile, or (leaf-likes) a text that does not adapt."""
    if node["t"] in LEAFLIKE and rng.random() < 0.4:
        return {"s": rng.choice(UNADAPTABLE)}
    return gen_value3(rng, node, kinds, hostile=0.15)


def gen_pre(rng, schema, kinds):
    """1-3 steps of history: set() on the element, set_flat(), a member's own set(), item assignment."""
    n = rng.choice([1, 1, 2, 2, 3])
    steps = []
    has_seq = any(x["t"] in ("list", "array") for x in fl.walk_schema(schema))
    if has_seq and n > 1 and rng.random() < 0.6:
        steps.append({"op": "set", "x": gen_value3(rng, schema, kinds, hostile=0.0)})   # something to index into
    while len(steps) < n:
        nodes = list(nodes_with_paths(rng, schema))
        r = rng.random()
        if r < 0.15:
            steps.append({"op": "set", "x": gen_value3(rng, schema, kinds, hostile=0.1)})
        elif r < 0.45:
            steps.append({"op": "set_flat", "pairs": gen_flat_pairs3(rng, schema)})
        elif r < 0.75:
            inner = [(p, nd) for p, nd in nodes if p]
            if not inner:
                steps.append({"op": "set", "x": gen_target_value(rng, schema, kinds)})
                continue
            p, nd = rng.choice([c for c in inner if c[1]["t"] in LEAFLIKE] or inner) if rng.random() < 0.6 else rng.choice(inner)
            steps.append({"op": "child_set", "path": p, "x": gen_target_value(rng, nd, kinds)})
        else:
            conts = [(p, nd) for p, nd in nodes if nd["t"] in ("dict", "list", "array")]
            if not conts:
                steps.append({"op": "set_flat", "pairs": gen_flat_pairs3(rng, schema)})
                continue
            p, nd = rng.choice(conts)
            if nd["t"] == "dict":
                f = rng.choice(nd["fields"])
                key = f["name"] if rng.random() < 0.92 else f["name"] + "?"
                member = f
            else:
                key = rng.choice([0, 0, 0, 1, 1, 2, 7])
                member = nd["member"]
            steps.append({"op": "setitem", "path": p, "key": key, "x": gen_target_value(rng, member, kinds)})
    return steps


def has_unadapted_leaf(e):
    if "v" in e:
        return e["v"] is None and e["u"] != ""
    return any(has_unadapted_leaf(m[1] if "dict" in e else m) for m in (e.get("dict") or e.get("seq") or []))


# ------------------------------------------------------------------ generator

HOSTILE_CONTAINER = [{"none": 1}, {"s": ""}, {"s": "  "}, {"s": "zzz"}, {"i": 7}, [], {"d": []}, {"b": True}, {"junk": 1},
                     {"s": "ax"}, [{"s": "ax"}], {"tuple": []}, {"gen": []}, {"nt": []}, [{"i": 5}], [[{"s": "a"}]],
                     [{"none": 1}], {"tuple": [{"tuple": [{"s": "a"}, {"s": "x"}, {"s": "y"}]}]}]
NONTEXT_KEYS = [{"i": 1}, {"none": 1}, {"b": True}, {"tuple": [{"s": "a"}]}, {"i": 0}, {"junk": 1}]
UNHASHABLE_KEYS = [[{"s": "a"}], {"d": []}, {"tuple": [[]]}]


def _identifier(name):
    return name.isidentifier() and not keyword.iskeyword(name) and not name.startswith("_") and name.isascii()


def gen_value3(rng, s, kinds, hostile):
    """A case-JSON value for set() on schema s, in the forms the property's quantifier names: native
    objects and text forms for the leaf-likes (flatlib.gen_value); for Dicts a dict, a list / tuple /
    generator of pairs (pairs as lists, 2-tuples or 2-character texts), a namedtuple, with partial key sets,
    repeated keys, keys that are no texts; for sequences a list, tuple or generator."""
    t = s["t"]
    if t not in ("dict", "list", "array"):
        if t in ("leaf", "compound") and rng.random() < 0.12:
            return exotic_leaf_value(rng, kinds[s["k"]])
        return fl.gen_value(rng, s, kinds, hostile)
    if rng.random() < hostile:
        return copy.deepcopy(rng.choice(HOSTILE_CONTAINER))
    if t in ("list", "array"):
        n = rng.choice([0, 1, 1, 2, 2, 3, 4])
        items = [gen_value3(rng, s["member"], kinds, hostile) for _ in range(n)]
        r = rng.random()
        return items if r < 0.7 else ({"tuple": items} if r < 0.85 else {"gen": items})
    fs = s["fields"]
    if s["mode"] != "dense" or rng.random() < 0.3:
        fs = [f for f in fs if rng.random() < 0.7]
        if s["mode"] != "dense":
            rng.shuffle(fs)
    pairs = [[f["name"], gen_value3(rng, f, kinds, hostile)] for f in fs]
    dup = False
    if pairs and rng.random() < 0.12:
        # a key given twice: the second value valid for the field, invalid for it, or of the wrong shape
        f = rng.choice([g for g in fs if g["t"] == "dict"] or fs) if rng.random() < 0.5 else rng.choice(fs)
        r = rng.random()
        if r < 0.4:
            second = gen_value3(rng, f, kinds, hostile)
        elif r < 0.7:
            second = rng.choice([{"s": "zzz"}, {"none": 1}, {"s": ""}, {"d": []}, []])
        else:
            second = rng.choice([{"i": 7}, {"s": "q"}, {"junk": 1}, [{"i": 5}], {"s": "abc"}])
        pos = rng.randint(0, len(pairs))
        pairs.insert(pos, [f["name"], second])
        dup = True
    r = rng.random()
    if not dup and r < 0.45:
        return {"d": pairs}
    if not dup and r < 0.53 and all(_identifier(k) for k, _ in pairs):
        return {"nt": pairs}
    if not dup and r < 0.57:
        extra = [rng.choice(NONTEXT_KEYS), rng.choice([{"s": "x"}, {"none": 1}, {"i": 3}])]
        kd = [[{"s": k}, v] for k, v in pairs]
        kd.insert(rng.randint(0, len(kd)), extra)
        return {"kd": kd}
    # a sequence of pairs
    style = rng.choice(["tuple", "tuple", "list", "mixed", "mixed"])
    items = []
    for k, v in pairs:
        st = style if style != "mixed" else rng.choice(["tuple", "list", "text"])
        if st == "text" or (len(k) == 1 and isinstance(v, dict) and set(v) == {"s"} and len(v["s"]) == 1 and rng.random() < 0.5):
            if len(k) == 1 and isinstance(v, dict) and set(v) == {"s"} and len(v["s"]) == 1:
                items.append({"s": k + v["s"]})        # a 2-character text unpacks into key and value
                continue
            st = "tuple"
        items.append({"tuple": [{"s": k}, v]} if st == "tuple" else [{"s": k}, v])
    q = rng.random()
    if q < 0.05:
        items.insert(rng.randint(0, len(items)), rng.choice(
            [[{"s": "a"}], {"tuple": [{"s": "a"}, {"s": "x"}, {"s": "y"}]}, {"i": 5}, {"none": 1}, {"s": "abc"}, {"s": "a"}]))
    elif q < 0.09:
        items.insert(rng.randint(0, len(items)), [rng.choice(NONTEXT_KEYS), {"s": "x"}])
    elif q < 0.11:
        items.insert(rng.randint(0, len(items)), [rng.choice(UNHASHABLE_KEYS), {"s": "x"}])
    r = rng.random()
    return items if r < 0.6 else ({"tuple": items} if r < 0.8 else {"gen": items})


_EXOTIC_KIND = {"String": "string", "Enum": "string", "Integer": "integer", "Long": "integer", "DateMember": "integer",
                "EnumInt": "integer", "Float": "float", "Decimal": "decimal", "Boolean": "boolean_default", "Date": "date",
                "Time": "time", "DateTime": "datetime", "DateYMD": "date"}


def exotic_leaf_value(rng, kind):
    """A native of an unusual but legitimate type for a leaf-like of this kind (scalars_g6.random_exotic), as case JSON
    (bytes / bytearray handed to temporal kinds too: unadaptable since repair 6d1d953 of KF-C04-e)."""
    bk = _EXOTIC_KIND.get(kind["type"])
    for _ in range(20):
        x = S.random_exotic(rng, {"k": bk} if bk and rng.random() < 0.8 else None, pads=S.SAFE_PADS)
        j = S.py_to_nat(x)
        if j is not None and j["t"] in S.EXOTIC_TAGS + ("other",):
            return {"x": j}
        if isinstance(x, datetime.datetime):
            return {"dt": [x.year, x.month, x.day, x.hour, x.minute, x.second, x.microsecond]}
        if isinstance(x, datetime.date):
            return {"date": [x.year, x.month, x.day]}
        if isinstance(x, bool):
            return {"b": x}
    return {"none": 1}


def exotic_tags(v, acc):
    if isinstance(v, list):
        for x in v:
            exotic_tags(x, acc)
    elif isinstance(v, dict):
        if "x" in v and isinstance(v["x"], dict) and "t" in v["x"]:
            acc.add("exotic-" + v["x"]["t"])
            shown = v["x"].get("s", v["x"].get("shown", v["x"].get("v", v["x"].get("b", ""))))
            if isinstance(shown, str) and shown != shown.strip():
                acc.add("exotic-padded")
        else:
            for tag in ("tuple", "gen"):
                if tag in v:
                    exotic_tags(v[tag], acc)
            for tag in ("nt", "kd", "d", "pairs"):
                if tag in v:
                    for x in v[tag]:
                        exotic_tags(x[1], acc)
    return acc


def value_forms(v, acc):
    """Tags describing the shapes inside a case value."""
    if isinstance(v, list):
        if v and all((isinstance(x, list) and len(x) == 2) or (isinstance(x, dict) and "tuple" in x and len(x["tuple"]) == 2)
                     or (isinstance(x, dict) and set(x) == {"s"} and len(x["s"]) == 2) for x in v):
            acc.add("form-pair-list")
            if any(isinstance(x, dict) and set(x) == {"s"} for x in v):
                acc.add("form-2char-text-pair")
        for x in v:
            value_forms(x, acc)
    elif isinstance(v, dict):
        for tag, name in (("tuple", "form-tuple"), ("gen", "form-generator"), ("nt", "form-namedtuple"), ("kd", "form-nontext-key-dict"),
                          ("d", "form-dict"), ("pairs", "form-pair-list")):
            if tag in v:
                acc.add(name)
                for x in v[tag]:
                    if tag in ("tuple", "gen"):
                        value_forms(x, acc)
                    else:
                        value_forms(x[1], acc)
    return acc


def plain_value(v):
    """The same value with tuples / generators as lists and namedtuples as dicts (shrinking step)."""
    if isinstance(v, list):
        return [plain_value(x) for x in v]
    if isinstance(v, dict):
        if "tuple" in v:
            return [plain_value(x) for x in v["tuple"]]
        if "gen" in v:
            return [plain_value(x) for x in v["gen"]]
        if "nt" in v:
            return {"d": [[k, plain_value(x)] for k, x in v["nt"]]}
        if "d" in v:
            return {"d": [[k, plain_value(x)] for k, x in v["d"]]}
        if "kd" in v:
            return {"kd": [[k, plain_value(x)] for k, x in v["kd"]]}
    return v


class C03(Property):
    id = "C03"
    title = "Exported native value re-imports to an equal element"
    proof_module = "Proofs.C03"
    level_text = ('Lean 4 theorem `reimport`: if set(x) returned True on an element in any state `cur` that conforms to the schema '
                  '(`Shaped`: fresh, or with any history) and left it in state e, then set(e.value) on a fresh element of the schema '
                  'rebuilds the same state e (hence equal .value, .u, ==, flatten()) for Dict/SparseDict under every policy, '
                  'List/Array and table-driven leaf-likes; the returned flag of the second set() is not claimed. '
                  '`reimport_history`: the same for an element built fresh and taken through any sequence of set() calls and item '
                  'assignments anywhere in its tree (`Step`, run by the model: `shaped_history`); `reimport_observed`: from a state '
                  'observed on the real element (after set_flat(), after a step that raised half-way) that passed the decidable check '
                  '`shapedB` (`shapedB_iff`), followed by any further such history. The harness gives about 35% of the generated '
                  'elements a history of 1-3 steps (set, set_flat, a member\'s own set, item assignment; valid, unadaptable and '
                  'empty inputs) before the set(x) the property talks about; the model recomputes every step it runs, the set(x) '
                  'and the re-import. Hypothesis, localised to the leaves that occur in e: a fresh leaf-like of the same kind set '
                  'with the leaf\'s exported value gets into the leaf\'s state (`leafStable`, a decidable function). It is not '
                  'proved of the real scalars: the Lean runner and the harness evaluate it per generated case on the adapt table '
                  'extracted from the real classes (tags thm-applies / thm-hyp-fails in the evidence); where it fails the case '
                  'rests on the oracle alone. `reimport_true`: if those leaves also report True, so does the container. Negation '
                  'witness without the hypothesis (KF-C03-a).')
    level_note = ("Trusted: Lean kernel + 3 standard axioms; model Flatland/C03.lean (Dict.set incl. to_pairs unpacking of any "
                  "iterable of 2-item iterables, policies, state kept when to_pairs raises, Sequence.set, .value) tied to "
                  "/repo/src by differential correspondence on every case, including every step of the element's history that the "
                  "model runs (member set() and item assignment on Dict / SparseDict / List / Array, with the KeyError / IndexError / "
                  "TypeError of the lookups); set_flat() is not modelled here (C01's subject): the state it leaves, and the state a "
                  "set() that raised half-way leaves, are inputs taken from the real element and checked with `shapedB`; "
                  "what a scalar / JoinedString / DateYYYYMMDD in a "
                  "given state makes of a native is an input table computed from the real classes in isolation, and the "
                  "theorem's leaf hypothesis is a statement about that table (re-adapting the exported NATIVE value; not "
                  "C04/C18's laws, which are about re-setting the text) checked per case, not proved; the oracle states the "
                  "property on the real code for every case, including those where the hypothesis fails. MultiValue excluded "
                  "by the property; 'strict' policy on SparseDicts outside the quantifier.")
    technique = ('Lean 4 proof (shape invariant of Dict.set / Sequence.set + pair-by-pair rebuild lemma); differential correspondence; '
                 'per-case evaluation of the theorem hypothesis on real tables; Python oracle')
    theorems = [
        "Flatland.C03.Proofs.reimport",
        "Flatland.C03.Proofs.reimport_fresh",
        "Flatland.C03.Proofs.reimport_true",
        "Flatland.C03.Proofs.reimport_value",
        "Flatland.C03.Proofs.reimport_history",
        "Flatland.C03.Proofs.reimport_observed",
        "Flatland.C03.Proofs.shaped_history",
        "Flatland.C03.Proofs.shaped_applyStep",
        "Flatland.C03.Proofs.shaped_updateAt",
        "Flatland.C03.Proofs.shaped_itemAssign",
        "Flatland.C03.Proofs.shapedB_iff",
        "Flatland.C03.Proofs.shaped_set",
        "Flatland.C03.Proofs.shaped_blank",
        "Flatland.C03.Proofs.rebuilds_of_shaped",
        "Flatland.C03.Proofs.rebuild",
        "Flatland.C03.Proofs.inv_setPairs",
        "Flatland.C03.Proofs.reimport_needs_leafIdem",
    ]
    trusted_base = [
        "what a scalar / JoinedString / DateYYYYMMDD in a given state makes of a native input is an input of the model (adapt tables "
        "computed from the real classes in isolation)",
        "the theorem's hypothesis `leafStable` (the leaves occurring in the first element re-adapt their exported value to their own "
        "state) is evaluated on those tables per case, in Lean and in Python, not proved for all inputs",
        "the state set_flat() leaves (and a set() that raised half-way) is read from the real element and given to the model, which "
        "checks `shapedB` on it",
        "natives of unusual types (UserString, object with __str__ only, str / int / float / Decimal / date subclasses with their own "
        "__str__, IntEnum members, Fraction, aware time, bytes, bytearray) are opaque atoms for the model, carrying their full tagged "
        "description ('x:{json}'); the adapt-table rows for them are computed by re-building the object from that description and handing it "
        "to the real class, also when such an object is the exported .value (a date subclass / str subclass instance kept by the leaf).  They "
        "are generated at leaf positions only (the model treats atoms as non-iterable; UserString / bytes / str subclasses are iterable)",
    ]
    assumptions = [
        "MultiValue excluded (the property says so)",
        "inputs: dicts (text keys; ints / None / tuples as extra keys), lists / tuples / generators of pairs (2-item lists, 2-tuples, "
        "2-character texts; wrong arity and non-iterable items), namedtuples, repeated keys, lists / tuples / generators for sequences, "
        "texts, scalar natives, None; other iterables and dict-likes (custom classes with keys()/items()) are not generated",
        "12% of the leaf / DateYYYYMMDD values are natives of unusual but legitimate types (scalars_g6.random_exotic, mostly suiting the "
        "leaf's kind, padded with ASCII / non-ASCII whitespace; U+0085 / U+2028 / U+2029 paddings left to C04: the driver output of this "
        "check carries raw text lines); bytes / bytearray reach Date / Time / DateTime / DateYYYYMMDD leaves too (unadaptable since 6d1d953)",
        "field names of a Dict are texts, distinct (Dict.of enforces it); 'strict' policy not combined with SparseDict",
        "the element's history before the set() of the property: set() on the element, set_flat() ('_' separator, keys from the "
        "schema's flattened names), a member's own set() at any path, item assignment with native values on Dict / SparseDict / "
        "List / Array members at any path (non-negative indexes); not generated: update(), set_default(), set_by_object(), "
        "del / pop / insert / append / slices (C08-C10's subject), assignment of Element instances, negative indexes",
        "set_flat() steps and steps that raised are not run by the model: the state of the real element after them is an input of "
        "the model, checked with `shapedB` (evidence tags cur-shaped / cur-unshaped); the theorems speak about the set(x) that "
        "follows and the re-import",
        "the leaf hypothesis of `reimport` is measured, not proved: on the generated cases where set() returned True it holds for "
        "about 99% (evidence tags thm-applies / thm-hyp-fails); the cases where it fails are the KF-C03-a inputs (pruning JoinedString "
        "holding an empty member text), where the oracle reports the defect",
    ]
    rule = ("random schemas (as C01, MultiValue replaced by Array, every Dict policy, 'subset' dominant) x inputs in every form the "
            "quantifier names (dict, pair lists with list / tuple / 2-character-text items, namedtuple, generator, partial key sets, "
            "repeated keys, non-text keys, hostile shapes); about 35% of the elements have a history of 1-3 steps before that set() "
            "(set / set_flat / member set() / item assignment, with valid, unadaptable and empty inputs; then often a PARTIAL set()); "
            "12% of leaf values are natives of unusual types (UserString, subclasses with their own __str__, IntEnum, Fraction, datetime / date "
            "subclass / aware time, bytes; tags exotic-*); "
            "non-trivial = set() returned True on a container holding at least 2 leaves; distinct = canonical case JSON")
    quick_n = 25000
    thorough_n = 150000

    def corpus(self):
        S_ = lambda name, k=0: {"t": "leaf", "name": name, "opt": False, "k": k}
        kinds = [fl.LEAF_KINDS[0], fl.LEAF_KINDS[4], {"type": "Joined", "sep": ",", "prune": True, "member": fl.LEAF_KINDS[0]},
                 {"type": "DateYMD"}, {"type": "DateMember", "name": "year"}, {"type": "DateMember", "name": "month"},
                 {"type": "DateMember", "name": "day"}, {"type": "Joined", "sep": ",", "prune": False, "member": fl.LEAF_KINDS[0]}]
        D = lambda fields, name=None, mode="dense": {"t": "dict", "name": name, "opt": False, "mode": mode, "fields": fields}
        comp = lambda name: {"t": "compound", "name": name, "opt": False, "k": 3, "fields": [S_("year", 4), S_("month", 5), S_("day", 6)]}
        bool_partial = {"schema": D([S_("b", 1), S_("s", 0)]), "kinds": kinds, "value": {"d": [["s", {"s": "x"}]]}}   # fixed: Boolean None
        joined = {"schema": {"t": "joined", "name": "j", "opt": False, "k": 2, "member": S_(None, 0)},
                  "kinds": kinds, "value": [{"s": "a"}, {"s": " "}, {"s": "b"}]}      # KF-C03-a
        ab = D([S_("a"), S_("b")])
        pair_list = {"schema": ab, "kinds": kinds, "value": [[{"s": "a"}, {"s": "x"}]]}          # a list of 2-item lists
        two_char = {"schema": ab, "kinds": kinds, "value": [{"s": "ax"}]}                       # a 2-character text is a pair
        one_text = {"schema": ab, "kinds": kinds, "value": {"s": "ax"}}                         # not dict-like: False
        nt = {"schema": ab, "kinds": kinds, "value": {"nt": [["a", {"s": "x"}], ["b", {"s": "y"}]]}}
        inner = D([S_("a")], name="m")
        dup_kept = {"schema": D([inner]), "kinds": kinds,                                       # second value not dict-like:
                    "value": [{"tuple": [{"s": "m"}, {"d": [["a", {"s": "x"}]]}]}, {"s": "m7"}]}  # first state kept, flag False
        dup_reset = {"schema": D([inner, S_("z")]), "kinds": kinds,
                     "value": {"gen": [[{"s": "m"}, {"d": [["a", {"s": "x"}]]}], [{"s": "m"}, {"d": []}]]}}
        date_garbage = {"schema": D([comp("d")]), "kinds": kinds, "value": {"d": [["d", {"s": "garbage"}]]}}  # True, value None
        date_dup = {"schema": D([comp("d")]), "kinds": kinds,                                   # None keeps the members
                    "value": [[{"s": "d"}, {"date": [2020, 1, 2]}], [{"s": "d"}, {"none": 1}]]}
        noprune = {"schema": {"t": "joined", "name": "j", "opt": False, "k": 7, "member": S_(None, 0)},
                   "kinds": kinds, "value": {"s": ""}}
        int_key = {"schema": dict(ab, policy="duck"), "kinds": kinds, "value": {"kd": [[{"s": "a"}, {"s": "x"}], [{"i": 1}, {"s": "y"}]]}}
        list_key = {"schema": dict(ab, policy="off"), "kinds": kinds, "value": [[[{"s": "a"}], {"s": "x"}]]}   # unhashable key
        L = lambda member, name=None: {"t": "list", "name": name, "opt": False, "prune": False, "max": 1024, "member": member}
        sx, sy = {"s": "x"}, {"s": "y"}
        more = [
            # pair items that are a 2-key dict (unpacks into its keys) and a 2-field namedtuple (into its values)
            {"schema": ab, "kinds": kinds, "value": [{"d": [["a", sx], ["b", sy]]}, {"nt": [["p", {"s": "b"}], ["q", sy]]}]},
            # a sequence iterates a dict's keys, a namedtuple's values, a text's characters
            {"schema": L(S_(None)), "kinds": kinds, "value": {"d": [["a", sx], ["b", sy]]}},
            {"schema": L(S_(None)), "kinds": kinds, "value": {"nt": [["p", sx], ["q", sy]]}},
            {"schema": L(ab), "kinds": kinds, "value": {"s": "ab"}},
            # an unhashable key: TypeError under every policy; a sequence swallows it
            {"schema": ab, "kinds": kinds, "value": [[[sx], sx]]},
            {"schema": L(dict(ab, policy="duck")), "kinds": kinds, "value": [[[{"tuple": [[]]}, sx]]]},
            {"schema": dict(ab, policy="duck"), "kinds": kinds, "value": [[{"s": "a"}, sx], [{"tuple": [{"tuple": []}, [{"i": 1}]]}, sx]]},
            # keys that are no texts: skipped (duck / off), KeyError (subset), KeyError (strict, before the missing ones)
            {"schema": dict(ab, policy="duck"), "kinds": kinds, "value": [[{"none": 1}, sx], [{"tuple": [{"s": "a"}]}, sx], [{"s": "b"}, sy]]},
            {"schema": ab, "kinds": kinds, "value": {"kd": [[{"s": "a"}, sx], [{"none": 1}, sy]]}},
            {"schema": dict(ab, policy="strict"), "kinds": kinds, "value": {"kd": [[{"i": 3}, sy]]}},
            {"schema": dict(ab, policy="strict"), "kinds": kinds, "value": [{"s": "ax"}, {"s": "by"}, {"s": "az"}]},
            {"schema": dict(ab, policy="strict"), "kinds": kinds, "value": {"gen": [{"s": "ax"}]}},
            # an unknown key inside a list member: KeyError leaves the list; a strict member's TypeError does not
            {"schema": L(ab), "kinds": kinds, "value": [{"d": [["a", sx]]}, {"d": [["zz", sx]]}]},
            {"schema": L(dict(ab, policy="strict")), "kinds": kinds, "value": [{"d": [["a", sx]]}]},
            # wrong arity / non-iterable items; an empty tuple / generator / namedtuple is an empty mapping
            {"schema": ab, "kinds": kinds, "value": [{"tuple": [{"s": "a"}, sx, sy]}]},
            {"schema": ab, "kinds": kinds, "value": [{"tuple": [{"s": "a"}, sx]}, {"i": 5}]},
            {"schema": D([S_("a"), S_("b")], mode="sparse"), "kinds": kinds, "value": {"gen": []}},
            {"schema": D([S_("a"), S_("b")], mode="sparseReq"), "kinds": kinds, "value": {"nt": []}},
            # repeated keys on leaves: 2-character texts; a DateYYYYMMDD keeps its members on None, not on garbage
            {"schema": ab, "kinds": kinds, "value": {"tuple": [{"s": "ax"}, {"s": "ay"}]}},
            {"schema": D([comp("d")]), "kinds": kinds,
             "value": [[{"s": "d"}, {"date": [2020, 1, 2]}], [{"s": "d"}, {"none": 1}], [{"s": "d"}, {"s": "garbage"}], [{"s": "d"}, {"none": 1}]]},
            {"schema": D([comp("d")]), "kinds": kinds, "value": [[{"s": "d"}, {"date": [2020, 1, 2]}], [{"s": "d"}, {"i": 7}]]},
            # repeated key on a sparse member that is a list, and on a nested dict that is reset by the second value
            {"schema": D([L(S_(None), "l"), S_("z")], mode="sparse"), "kinds": kinds,
             "value": [[{"s": "l"}, [sx, sy]], [{"s": "l"}, {"i": 3}], [{"s": "z"}, sx]]},
            {"schema": D([D([S_("a"), comp("d")], name="m")]), "kinds": kinds,
             "value": [[{"s": "m"}, {"d": [["d", {"date": [2020, 1, 2]}]]}], [{"s": "m"}, [[{"s": "d"}, {"none": 1}]]]]},
            # natives of every shape handed to leaf-likes
            {"schema": D([S_("a"), {"t": "joined", "name": "j", "opt": False, "k": 7, "member": S_(None, 0)}, comp("d")]), "kinds": kinds,
             "value": [[{"s": "a"}, {"tuple": [sx]}], [{"s": "j"}, {"tuple": [sx, {"s": ""}]}], [{"s": "d"}, {"nt": [["p", sx]]}]]},
        ]
        # ---- elements with a history before the set() the property talks about
        ik = [fl.LEAF_KINDS[2], fl.LEAF_KINDS[0], {"type": "DateYMD"}, {"type": "DateMember", "name": "year"},
              {"type": "DateMember", "name": "month"}, {"type": "DateMember", "name": "day"}]
        I = lambda name: S_(name, 0)
        point = D([I("x"), I("y")], name="p")
        A = lambda member, name=None: {"t": "array", "name": name, "opt": False, "prune": False, "multi": False, "member": member}
        icomp = lambda name: {"t": "compound", "name": name, "opt": False, "k": 2, "fields": [S_("year", 3), S_("month", 4), S_("day", 5)]}
        history = [
            # a member holding an unadaptable text (value None, u 'abc'), then a partial set() under 'subset': True, and
            # `_reset()` must have replaced the stale member (flat input; item assignment; the member's own set())
            {"schema": point, "kinds": ik, "pre": [{"op": "set_flat", "pairs": [["p_x", "abc"], ["p_y", "3"]]}],
             "value": {"d": [["y", {"i": 2}]]}},
            {"schema": point, "kinds": ik, "pre": [{"op": "setitem", "path": [], "key": "x", "x": {"s": "n/a"}}],
             "value": [{"tuple": [{"s": "y"}, {"i": 7}]}]},
            {"schema": point, "kinds": ik, "pre": [{"op": "child_set", "path": ["x"], "x": {"s": "1e3"}}],
             "value": {"d": [["y", {"i": 5}]]}},
            {"schema": D([S_("name", 1), point]), "kinds": ik,
             "pre": [{"op": "set_flat", "pairs": [["name", "n"], ["p_x", "1e3"], ["p_y", "4"]]}], "value": {"d": [["name", {"s": "m"}]]}},
            # the same on a SparseDict (the member must be gone), with an empty set(), after an earlier full set()
            {"schema": D([I("x"), I("y")], name="p", mode="sparse"), "kinds": ik,
             "pre": [{"op": "setitem", "path": [], "key": "x", "x": {"s": "abc"}}], "value": {"d": [["y", {"i": 2}]]}},
            {"schema": point, "kinds": ik, "pre": [{"op": "child_set", "path": ["x"], "x": {"s": "abc"}}], "value": {"d": []}},
            {"schema": point, "kinds": ik, "pre": [{"op": "set", "x": {"d": [["x", {"i": 1}], ["y", {"i": 2}]]}},
                                                    {"op": "child_set", "path": ["x"], "x": {"s": "abc"}}], "value": {"d": [["y", {"i": 9}]]}},
            # stale members of a list / an array: set() empties the sequence first
            {"schema": L(I(None), "l"), "kinds": ik, "pre": [{"op": "set", "x": [{"i": 1}, {"i": 2}]},
                                                             {"op": "setitem", "path": [], "key": 1, "x": {"s": "abc"}}], "value": [{"i": 5}]},
            {"schema": A(I(None), "a"), "kinds": ik, "pre": [{"op": "set", "x": [{"i": 1}, {"i": 2}]},
                                                             {"op": "setitem", "path": [], "key": 0, "x": {"s": "abc"}}], "value": []},
            {"schema": D([L(point, "l")]), "kinds": ik,
             "pre": [{"op": "set_flat", "pairs": [["l_0_p_x", "abc"], ["l_2_p_y", "3"]]}, {"op": "child_set", "path": ["l", 1, "x"], "x": {"s": "zzz"}}],
             "value": {"d": [["l", [{"d": [["y", {"i": 1}]]}]]]}},
            # steps that raise: a member that is not there, an index out of range, an unknown key, a set() that raises
            # half-way (the state it leaves is taken from the real element)
            {"schema": D([I("x"), I("y")], mode="sparse"), "kinds": ik, "pre": [{"op": "child_set", "path": ["x"], "x": {"i": 1}}],
             "value": {"d": [["y", {"i": 2}]]}},
            {"schema": L(I(None), "l"), "kinds": ik, "pre": [{"op": "setitem", "path": [], "key": 2, "x": {"i": 1}},
                                                             {"op": "child_set", "path": [0], "x": {"i": 1}}], "value": [{"i": 5}]},
            {"schema": A(I(None), "a"), "kinds": ik, "pre": [{"op": "setitem", "path": [], "key": 0, "x": {"i": 1}}], "value": [{"i": 5}]},
            {"schema": point, "kinds": ik, "pre": [{"op": "setitem", "path": [], "key": "zz", "x": {"i": 1}}], "value": {"d": []}},
            {"schema": D([point, I("z")]), "kinds": ik,
             "pre": [{"op": "child_set", "path": ["p", "x"], "x": {"s": "abc"}},
                     {"op": "set", "x": [[{"s": "z"}, {"i": 1}], [{"s": "p"}, {"d": [["x", {"i": 3}], ["q", {"i": 1}]]}]]}],
             "value": {"d": [["z", {"i": 2}]]}},
            # a set() that is no mapping keeps the history (False: outside the property); a leaf-like set in a non-fresh state
            {"schema": point, "kinds": ik, "pre": [{"op": "child_set", "path": ["x"], "x": {"s": "abc"}}], "value": {"i": 7}},
            {"schema": D([icomp("d")]), "kinds": ik, "pre": [{"op": "child_set", "path": ["d"], "x": {"date": [2020, 1, 2]}},
                                                            {"op": "setitem", "path": [], "key": "d", "x": {"none": 1}}], "value": {"d": []}},
            {"schema": icomp("d"), "kinds": ik, "pre": [{"op": "set", "x": {"date": [2020, 1, 2]}}], "value": {"none": 1}},
            # item assignment on a SparseDict: a member that is not there is built, one that is there is set
            {"schema": D([point, I("z")], mode="sparseReq"), "kinds": ik,
             "pre": [{"op": "setitem", "path": [], "key": "p", "x": {"d": [["x", {"s": "abc"}]]}},
                     {"op": "setitem", "path": ["p"], "key": "y", "x": {"s": "n/a"}}], "value": {"d": [["z", {"i": 1}]]}},
        ]
        # ---- natives of unusual but legitimate types (h15); kinds: 0 String(strip), 1 Boolean, 3 DateYMD
        X = lambda o: {"x": S.py_to_nat(o)}
        xk = kinds + [fl.LEAF_KINDS[2], fl.LEAF_KINDS[6], fl.LEAF_KINDS[7], fl.LEAF_KINDS[11], fl.LEAF_KINDS[12], fl.LEAF_KINDS[5],
                      fl.LEAF_KINDS[1]]      # 8 Integer, 9 Date, 10 Time, 11 Float, 12 Decimal, 13 Enum, 14 String(no strip)
        tz = datetime.timezone(datetime.timedelta(minutes=60))
        import fractions
        exotic = [
            # seeded C03-string-adapt-nonstr-unstripped: text obtained through str() must be stripped like any other text
            {"schema": S_("name"), "kinds": xk, "value": X(collections.UserString("  Biff  "))},
            {"schema": S_("name"), "kinds": xk, "value": X(S.Other("Hello, world\n", True))},
            {"schema": D([S_("name"), L(S_(None), "tags")]), "kinds": xk,
             "value": {"d": [["name", X(collections.UserString(" Biff "))], ["tags", [{"s": "a"}, X(collections.UserString("b\t"))]]]}},
            {"schema": D([S_("e", 13), S_("raw", 14)]), "kinds": xk,
             "value": {"d": [["e", X(collections.UserString("\u3000a "))], ["raw", X(S.IntSub(5, " five "))]]}},
            {"schema": S_("name"), "kinds": xk, "value": X(S.TextSub(" x\u00a0", "shown"))},
            {"schema": S_("name"), "kinds": xk, "value": X(b" raw ")},
            # numbers: subclass instances, IntEnum members, Fractions, text-likes
            {"schema": D([S_("i", 8), S_("f", 11), S_("d", 12), S_("b", 1)]), "kinds": xk,
             "value": {"d": [["i", X(S.IntSub(5, " five "))], ["f", X(S.FloatSub(1.5, "x"))], ["d", X(S.DecSub("1.50", " 1.5 "))],
                             ["b", X(S.int_enum(0))]]}},
            {"schema": L(S_(None, 8)), "kinds": xk,
             "value": [X(S.int_enum(7)), X(fractions.Fraction(7, 2)), X(collections.UserString(" 12 ")), X(b" 12 "), {"b": True}]},
            # temporals: a datetime / a date subclass handed to a Date and to a DateYYYYMMDD; an aware time
            {"schema": D([S_("when", 9), S_("at", 10), comp("d")]), "kinds": xk,
             "value": {"d": [["when", {"dt": [2020, 1, 2, 3, 4, 5, 6]}], ["at", X(datetime.time(1, 2, 3, tzinfo=tz))],
                             ["d", {"dt": [2020, 1, 2, 3, 4, 5, 0]}]]}},
            {"schema": D([S_("when", 9), comp("d")]), "kinds": xk,
             "value": [[{"s": "when"}, X(S.DateSub(2020, 1, 2, " the day "))], [{"s": "d"}, X(S.DateSub(2020, 2, 29, "x"))]]},
            # fixed 6d1d953 (KF-C04-e): bytes handed to temporal leaves are rejected (False), they raised TypeError before
            {"schema": D([S_("when", 9), S_("at", 10), comp("d")]), "kinds": xk,
             "value": {"d": [["when", X(b"2020-01-02")], ["at", X(bytearray(b"03:04:05"))], ["d", X(b"2020-01-02")]]}},
        ]
        return [bool_partial, joined, pair_list, two_char, one_text, nt, dup_kept, dup_reset, date_garbage, date_dup, noprune,
                int_key, list_key] + more + history + exotic

    def generate(self, rng, n, tier):
        for _ in range(n):
            kinds = []
            schema = strip_multi(fl.gen_schema(rng, "_", rng.choice([1, 2, 2, 3, 3]), kinds))
            for s in fl.walk_schema(schema):
                if s["t"] == "dict":
                    # the property quantifies over the default 'subset' policy; the other policies are
                    # exercised too, except 'strict' on SparseDicts (a blank sparse member can never
                    # satisfy it, so its own exported value is rejected: outside the quantifier)
                    s["policy"] = rng.choice(["subset"] * 6 + ["duck", "off"] + (["strict"] if s["mode"] == "dense" else []))
            case = {"schema": schema, "kinds": kinds, "value": gen_value3(rng, schema, kinds, hostile=0.1)}
            if rng.random() < 0.35:
                # the element has a history before the set() the property talks about
                case["pre"] = gen_pre(rng, schema, kinds)
                if rng.random() < 0.5 and schema["t"] == "dict":
                    # a partial final set(): members the history touched are not named again
                    case["value"] = gen_value3(rng, dict(schema, fields=[f for f in schema["fields"] if rng.random() < 0.5]),
                                               kinds, hostile=0.05)
            yield case

    def _history(self, case, record=False):
        """A fresh element taken through the case's pre steps (its history).  With record: what every step
        showed, the state after every step, adapt-table rows of leaf-likes set in a non-fresh state."""
        schema = case["schema"]
        cls = fl.build_class(schema, case["kinds"])
        el = cls()
        shown, states, entries = [], [], []
        for step in case.get("pre") or []:
            out = apply_step(el, schema, step, entries if record else None)
            if record:
                state = extract3(el, schema)
                if "flag" in out:
                    out["elem"] = state
                elif "adopted" in out:
                    out["shaped"] = shaped_py(to_c03_schema(schema), state)
                shown.append(out)
                states.append(state)
        return cls, el, shown, states, entries

    def _first(self, case, record=False):
        """The element after its history, then the set(x) the property talks about."""
        schema = case["schema"]
        cls, el, shown, states, entries = self._history(case, record)
        x = decode_value(case["value"])
        info = {"pre": shown, "states": states, "entries": entries}
        if record:
            info["cur"] = extract3(el, schema)
            if schema["t"] in LEAFLIKE:
                before = leaf_state(el)
        try:
            flag = el.set(x)
        except (KeyError, TypeError) as e:
            return cls, None, type(e).__name__, info
        if record and schema["t"] in LEAFLIKE:
            entries.append([schema["k"], before, encode_py(decode_value(case["value"], gens=False)), bool(flag)] + leaf_state(el))
        return cls, el, bool(flag), info

    def run_impl(self, case):
        schema = case["schema"]
        cls, el, flag, info = self._first(case, record=True)
        xn = encode_py(decode_value(case["value"], gens=False))
        natives = subnatives(xn, [None])
        chains = dup_chains(xn)
        for step in case.get("pre") or []:
            if "x" in step:
                sn = encode_py(decode_value(step["x"], gens=False))
                subnatives(sn, natives)
                chains.extend(c for c in dup_chains(sn) if c not in chains)
        s3 = to_c03_schema(schema)
        pre_model = [model_step(schema, st, out, state) for st, out, state in zip(case.get("pre") or [], info["pre"], info["states"])]
        common = {"pre": info["pre"], "cur_shaped": shaped_py(s3, info["cur"]), "_x": xn, "_pre": pre_model, "_cur": info["cur"]}

        def env_of(natives):
            env = make_env3(schema, case["kinds"], natives, chains)
            bstates = {b[0]: b[1:] for b in env["blank"]}
            for e in info["entries"]:
                k, before, n = e[0], e[1], e[2]
                if before != bstates.get(k) and not any(r[0] == k and r[1] == before and r[2] == n for r in env["adapt2"]):
                    env["adapt2"].append(e)
            return env
        if el is None:
            return dict(common, first={"raise": flag}, again=None, hyp_holds=None, hyp_true=None, _env=env_of(natives))
        first = {"flag": flag, "elem": extract3(el, schema), "value": encode_py(el.value)}
        el2 = cls()
        try:
            flag2 = el2.set(el.value)
            again = {"flag": bool(flag2), "elem": extract3(el2, schema), "value": encode_py(el2.value)}
        except (KeyError, TypeError) as e:
            again = {"raise": type(e).__name__}
        natives = subnatives(first["value"], natives)
        env = env_of(natives)
        if case.get("pre"):
            # does the history show in what set(x) built?  (the same set(x) on a fresh element, for the tags)
            fresh = cls()
            try:
                fresh.set(decode_value(case["value"]))
                common["_history_shows"] = extract3(fresh, schema) != first["elem"]
            except (KeyError, TypeError):
                common["_history_shows"] = True
        return dict(common, first=first, again=again, hyp_holds=hyp_holds(s3, first["elem"], env, False),
                    hyp_true=hyp_holds(s3, first["elem"], env, True), _env=env)

    def model_input(self, case, obs):
        obs = obs or {}
        return {"schema": to_c03_schema(case["schema"]), "x": obs.get("_x"), "pre": obs.get("_pre") or [],
                "env": obs.get("_env") or {"adapt": [], "adapt2": [], "blank": []}}

    def oracle(self, case):
        schema = case["schema"]
        cls, el, flag, _ = self._first(case)
        if el is None or flag is not True:
            return []
        fails = []
        el2 = cls()
        try:
            flag2 = el2.set(el.value)
        except Exception as e:
            return [{"clause": "reimport-raises", "observed": "%s: %s" % (type(e).__name__, str(e)[:120]), "value": encode_py(el.value)}]
        v1, v2 = encode_py(el.value), encode_py(el2.value)
        if v1 != v2:
            fails.append({"clause": "value-equal", "expected": v1, "observed": v2})
        if el.u != el2.u:
            fails.append({"clause": "u-equal", "expected": el.u, "observed": el2.u})
        if not has_nan(v1) and not (el2 == el):
            fails.append({"clause": "eq", "expected": v1, "observed": v2})
        if el.flatten() != el2.flatten():
            fails.append({"clause": "flatten-equal", "expected": [list(p) for p in el.flatten()],
                          "observed": [list(p) for p in el2.flatten()]})
        return fails

    def classify(self, case, failure):
        """KF-C03-a predicts: the re-imported element equals the first one everywhere except at pruning
        JoinedStrings holding a member with the text '', and there it holds what set() makes of the exported
        joined value.  Any other difference (or an exception) is not that finding."""
        if failure.get("clause") not in ("value-equal", "u-equal", "eq", "flatten-equal"):
            return None
        cls, el, flag, _ = self._first(case)
        if el is None:
            return None
        el2 = cls()
        try:
            el2.set(el.value)
        except Exception:
            return None
        def visible(root):
            # a JoinedString is compared as a whole: leave out everything below one
            out = []
            for e, s in fl.walk_elements(root, case["schema"]):
                if not any(getattr(p, "children_flattenable", True) is False and isinstance(p, list) for p in e.parents):
                    out.append((e, s))
            return out
        a, b = visible(el), visible(el2)
        if len(a) != len(b):
            return None
        offending = 0
        skip_below = []
        for (e, s), (e2, s2) in zip(a, b):
            if s is not s2:
                return None
            if s["t"] == "joined":
                if e.prune_empty and any(m.u == "" for m in list.__iter__(e)):
                    probe = type(e)()
                    probe.set(e.value)
                    if e2.u != probe.u or [m.u for m in list.__iter__(e2)] != [m.u for m in list.__iter__(probe)]:
                        return None
                    offending += 1
                    skip_below.append(e)
                    continue
                if e.u != e2.u:
                    return None
                skip_below.append(e)
            elif s["t"] == "leaf":
                if e.u != e2.u or encode_py(e.value) != encode_py(e2.value):
                    return None
        return "KF-C03-a" if offending else None

    def nontrivial(self, case, obs):
        f = obs.get("first") or {}
        if f.get("flag") is not True:
            return False
        return len(subnatives(f.get("value"), [])) >= 3

    def tags(self, case, obs):
        f = obs.get("first") or {}
        t = ["first=" + ("raise-" + f["raise"] if "raise" in f else str(f.get("flag")))]
        a = obs.get("again")
        if a is not None:
            t.append("again=" + ("raise-" + a["raise"] if "raise" in a else str(a.get("flag"))))
        if f.get("flag") is True:
            # does the Lean theorem speak about this case?  (its premise: set() returned True; its hypothesis:
            # leafStable, evaluated on the real adapt table)
            t.append("thm-applies" if obs.get("hyp_holds") and obs.get("cur_shaped") else "thm-hyp-fails")
            t.append("thm-true-applies" if obs.get("hyp_true") else "thm-true-hyp-fails")
            if self.nontrivial(case, obs):
                t.append("nontrivial-thm-applies" if obs.get("hyp_holds") else "nontrivial-thm-hyp-fails")
        else:
            t.append("thm-premise-not-met")
        for s in fl.walk_schema(case["schema"]):
            t.append("has-" + s["t"] + ("-" + s.get("policy", "") if s["t"] == "dict" else ""))
        t.extend(sorted(value_forms(case["value"], set())))
        ex = exotic_tags(case["value"], set())
        for st in case.get("pre") or []:
            if "x" in st:
                exotic_tags(st["x"], ex)
        t.extend(sorted(ex))
        if ex:
            t.append("exotic-any")
            if f.get("flag") is True:
                t.append("exotic-any+first=True")
        if dup_chains(obs.get("_x")):
            t.append("repeated-key")
        if (obs.get("_env") or {}).get("adapt2"):
            t.append("leaf-set-twice")
        pre = case.get("pre") or []
        t.append("pre=%d" % len(pre))
        if pre:
            for step, out in zip(pre, obs.get("pre") or []):
                t.append("pre-op-" + step["op"])
                if "raise" in out:
                    t.append("pre-raise-" + out["raise"])
                    t.append("pre-%s-raise" % step["op"])
            cur = obs.get("_cur") or {}
            blank_cur = (obs.get("_pre") is not None and cur == self._blank_state(case))
            t.append("cur-blank" if blank_cur else "cur-nonblank")
            if has_unadapted_leaf(cur):
                t.append("cur-has-unadapted-leaf")
            t.append("cur-shaped" if obs.get("cur_shaped") else "cur-unshaped")
            if f.get("flag") is True:
                t.append("pre+first=True")
                if not blank_cur:
                    t.append("nonblank-cur+first=True")
                if has_unadapted_leaf(cur):
                    t.append("unadapted-leaf-in-cur+first=True")
                if obs.get("_history_shows"):
                    t.append("history-shows+first=True")
        return list(dict.fromkeys(t))

    def _blank_state(self, case):
        return extract3(fl.build_class(case["schema"], case["kinds"])(), case["schema"])

    def shrink_candidates(self, case):
        for c in self._shrink_candidates(case):
            # steps that no longer address anything in a shrunk schema are dropped with it
            if c.get("pre"):
                c["pre"] = [st for st in c["pre"] if step_ok(c["schema"], st)]
            if "pre" in c and not c["pre"]:
                del c["pre"]
            yield c

    def _shrink_candidates(self, case):
        pre = case.get("pre") or []
        if pre:
            c = copy.deepcopy(case)
            del c["pre"]
            yield c
        for i in range(len(pre)):
            c = copy.deepcopy(case)
            c["pre"] = pre[:i] + pre[i + 1:]
            yield c
        for i, st in enumerate(pre):
            if st["op"] == "set_flat":
                for j in range(len(st["pairs"])):
                    c = copy.deepcopy(case)
                    c["pre"][i]["pairs"] = st["pairs"][:j] + st["pairs"][j + 1:]
                    yield c
                for j, (k, v) in enumerate(st["pairs"]):
                    if len(v) > 3:
                        c = copy.deepcopy(case)
                        c["pre"][i]["pairs"][j][1] = v[:3]
                        yield c
            else:
                pv = plain_value(st["x"])
                if pv != st["x"]:
                    c = copy.deepcopy(case)
                    c["pre"][i]["x"] = pv
                    yield c
                if isinstance(st["x"], dict) and "d" in st["x"]:
                    for j in range(len(st["x"]["d"])):
                        c = copy.deepcopy(case)
                        c["pre"][i]["x"] = {"d": st["x"]["d"][:j] + st["x"]["d"][j + 1:]}
                        yield c
                elif isinstance(st["x"], list):
                    for j in range(len(st["x"])):
                        c = copy.deepcopy(case)
                        c["pre"][i]["x"] = st["x"][:j] + st["x"][j + 1:]
                        yield c
        pv = plain_value(case["value"])
        if pv != case["value"]:
            c = copy.deepcopy(case)
            c["value"] = pv
            yield c
        v = case["value"]
        for tag in (None, "tuple", "gen"):
            items = v if (tag is None and isinstance(v, list)) else (v.get(tag) if isinstance(v, dict) and tag else None)
            if isinstance(items, list) and case["schema"]["t"] == "dict":
                for i in range(len(items)):
                    c = copy.deepcopy(case)
                    rest = items[:i] + items[i + 1:]
                    c["value"] = rest if tag is None else {tag: rest}
                    yield c
        yield from _shrink_schema_value(case)


PROP = C03()
