"""C03 — exported native value re-imports to an equal element."""
import copy
import datetime
import decimal
import math

from harness import flatlib as fl
from harness.core import Property
from harness.props.c07 import _shrink_schema_value


# ------------------------------------------------------------------ natives <-> driver JSON

def encode_py(o):
    if o is None:
        return None
    if isinstance(o, str):
        return {"s": o}
    if isinstance(o, bool):
        return {"a": "b:%s" % o}
    if isinstance(o, int):
        return {"a": "i:%d" % o}
    if isinstance(o, float):
        return {"a": "f:%s" % o.hex()}
    if isinstance(o, decimal.Decimal):
        return {"a": "dec:%s" % o}
    if isinstance(o, datetime.datetime):
        return {"a": "dt:%d,%d,%d,%d,%d,%d,%d" % (o.year, o.month, o.day, o.hour, o.minute, o.second, o.microsecond)}
    if isinstance(o, datetime.date):
        return {"a": "date:%d,%d,%d" % (o.year, o.month, o.day)}
    if isinstance(o, datetime.time):
        return {"a": "time:%d,%d,%d,%d" % (o.hour, o.minute, o.second, o.microsecond)}
    if isinstance(o, dict):
        return {"d": [[k, encode_py(v)] for k, v in o.items()]}
    if isinstance(o, (list, tuple)):
        if o and all(isinstance(x, tuple) and len(x) == 2 and isinstance(x[0], str) for x in o):
            return {"pairs": [[k, encode_py(v)] for k, v in o]}
        return [encode_py(x) for x in o]
    return {"junk": 1}


def decode(n):
    if n is None:
        return None
    if isinstance(n, list):
        return [decode(x) for x in n]
    if "s" in n:
        return n["s"]
    if "d" in n:
        return {k: decode(v) for k, v in n["d"]}
    if "pairs" in n:
        return [(k, decode(v)) for k, v in n["pairs"]]
    if "junk" in n:
        return 3.5j  # a complex number: not iterable, not dict-like, no scalar type takes it
    tag, _, body = n["a"].partition(":")
    if tag == "i":
        return int(body)
    if tag == "b":
        return body == "True"
    if tag == "f":
        return float.fromhex(body)
    if tag == "dec":
        return decimal.Decimal(body)
    nums = [int(x) for x in body.split(",")]
    if tag == "date":
        return datetime.date(*nums)
    if tag == "time":
        return datetime.time(*nums)
    if tag == "dt":
        return datetime.datetime(*nums)
    raise ValueError(n)


def subnatives(n, acc):
    acc.append(n)
    if isinstance(n, dict) and "s" in n:
        # a sequence iterates a text character by character
        for c in dict.fromkeys(n["s"][:24]):
            acc.append({"s": c})
    if isinstance(n, list):
        for x in n:
            subnatives(x, acc)
    elif isinstance(n, dict) and ("d" in n or "pairs" in n):
        for _, v in n.get("d", n.get("pairs")):
            subnatives(v, acc)
    return acc


def has_nan(n):
    if isinstance(n, list):
        return any(has_nan(x) for x in n)
    if isinstance(n, dict):
        if "a" in n:
            return n["a"] in ("f:nan", "dec:NaN", "dec:sNaN") or n["a"].startswith("f:nan")
        if "d" in n or "pairs" in n:
            return any(has_nan(v) for _, v in n.get("d", n.get("pairs")))
    return False


# ------------------------------------------------------------------ schema conversion

def to_c03_schema(s, rng=None):
    t = s["t"]
    if t in ("leaf", "joined", "compound"):
        return {"t": "leaf", "name": s["name"], "opt": bool(s.get("opt")), "k": s["k"]}
    if t == "dict":
        pol = s.get("policy") or "subset"
        return {"t": "dict", "name": s["name"], "opt": bool(s.get("opt")), "mode": s["mode"], "policy": pol,
                "fields": [to_c03_schema(f) for f in s["fields"]]}
    return {"t": "seq", "name": s["name"], "opt": bool(s.get("opt")), "member": to_c03_schema(s["member"])}


def parts_of(el):
    import flatland
    if isinstance(el, flatland.JoinedString):
        return [m.u for m in list.__iter__(el)]
    if isinstance(el, flatland.DateYYYYMMDD):
        return [el[f.name].u for f in el.field_schema]
    return []


def extract3(el, s):
    t = s["t"]
    if t in ("leaf", "joined", "compound"):
        return {"v": encode_py(el.value), "u": el.u, "parts": parts_of(el)}
    if t == "dict":
        fields = {f["name"]: f for f in s["fields"]}
        return {"dict": [[k, extract3(v, fields[k])] for k, v in dict.items(el) if k in fields]}
    if t == "list":
        return {"seq": [extract3(m, s["member"]) for m in el]}
    return {"seq": [extract3(m, s["member"]) for m in list.__iter__(el)]}


def make_env3(schema, kinds, natives):
    """adapt table for every leaf-like kind of the schema x every native that may reach it."""
    ks = sorted({s["k"] for s in fl.walk_schema(schema) if s["t"] in ("leaf", "joined", "compound")})
    adapt, blank = [], []
    seen = []
    for n in natives:
        if n not in seen:
            seen.append(n)
    for k in ks:
        cls = fl.kind_class(kinds[k])
        b = cls()
        blank.append([k, encode_py(b.value), b.u, parts_of(b)])
        todo = list(seen)
        done = []
        while todo:
            n = todo.pop(0)
            if n in done:
                continue
            done.append(n)
            el = cls()
            try:
                flag = el.set(decode(n))
            except Exception as e:
                adapt.append([k, n, False, {"junk": 1}, "!raise:" + type(e).__name__, []])
                continue
            v = encode_py(el.value)
            adapt.append([k, n, bool(flag), v, el.u, parts_of(el)])
            if v not in done and len(done) < 400:
                todo.append(v)
    return {"adapt": adapt, "blank": blank}


def strip_multi(s):
    for x in fl.walk_schema(s):
        if x["t"] == "array":
            x["multi"] = False
    return s


class C03(Property):
    id = "C03"
    title = "Exported native value re-imports to an equal element"
    proof_module = "Proofs.C03"
    level_text = 'Lean 4 theorem `reimport`: if set(x) returned True then set(e.value) on a fresh element returns True and rebuilds the same state (Dict/SparseDict under every policy, List/Array, leaf-likes), under leaf idempotence (C04/C18); negation witness without it.'
    level_note = "Trusted: Lean kernel + 3 standard axioms; model Flatland/C03.lean tied by correspondence; what scalars/JoinedString/DateYYYYMMDD make of a native is an input table computed from the real classes in isolation; MultiValue excluded by the property; 'strict' policy on SparseDicts outside the quantifier."
    technique = 'Lean 4 proof (growth invariant of Dict.set + rebuild lemma); differential correspondence; Python oracle'
    theorems = [
        "Flatland.C03.Proofs.reimport",
        "Flatland.C03.Proofs.reimport_value",
        "Flatland.C03.Proofs.stable_blank",
        "Flatland.C03.Proofs.rebuild",
        "Flatland.C03.Proofs.grown_setPairs",
        "Flatland.C03.Proofs.reimport_needs_leafIdem",
    ]
    trusted_base = [
        "what a scalar / JoinedString / DateYYYYMMDD makes of a native input is an input of the model (adapt tables computed from the "
        "real classes in isolation: C04/C18's subject)",
    ]
    assumptions = ["MultiValue excluded (the property says so); inputs are dicts, pair lists, lists, texts, scalars natives, None"]
    rule = ("random schemas (as C01, MultiValue replaced by Array, every Dict policy) x native inputs (valid, partial dicts, pair lists, "
            "hostile shapes); non-trivial = set() returned True on a container holding at least 2 leaves; distinct = canonical case JSON")
    quick_n = 2500
    thorough_n = 60000

    def corpus(self):
        S = lambda name, k=0: {"t": "leaf", "name": name, "opt": False, "k": k}
        kinds = [fl.LEAF_KINDS[0], fl.LEAF_KINDS[4], {"type": "Joined", "sep": ",", "prune": True, "member": fl.LEAF_KINDS[0]}]
        bool_partial = {"schema": {"t": "dict", "name": None, "opt": False, "mode": "dense", "fields": [S("b", 1), S("s", 0)]},
                        "kinds": kinds, "value": {"d": [["s", {"s": "x"}]]}}          # fixed: Boolean None
        joined = {"schema": {"t": "joined", "name": "j", "opt": False, "k": 2, "member": S(None, 0)},
                  "kinds": kinds, "value": [{"s": "a"}, {"s": " "}, {"s": "b"}]}      # KF-C03-a
        return [bool_partial, joined]

    def generate(self, rng, n, tier):
        for _ in range(n):
            kinds = []
            schema = strip_multi(fl.gen_schema(rng, "_", rng.choice([1, 2, 2, 3, 3]), kinds))
            for s in fl.walk_schema(schema):
                if s["t"] == "dict":
                    # the property quantifies over the default 'subset' policy; the other policies are
                    # exercised too, except 'strict' on SparseDicts (a blank sparse member can never
                    # satisfy it, so its own exported value is rejected: outside the quantifier)
                    s["policy"] = rng.choice(["subset"] * 6 + ["duck", "off"] + (["strict"] if s["mode"] == "dense" else []))
            yield {"schema": schema, "kinds": kinds, "value": fl.gen_value(rng, schema, kinds, hostile=0.1)}

    def _first(self, case):
        cls = fl.build_class(case["schema"], case["kinds"])
        el = cls()
        x = fl.decode_native(case["value"])
        try:
            flag = el.set(x)
        except (KeyError, TypeError) as e:
            return cls, None, type(e).__name__, x
        return cls, el, bool(flag), x

    def run_impl(self, case):
        schema = case["schema"]
        cls, el, flag, x = self._first(case)
        xn = encode_py(x)
        natives = subnatives(xn, [None])
        if el is None:
            return {"first": {"raise": flag}, "again": None, "_x": xn, "_env": make_env3(schema, case["kinds"], natives)}
        first = {"flag": flag, "elem": extract3(el, schema), "value": encode_py(el.value)}
        el2 = cls()
        try:
            flag2 = el2.set(el.value)
            again = {"flag": bool(flag2), "elem": extract3(el2, schema), "value": encode_py(el2.value)}
        except (KeyError, TypeError) as e:
            again = {"raise": type(e).__name__}
        natives = subnatives(first["value"], natives)
        return {"first": first, "again": again, "_x": xn, "_env": make_env3(schema, case["kinds"], natives)}

    def model_input(self, case, obs):
        return {"schema": to_c03_schema(case["schema"]), "x": (obs or {}).get("_x"), "env": (obs or {}).get("_env") or {"adapt": [], "blank": []}}

    def oracle(self, case):
        schema = case["schema"]
        cls, el, flag, x = self._first(case)
        if el is None or flag is not True:
            return []
        fails = []
        el2 = cls()
        try:
            flag2 = el2.set(el.value)
        except Exception as e:
            return [{"clause": "reimport-raises", "observed": "%s: %s" % (type(e).__name__, str(e)[:120]), "value": encode_py(el.value)}]
        v1, v2 = encode_py(el.value), encode_py(el2.value)
        if v1 != v2:
            fails.append({"clause": "value-equal", "expected": v1, "observed": v2})
        if el.u != el2.u:
            fails.append({"clause": "u-equal", "expected": el.u, "observed": el2.u})
        if not has_nan(v1) and not (el2 == el):
            fails.append({"clause": "eq", "expected": v1, "observed": v2})
        if el.flatten() != el2.flatten():
            fails.append({"clause": "flatten-equal", "expected": [list(p) for p in el.flatten()],
                          "observed": [list(p) for p in el2.flatten()]})
        return fails

    def classify(self, case, failure):
        """KF-C03-a predicts: the re-imported element equals the first one everywhere except at pruning
        JoinedStrings holding a member with the text '', and there it holds what set() makes of the exported
        joined value.  Any other difference (or an exception) is not that finding."""
        if failure.get("clause") not in ("value-equal", "u-equal", "eq", "flatten-equal"):
            return None
        cls, el, flag, x = self._first(case)
        if el is None:
            return None
        el2 = cls()
        try:
            el2.set(el.value)
        except Exception:
            return None
        def visible(root):
            # a JoinedString is compared as a whole: leave out everything below one
            out = []
            for e, s in fl.walk_elements(root, case["schema"]):
                if not any(getattr(p, "children_flattenable", True) is False and isinstance(p, list) for p in e.parents):
                    out.append((e, s))
            return out
        a, b = visible(el), visible(el2)
        if len(a) != len(b):
            return None
        offending = 0
        skip_below = []
        for (e, s), (e2, s2) in zip(a, b):
            if s is not s2:
                return None
            if s["t"] == "joined":
                if e.prune_empty and any(m.u == "" for m in list.__iter__(e)):
                    probe = type(e)()
                    probe.set(e.value)
                    if e2.u != probe.u or [m.u for m in list.__iter__(e2)] != [m.u for m in list.__iter__(probe)]:
                        return None
                    offending += 1
                    skip_below.append(e)
                    continue
                if e.u != e2.u:
                    return None
                skip_below.append(e)
            elif s["t"] == "leaf":
                if e.u != e2.u or encode_py(e.value) != encode_py(e2.value):
                    return None
        return "KF-C03-a" if offending else None

    def nontrivial(self, case, obs):
        f = obs.get("first") or {}
        if f.get("flag") is not True:
            return False
        return len(subnatives(f.get("value"), [])) >= 3

    def tags(self, case, obs):
        f = obs.get("first") or {}
        t = ["first=" + ("raise-" + f["raise"] if "raise" in f else str(f.get("flag")))]
        a = obs.get("again")
        if a is not None:
            t.append("again=" + ("raise-" + a["raise"] if "raise" in a else str(a.get("flag"))))
        for s in fl.walk_schema(case["schema"]):
            t.append("has-" + s["t"] + ("-" + s.get("policy", "") if s["t"] == "dict" else ""))
        return list(dict.fromkeys(t))

    def shrink_candidates(self, case):
        yield from _shrink_schema_value(case)


PROP = C03()
