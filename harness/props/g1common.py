"""Shared machinery of the C08 / C09 / C10 checks: schema construction from the JSON case,
the history executor on the REAL flatland (public API only), identity labels, the pool of
detached elements, value canonicalisation, and the generators of schemas / values / ops.

A case is {"schema": S, "init": {"route", "value"}, "ops": [{"t", "s": seq-op, "m": map-op}]}.
The executor and the Lean runner (lean/Flatland/TreeJson.lean) follow the same protocol:
  * targets are `containers[t % len(containers)]`, containers = reachable Sequence/Mapping
    elements in queue (breadth-first) order;
  * Element arguments are built by the case ("new") or taken from the pool of elements that
    left the tree in an earlier call ("pool");
  * labels are assigned in observation order (reachable elements in queue order, then the objects
    on their `.parent` chains), so they depend on identity behaviour only.

Failure / recovery paths (round h8, all OPTIONAL fields — a case without them runs exactly as before):
  * `case["aux"] = [{"value": raw}, ...]`: further trees the case keeps alive (instances of the root class built with
    `cls(value)`); `Exec.trees()` = [root] + aux; an op with `"tt": n` aims at the containers of tree n % len(trees);
  * a third source of Element arguments, `{"live": {"tree": n, "k": j, "where": "any"|"same"|"other", "any": bool}}`:
    the j-th CURRENT member (child of a container reachable from tree n) of the needed class (`"any"`: of whatever
    class), optionally only of the target container itself / only of other containers — an element that is already a
    member of a live tree is handed to a placing call;
  * `"ix": "str"|"none"|"float"` on seq `setitem` / `insert`: the index is an object that is no index ('1', None,
    1.5) — the call is REJECTED with TypeError; sort key `"raise"`: the key function raises ValueError on its second
    call;
  * `Exec.snapshot()` / `info["snap_before"]`, `info["snap_after"]`, `info["live_args"]`, `info["atomic"]`
    (see `atomic_route`) and `Exec.taint` serve the oracle clauses of C08 / C09: `check_rejected`.
The Lean runners answer {"unsupported": true} for cases using any of these (oracle only).

Sorts whose COMPARISON fails (round m1, opt-in: `gen_sort_failure_case`; cases are marked `nomodel`): sort keys
`"value"` (`lambda e: e.value`: ints and None do not compare), `"cmp-raise"` / `"cmp-mutate"` with `"after": k` (a key
object whose `<` raises after k comparisons / appends `"v"` to the list being sorted).  CPython leaves the list
REARRANGED then; `atomic_route` is None for them and `check_sort_failure` states what must hold.
"""
import itertools
import operator

SEQ_KINDS = ("list", "array", "multi")
MAP_KINDS = ("dict", "sparse")
CHAIN_BOUND = 64
REACH_BOUND = 4000


# ------------------------------------------------------------------ values

def py(raw):
    """case JSON -> plain Python value"""
    if isinstance(raw, dict):
        if "l" in raw:
            return [py(x) for x in raw["l"]]
        if "d" in raw:
            return {k: py(v) for k, v in raw["d"]}
        if "p" in raw:
            return [(k, py(v)) for k, v in raw["p"]]
        raise ValueError("bad raw %r" % (raw,))
    return raw


def vj(value):
    """plain Python value -> canonical JSON"""
    if value is None or isinstance(value, (int, str)) and not isinstance(value, bool):
        return value
    if isinstance(value, (list, tuple)):
        return {"l": [vj(x) for x in value]}
    if isinstance(value, dict):
        return {"d": [[k if isinstance(k, str) else {"repr": type(k).__name__}, vj(v)] for k, v in value.items()]}
    return {"repr": type(value).__name__}


def exc_name(e):
    return type(e).__name__


def sv(el):
    """`.value` of an element as canonical JSON; a broken tree (raw values inside) may raise"""
    try:
        return vj(el.value)
    except Exception as e:
        return {"raises": exc_name(e)}


# ------------------------------------------------------------------ schemas

class Classes:
    """cid <-> flatland class registry of one case"""

    def __init__(self):
        self.by_cid = {}
        self.cid_of = {}
        self.kind_of = {}

    def register(self, cid, cls, kind):
        self.by_cid[cid] = cls
        self.cid_of[cls] = cid
        self.kind_of[cls] = kind

    @staticmethod
    def use_class(cls, der):
        """the pre-history on the parent class: build an instance, populate it, look fields up"""
        if not der.get("use"):
            return
        try:
            inst = cls()
            v = py(der.get("use_value"))
            if v is not None:
                inst.set(v)
            for name in [f.name for f in cls.field_schema][:2]:
                try:
                    inst[name] = None
                except Exception:
                    pass
            inst.field_schema_mapping
        except Exception:
            pass

    def build(self, sj):
        import flatland
        k = sj["k"]
        subs = [self.build(s) for s in sj["subs"]]
        if k == "integer":
            cls = flatland.Integer
        elif k == "string":
            cls = flatland.String
        elif k == "list":
            cls = flatland.List.of(subs[0])
        elif k == "array":
            cls = flatland.Array.of(subs[0])
        elif k == "multi":
            cls = flatland.MultiValue.of(subs[0])
        elif k in ("dict", "sparse"):
            base = flatland.Dict if k == "dict" else flatland.SparseDict
            der = sj.get("derive")
            if der:
                # the class is DERIVED from a parent class with another field list that may already have been USED
                # (an instance built and populated): `Parent.of(<the case's fields>)`
                parent = base.of(*[self.build(s) for s in der["parent_subs"]]).named(sj["name"])
                self.use_class(parent, der)
                cls = parent.of(*subs)
            else:
                cls = base.of(*subs)
        elif k in ("schema", "sparse_schema"):
            # declarative form: class F(Schema): a = String; b = Integer ...
            base = flatland.Schema if k == "schema" else flatland.SparseSchema
            der = sj.get("derive")
            if der:
                # class P(Schema): <parent fields>;  (P is used);  class F(P): <redeclared / added fields>
                parent = type(base)("P", (base,), {s["name"]: self.build(s) for s in der["parent_subs"]})
                self.use_class(parent, der)
                cls = type(base)("F", (parent,), {s["name"]: c for s, c in zip(sj["subs"], subs)
                                                 if s["name"] in der["declared"]})
            else:
                cls = type(base)("F", (base,), {s["name"]: c for s, c in zip(sj["subs"], subs)})
            for f in cls.field_schema:
                for s2 in sj["subs"]:
                    if s2["name"] == f.name:
                        self.register(s2["cid"], f, s2["k"])
        elif k == "date":
            cls = flatland.DateYYYYMMDD
        elif k == "joined":
            cls = flatland.JoinedString.using(prune_empty=bool(sj.get("prune", True)))
            self.register(sj["subs"][0]["cid"], cls.member_schema, "string")
        else:
            raise ValueError(k)
        if k in SEQ_KINDS and sj.get("prune") is False:
            # optional (round h8b): a NON-pruning sequence; only set_flat reads it (oracle-only routes)
            cls = cls.using(prune_empty=False)
        cls = cls.named(sj["name"])
        over = {"optional": bool(sj["opt"])}
        if sj["default"] is not None:
            over["default"] = py(sj["default"])
        if k in MAP_KINDS or k in ("schema", "sparse_schema"):
            over["policy"] = None if sj["policy"] == "none" else sj["policy"]
        if k == "sparse_schema":
            over["minimum_fields"] = "required" if sj["minreq"] else None
        if k in ("date", "joined"):
            over = {"optional": bool(sj["opt"])}
        if k == "sparse":
            over["minimum_fields"] = "required" if sj["minreq"] else None
        cls = cls.using(**over)
        self.register(sj["cid"], cls, k)
        return cls


def kind_of_element(el):
    import flatland
    from flatland.schema.containers import ListSlot
    if isinstance(el, ListSlot):
        return "slot"
    if isinstance(el, flatland.DateYYYYMMDD):
        return "date"
    if isinstance(el, flatland.JoinedString):
        return "joined"
    if isinstance(el, flatland.SparseDict):
        return "sparse"
    if isinstance(el, flatland.Dict):
        return "dict"
    if isinstance(el, flatland.MultiValue):
        return "multi"
    if isinstance(el, flatland.Array):
        return "array"
    if isinstance(el, flatland.List):
        return "list"
    if isinstance(el, flatland.Integer):
        return "integer"
    if isinstance(el, flatland.String):
        return "string"
    return "other"


def kind_of_class(cls):
    import flatland
    for k, base in (("integer", flatland.Integer), ("string", flatland.String)):
        if isinstance(cls, type) and issubclass(cls, base):
            return k
    return "other"


def is_seq(el):
    from flatland.schema.containers import Sequence
    return isinstance(el, Sequence)


def is_map(el):
    from flatland.schema.containers import Mapping
    return isinstance(el, Mapping)


# ------------------------------------------------------------------ executor

class Skip(Exception):
    pass


BAD_INDEX = {"str": "1", "none": None, "float": 1.5}


def bad_index(op):
    """the index of a seq `setitem` / `insert`: `op["i"]`, or — `"ix"` — an object that is no index"""
    if "ix" in op:
        return BAD_INDEX[op["ix"]]
    return op["i"]


class Exec:
    """Runs one case on the real flatland.  `view(ex, info)` renders the observation of the
    property after the init step and after every op; `check(ex, info)` (optional) returns a list
    of oracle failures for that step."""

    def __init__(self, case, view, check=None):
        self.case = case
        self.view = view
        self.check = check
        self.classes = Classes()
        self.root_cls = self.classes.build(case["schema"])
        self.labels = {}
        self.keep = []
        self.pool = []
        self.failures = []
        self.steps = []
        self.root = None
        self.nav_errors = []
        self.foreign_owner = {}
        self.memo = {}
        self.aux = []          # further tree roots kept alive by the case (case["aux"])
        self.fp = {}           # step number -> failure-path bookkeeping for tags (returned under "_fp": not compared)
        self.taint = {}        # id -> element that was handed to a call while it was a member of a live tree (aliasing)

    # -- identity labels
    def see(self, obj):
        if id(obj) not in self.labels:
            self.labels[id(obj)] = len(self.labels)
            self.keep.append(obj)

    def lab(self, obj):
        if obj is None:
            return None
        return self.labels.get(id(obj), "?")

    def lab_of_id(self, ident):
        return self.labels.get(ident, "?")

    # -- navigation through the public API
    def children(self, el):
        from flatland.schema.base import Element
        if not isinstance(el, Element):
            return []          # a raw value stored where an element belongs: a leaf (the oracles flag it)
        try:
            return list(el.children)
        except Exception as e:   # `.children` itself breaks on a container holding raw values
            if type(e).__name__ == "CaseTimeout":
                raise              # core's per-case alarm: not an observation
            self.nav_errors.append(exc_name(e))
            return []

    def reach(self, start=None):
        """queue walk through `.children`, start first; returns [(element, container)]"""
        start = self.root if start is None else start
        out = [(start, None)]
        i = 0
        while i < len(out) and len(out) < REACH_BOUND:
            el = out[i][0]
            i += 1
            for c in self.children(el):
                out.append((c, el))
        return out

    @staticmethod
    def parents(el):
        from flatland.schema.base import Element
        if not isinstance(el, Element):
            return []
        return list(itertools.islice(el.parents, CHAIN_BOUND))

    def observe(self):
        els = [e for e, _ in self.reach()]
        for e in els:
            self.see(e)
        for e in els:
            for p in self.parents(e):
                self.see(p)
        for r in self.aux:
            els = [e for e, _ in self.reach(r)]
            for e in els:
                self.see(e)
            for e in els:
                for p in self.parents(e):
                    self.see(p)

    def containers(self, tree=0):
        trees = self.trees()
        return [e for e, _ in self.reach(trees[tree % len(trees)]) if is_seq(e) or is_map(e)]

    def trees(self):
        """the roots the case keeps alive: the main tree first"""
        return [self.root] + list(self.aux)

    def snapshot(self):
        """what a REJECTED call may not change: per kept tree the reachable elements in queue order, each with the
        container that lists it, its `.parents` chain (identities) and the names of the slots on that chain"""
        from flatland.schema.base import Slot
        out = []
        for r in self.trees():
            rows = []
            for e, c in self.reach(r):
                chain = self.parents(e)
                rows.append((id(e), id(c) if c is not None else None, tuple(id(p) for p in chain),
                             tuple(getattr(p, "name", None) for p in chain if isinstance(p, Slot))))
            out.append(rows)
        return out

    def reachable_ids(self):
        ids = set()
        for r in self.trees():
            for e, _ in self.reach(r):
                ids.add(id(e))
        return ids

    def holders(self, el):
        """containers — over all kept trees and over the detached subtrees waiting in the pool, which a later call may
        graft back — whose `children` list `el`, with multiplicity"""
        out = []
        seen = set()
        for r in self.trees() + list(self.pool):
            for c, _ in self.reach(r):
                if id(c) in seen:
                    continue
                seen.add(id(c))
                for ch in self.children(c):
                    if ch is el:
                        out.append(c)
        return out

    def heal(self):
        """an aliased element is a tree member again once exactly one container lists it and its parent pointer
        designates that container (directly or through a slot)"""
        from flatland.schema.base import Slot
        for k, el in list(self.taint.items()):
            hs = self.holders(el)
            if len(hs) > 1:
                continue
            vis = [p for p in self.parents(el) if not isinstance(p, Slot)]
            if not hs or (vis and vis[0] is hs[0]):
                if hs:
                    # through a slot: the slot must be one the List holds
                    par = el.parent
                    if isinstance(par, Slot) and (getattr(par, "element", None) is not el or not (
                            is_seq(hs[0]) and any(s is par for s in list.__iter__(hs[0])))):
                        continue
                del self.taint[k]

    # -- arguments
    def needed_schema(self, target, key):
        if is_seq(target):
            return target.member_schema
        if is_map(target):
            for f in target.field_schema:
                if f.name == key:
                    return f
            return target.field_schema[0] if target.field_schema else None
        return None

    @staticmethod
    def touch(el):
        """READ the navigation properties of an element and of everything below it (reading is part of the history:
        nothing read here may be remembered by the library)"""
        from flatland.schema.base import Element
        if not isinstance(el, Element):
            return
        try:
            below = [el] + list(itertools.islice(el.all_children, 200))
        except Exception:
            below = [el]
        for e in below:
            for read in (lambda: e.root, lambda: list(itertools.islice(e.path, CHAIN_BOUND)),
                         lambda: list(itertools.islice(e.parents, CHAIN_BOUND)), lambda: e.fq_name(),
                         lambda: e.flattened_name()):
                try:
                    read()
                except Exception as exc:
                    if type(exc).__name__ == "CaseTimeout":
                        raise

    def mk_arg(self, target, key, a):
        r = self.mk_arg0(target, key, a)
        if a.get("touch") and r[0] == "elem":
            self.touch(r[1])       # the argument is looked at before it is handed over
        return r

    def mk_arg0(self, target, key, a):
        if "v" in a:
            return ("plain", py(a["v"]))
        if "live" in a:
            spec = a["live"]
            trees = self.trees()
            tr = trees[spec.get("tree", 0) % len(trees)]
            need = self.needed_schema(target, key)
            where = spec.get("where", "any")
            above = {id(p) for p in self.parents(target)} | {id(target)}
            cands = []
            for cont, _ in self.reach(tr):
                if not (is_seq(cont) or is_map(cont)):
                    continue
                if (where == "same" and cont is not target) or (where == "other" and cont is target):
                    continue
                for ch in self.children(cont):
                    if id(ch) in above:
                        continue           # never the target itself or one of its holders (that would be a cycle)
                    if spec.get("any") or (need is not None and type(ch) is need):
                        cands.append(ch)
            if not cands:
                raise Skip("nolive")
            return ("elem", cands[spec.get("k", 0) % len(cands)])
        if "pool" in a:
            if not self.pool:
                raise Skip("nopool")
            idx = a["pool"] % len(self.pool)
            e = self.pool[idx]
            need = self.needed_schema(target, key)
            if need is None:
                raise Skip("nopool")
            if type(e) is not need:
                raise Skip("pooltype")
            del self.pool[idx]
            return ("elem", e)
        if "new" in a:
            need = self.needed_schema(target, key)
            if need is None:
                raise Skip("noschema")
            cls = need
            if a.get("rename") is not None or a.get("sub_optional") is not None:
                # an Element of a SUBCLASS of the needed class: renamed and/or with its own `optional`
                if a.get("rename") is not None:
                    cls = cls.named(a["rename"])
                if a.get("sub_optional") is not None:
                    cls = cls.using(optional=bool(a["sub_optional"]))
                self.classes.register(a["cid"], cls, self.classes.kind_of.get(need))
            kw = {}
            if a.get("inst_optional") is not None:
                kw["optional"] = bool(a["inst_optional"])      # instance-level override, type(el) stays `cls`
            if a.get("inst_name") is not None:
                kw["name"] = a["inst_name"]
            try:
                el = cls(**kw) if a.get("blank") else cls(py(a["new"]), **kw)
            except Exception as e:  # the constructor raised: no element to hand over
                raise Skip("argerr:" + exc_name(e))
            if a.get("foreign"):
                # the element currently belongs to ANOTHER container of the target's class: really stored in it
                # where adoption is the documented route (SparseDict key, sequence append), else built with
                # parent=<that container>
                other = type(target)()
                self.keep.append(other)
                placed = False
                try:
                    if kind_of_element(target) == "sparse" and key is not None and isinstance(el, need):
                        other[key] = el
                        placed = dict.get(other, key) is el
                    elif is_seq(target):
                        other.append(el)
                        placed = True
                except Exception:
                    placed = False
                if not placed or el.parent is None:
                    el.parent = other     # same state as `cls(value, parent=other)`
                self.foreign_owner[id(el)] = other
            return ("elem", el)
        raise ValueError("bad arg %r" % (a,))

    # -- one call
    def call(self, target, kind, op, args):
        """returns the outcome JSON; `args` are materialised (tag, value) pairs"""
        name = op["op"]
        vals = [v for _, v in args]
        if kind == "seq":
            if name == "append":
                target.append(vals[0]); return "ok"
            if name == "extend":
                target.extend(vals); return "ok"
            if name == "iadd":
                operator.iadd(target, vals); return "ok"
            if name == "insert":
                target.insert(bad_index(op), vals[0]); return "ok"
            if name == "setitem":
                target[bad_index(op)] = vals[0]; return "ok"
            if name == "setslice":
                target[slice(*op["sl"])] = vals; return "ok"
            if name == "delitem":
                del target[op["i"]]; return "ok"
            if name == "delslice":
                del target[slice(*op["sl"])]; return "ok"
            if name == "pop":
                r = target.pop() if op.get("i") is None else target.pop(op["i"])
                return ("el", r)
            if name == "remove":
                target.remove(vals[0]); return "ok"
            if name == "reverse":
                target.reverse(); return "ok"
            if name == "clear":
                target.clear(); return "ok"
            if name == "imul":
                operator.imul(target, op["n"]); return "ok"
            if name == "set_flat":
                target.set_flat([(k, v) for k, v in op["pairs"]]); return "ok"
            if name == "set_flat_rt":
                # the flatten round trip on the sequence itself: native values (`flatten(value=lambda e: e.value)`,
                # documented in Element.flatten) or, `"text": true`, the ordinary text form
                if op.get("text"):
                    pairs = target.flatten()
                else:
                    pairs = target.flatten(value=lambda e: e.value)
                self.memo["rt_pairs"] = list(pairs)
                target.set_flat(pairs); return "ok"
            if name == "reversed":
                return ("els", list(reversed(target)))
            if name == "imul_bad":
                operator.imul(target, {"float": 2.5, "str": "a", "none": None}[op["x"]]); return "ok"
            if name == "set_mixed":
                return ("b", target.set(vals))
            if name == "sort":
                kw = {}
                if op.get("key") == "u":
                    kw["key"] = lambda e: e.u
                elif op.get("key") == "ulen":
                    kw["key"] = lambda e: len(e.u)
                elif op.get("key") == "len":
                    kw["key"] = lambda e: len(e)              # only a member has a length (a ListSlot has none)
                elif op.get("key") == "field":
                    fname = op["field"]
                    kw["key"] = lambda e: e[fname].u          # only a member can be subscripted
                elif op.get("key") == "raise":
                    calls = [0]

                    def failing_key(e):                        # a key function that fails on its second call
                        calls[0] += 1
                        if calls[0] >= 2:
                            raise ValueError("key")
                        return 0
                    kw["key"] = failing_key
                elif op.get("key") in SORT_CMP_FAILS:
                    # a key under which a COMPARISON may fail (round m1): CPython leaves the list rearranged
                    kw["key"] = comparison_failing_key(op, lambda e: e.value, lambda e: e.u,
                                                       lambda: target.append(py(op.get("v", 0))))
                target.sort(reverse=bool(op["rev"]), **kw); return "ok"
            if name == "set":
                return ("b", target.set(py(op["v"])))
            if name == "set_default":
                target.set_default(); return "ok"
            if name == "len":
                return ("n", len(target))
            if name == "getitem":
                return ("el", target[op["i"]])
            if name == "getslice":
                return ("els", target[slice(*op["sl"])])
            if name == "contains":
                return ("b", vals[0] in target)
            if name == "index":
                return ("n", target.index(vals[0]))
            if name == "count":
                return ("n", target.count(vals[0]))
        else:
            if name == "setitem":
                target[op["k"]] = vals[0]; return "ok"
            if name == "delitem":
                del target[op["k"]]; return "ok"
            if name == "pop":
                return ("el", target.pop(op["k"]))
            if name == "popitem":
                target.popitem(); return "ok"
            if name == "clear":
                target.clear(); return "ok"
            if name == "update":
                kw = {k: py(v) for k, v in op.get("kw", [])}
                if "pos" in op:
                    target.update(py(op["pos"]), **kw)
                else:
                    target.update(**kw)
                return "ok"
            if name == "update_items":
                keys = [k for k, _ in op["items"]]
                form = op.get("form", "dict")
                if form == "pairs":
                    target.update(list(zip(keys, vals)))
                elif form == "kw":
                    target.update(**dict(zip(keys, vals)))
                elif form == "ior":
                    operator.ior(target, dict(zip(keys, vals)))
                else:
                    target.update(dict(zip(keys, vals)))
                return "ok"
            if name == "ior":
                operator.ior(target, py(op["v"])); return "ok"
            if name == "setdefault":
                return ("val", target.setdefault(op["k"], py(op["d"])))
            if name == "get":
                return ("el", target.get(op["k"]))
            if name == "set":
                if "policy" in op:
                    return ("b", target.set(py(op["v"]), policy=op["policy"]))
                return ("b", target.set(py(op["v"])))
            if name == "set_default":
                target.set_default(); return "ok"
            if name == "set_flat":
                target.set_flat([(k, v) for k, v in op["pairs"]]); return "ok"
            if name == "contains":
                return ("b", op["k"] in target)
            if name == "len":
                return ("n", len(target))
        raise ValueError("bad op %r" % (op,))

    def encode_out(self, r):
        if r == "ok":
            return "ok"
        tag, v = r
        if tag == "el":
            self.see(v)
            return {"el": self.lab(v)}
        if tag == "els":
            return {"els": [self.lab(x) for x in v]}
        if tag == "b":
            return {"b": bool(v)} if isinstance(v, (bool, int)) else {"b": {"repr": type(v).__name__}}
        if tag == "n":
            return {"n": v}
        if tag == "val":
            return {"val": vj(v)}
        raise ValueError(tag)

    # -- init routes
    def init(self):
        route = self.case["init"]["route"]
        value = py(self.case["init"].get("value"))
        cls = self.root_cls
        out = "ok"
        if route == "ctor":
            self.root = cls()
        elif route == "ctor_value":
            try:
                self.root = cls(value)
            except Exception as e:
                out = {"exc": exc_name(e)}
                self.root = cls()
        elif route == "set":
            self.root = cls()
            try:
                out = {"b": bool(self.root.set(value))}
            except Exception as e:
                out = {"exc": exc_name(e)}
        elif route == "from_defaults":
            try:
                self.root = cls.from_defaults()
            except Exception as e:
                out = {"exc": exc_name(e)}
                self.root = cls()
        elif route == "set_default":
            self.root = cls()
            try:
                self.root.set_default()
            except Exception as e:
                out = {"exc": exc_name(e)}
        elif route == "from_object":
            import types
            obj = types.SimpleNamespace(**{k: v for k, v in (value or {}).items() if isinstance(k, str) and k.isidentifier()}) \
                if isinstance(value, dict) else value
            try:
                self.root = cls.from_object(obj)
            except Exception as e:
                out = {"exc": exc_name(e)}
                self.root = cls()
        elif route == "from_flat":
            try:
                self.root = cls.from_flat([(k, v) for k, v in self.case["init"]["pairs"]])
            except Exception as e:
                out = {"exc": exc_name(e)}
                self.root = cls()
        elif route == "set_flat":
            self.root = cls()
            try:
                self.root.set_flat([(k, v) for k, v in self.case["init"]["pairs"]])
            except Exception as e:
                out = {"exc": exc_name(e)}
        else:
            raise ValueError(route)
        for spec in self.case.get("aux") or []:
            try:
                r = cls(py(spec.get("value")))
            except Exception:
                r = cls()
            self.aux.append(r)
            self.keep.append(r)
        self.observe()
        info = {"i": 0, "init": True, "out": out, "target": None, "args": [], "op": None, "kind": None,
                "before": None}
        self.finish_step(info)

    def finish_step(self, info):
        # Observing a tree that holds raw values / dangling links can itself raise inside flatland
        # (e.g. `.value` of a Dict holding an int).  That is an observation, not a harness failure.
        if self.check is not None:
            try:
                self.failures.extend(self.check(self, info) or [])
            except Exception as e:
                if type(e).__name__ == "CaseTimeout":
                    raise          # core's per-case alarm: not an observation
                import traceback
                self.failures.append({"clause": "observation-raises", "expected": "the element API works on the tree",
                                      "observed": exc_name(e), "step": info["i"], "op": info.get("op"),
                                      "trace": traceback.format_exc()[-600:]})
        try:
            v = self.view(self, info)
        except Exception as e:
            if type(e).__name__ == "CaseTimeout":
                raise
            v = {"view_raises": exc_name(e)}
        if self.nav_errors:
            self.failures.append({"clause": "children-navigable", "expected": "element.children iterates",
                                  "observed": self.nav_errors[0], "step": info["i"], "op": info.get("op")})
            v = {"view_raises": self.nav_errors[0]}
            self.nav_errors = []
        self.steps.append({"out": info["out"], "view": v})

    def step(self, i, o):
        info = {"i": i, "init": False, "target": None, "args": [], "op": None, "kind": None, "before": None}
        cs = self.containers(o.get("tt", 0))
        info["tree"] = o.get("tt", 0) % (1 + len(self.aux))
        if not cs:
            info["out"] = {"skip": "notarget"}
            return self.finish_step(info)
        target = cs[o["t"] % len(cs)]
        kind = "seq" if is_seq(target) else "map"
        op = o.get("s") if kind == "seq" else o.get("m")
        if op is None:
            info["out"] = {"skip": "nokindop"}
            return self.finish_step(info)
        if op["op"] == "observe":
            # only READ: every reachable element, every pooled (detached) element
            for e, _ in self.reach():
                self.touch(e)
            for e in self.pool:
                self.touch(e)
            info["out"] = "ok"
            return self.finish_step(info)
        saved_pool = list(self.pool)
        try:
            specs = []
            if "a" in op:
                specs = [op["a"]]
            elif "as" in op:
                specs = op["as"]
            key = op.get("k") if kind == "map" else None
            if "items" in op:
                args = [self.mk_arg(target, k, a) for k, a in op["items"]]
            else:
                args = [self.mk_arg(target, key, a) for a in specs]
        except Skip as s:
            self.pool = saved_pool
            info["out"] = {"skip": str(s)}
            return self.finish_step(info)
        info.update(target=target, kind=kind, op=op, args=args)
        before = self.reach()
        info["before"] = before
        info["before_children"] = self.children(target)
        info["before_items"] = dict(dict.items(target)) if is_map(target) else None
        live_now = self.reachable_ids()
        info["live_args"] = [v for tag, v in args if tag == "elem" and id(v) in live_now]
        info["snap_before"] = self.snapshot()
        info["atomic"] = atomic_route(target, kind, op, args)
        try:
            r = self.call(target, kind, op, args)
            info["ret"] = r
            info["raised"] = None
        except Exception as e:
            if type(e).__name__ == "CaseTimeout":
                raise
            r = None
            info["ret"] = None
            info["raised"] = e
        info["snap_after"] = self.snapshot() if info["raised"] is not None else None
        # an element handed over while it was a member of a live tree is aliased from now on (until `heal` finds it
        # under one container again); a rejected call that moved it nevertheless is reported by `check_rejected`
        # at THIS step and the element is tainted as well, so that the after-effect is reported once
        if info["live_args"] and (info["raised"] is None or info["atomic"] is None
                                  or info["snap_after"] != info["snap_before"]):
            for v in info["live_args"]:
                self.taint[id(v)] = v
        # detached elements join the pool
        after_ids = {id(e) for e, _ in self.reach()}
        gone = [(e, c) for e, c in before if id(e) not in after_ids]
        gone_ids = {id(e) for e, _ in gone}
        for e, c in gone:
            if c is not None and id(c) not in gone_ids and not any(q is e for q in self.pool):
                self.pool.append(e)       # (once: an aliased element may have been listed twice)
        info["tainted"] = set(self.taint)      # aliased at the time of the call (before `heal`)
        self.heal()
        live = info["live_args"]
        kids = self.children(target)
        self.fp[info["i"]] = {"live": len(live), "tree": info.get("tree", 0), "route": info["atomic"],
                       "raised": info["raised"] is not None,
                       "moved": sum(1 for a in live if any(c is a for c in kids)) if info["raised"] is None else 0,
                       "aliased": sum(1 for a in live if len(self.holders(a)) > 1) if live else 0,
                       "taint": len(self.taint)}
        self.observe()
        if info["raised"] is not None:
            info["out"] = {"exc": exc_name(info["raised"])}
        else:
            info["out"] = self.encode_out(r)
        self.finish_step(info)

    def run(self):
        self.init()
        for i, o in enumerate(self.case["ops"], 1):
            self.step(i, o)
        out = {"steps": self.steps}
        if self.fp:
            out["_fp"] = [self.fp.get(i) for i in range(len(self.steps))]
        return out


# ------------------------------------------------------------------ rejected calls (failure paths)

SEQ_ATOMIC = ("append", "insert", "setslice", "delitem", "delslice", "pop", "remove", "index", "count", "contains",
              "getitem", "getslice", "len", "reversed", "imul_bad", "reverse", "clear")
MAP_ATOMIC = ("delitem", "pop", "popitem", "clear", "get", "contains", "len")


# Sort keys by what can go wrong (round m1).  `list.sort(key=f)` computes every key FIRST: an exception raised by `f`
# itself escapes before anything moved (CPython restores the list) — a rejection.  An exception raised by a COMPARISON
# of two keys (or `ValueError: list modified during sort`) escapes in the middle of the merge: CPython documents that
# the list is left in a partially rearranged state.  That is an effect, so such a sort is NOT a rejection route; what
# must hold afterwards is stated by `check_sort_failure`.
SORT_KEY_TOTAL = ("u", "ulen")                        # defined on every member, totally ordered: cannot raise
SORT_KEY_FN_RAISES = ("len", "field", "raise")        # if the call raises, the KEY FUNCTION raised: nothing moved
SORT_CMP_FAILS = ("value", "cmp-raise", "cmp-mutate")  # if the call raises, a COMPARISON raised: rearranged


class FailingCmp:
    """a sort key object: `<` compares the texts while the shared budget lasts, then fails — by raising ValueError
    (`cmp-raise`) or by running `on_exhaust` once and going on (`cmp-mutate`: the callback appends to the list being
    sorted, which CPython reports as `ValueError: list modified during sort` after it finished the sort)"""
    __slots__ = ("text", "state")

    def __init__(self, text, state):
        self.text = text
        self.state = state

    def __lt__(self, other):
        st = self.state
        if st["budget"] <= 0 and not st["done"]:
            st["done"] = st["on_exhaust"] is not None
            if st["on_exhaust"] is None:
                raise ValueError("comparison")
            st["on_exhaust"]()
        st["budget"] -= 1
        return self.text < other.text


def comparison_failing_key(op, value_of, text_of, mutate):
    """the key function of a sort op whose `key` is in SORT_CMP_FAILS, for the real sequence (items are members) and for
    the oracle's plain Python list alike: `value_of(item)` / `text_of(item)` read the adapted value / the text,
    `mutate()` appends to the list being sorted (`cmp-mutate`)"""
    key = op.get("key")
    if key == "value":
        return value_of                                # ints and None (unadapted text) do not compare: TypeError
    state = {"budget": int(op.get("after", 0)), "done": False, "on_exhaust": mutate if key == "cmp-mutate" else None}
    return lambda item: FailingCmp(text_of(item), state)


def atomic_route(target, kind, op, args):
    """The name of the route if an exception raised by this call is a REJECTION, i.e. is raised before any documented
    effect, so that the call must leave everything observable as it was; None for calls whose documented behaviour
    includes effects before a later failure:
      * extend / += / *= / update / |= keep the items placed before the failing one (as list.extend(<generator>) and
        dict.update(<pairs>) do); set / set_default / set_flat empty the container first;
      * `lst[i] = <plain value>` on a List with a valid index is `lst[i].set(value)`: a member set in place may raise
        after it was reset (KF-C09-b); item assignment of a declared key on a mapping likewise;
      * a sort that fails in a COMPARISON — key-less, or with a key in SORT_CMP_FAILS — leaves the list rearranged, as
        a Python list does (see `check_sort_failure` for what is demanded then).  Only a sort whose KEY FUNCTION
        raises (SORT_KEY_FN_RAISES) is a rejection route."""
    name = op["op"]
    if kind == "seq":
        k = kind_of_element(target)
        if name == "setitem":
            tag = args[0][0] if args else "plain"
            if tag == "elem":
                return ("list" if k == "list" else "array") + "-setitem-element"
            if k != "list":
                return "array-setitem-plain"
            if "ix" in op:
                return "list-setitem-plain-index"
            n = len(target)
            return "list-setitem-plain-index" if not (-n <= op["i"] < n) else None
        if name == "insert":
            return ("list" if k == "list" else "array") + ("-insert-badindex" if "ix" in op else "-insert")
        if name == "sort":
            return "sort-key" if op.get("key") in SORT_KEY_FN_RAISES else None
        if name in SEQ_ATOMIC:
            return ("list" if k == "list" else "array") + "-" + name
        return None
    if name == "setitem":
        names = {f.name for f in (target.field_schema or ())}
        return "map-setitem-undeclared" if op["k"] not in names else None
    if name == "setdefault":
        names = {f.name for f in (target.field_schema or ())}
        if kind_of_element(target) != "sparse" or op["k"] not in names:
            return "map-setdefault"
        return None
    if name in MAP_ATOMIC:
        return "map-" + name
    return None


def check_rejected(ex, info):
    """Oracle clauses about failure paths, on the real code, for every step (shared by C08 and C09).

    (b) `rejected-changes-nothing`: a call that raises on a rejection route (`atomic_route`) leaves every kept tree as
        it was: the same elements reachable in the same order under the same containers, every parent chain the same
        objects, every slot name the same.
    (b') `unplaced-argument-untouched`: a call that raises on any other route (prefix semantics) leaves the parent
        chain of every live Element argument that did NOT become a child of the target as it was.
    Returns failure dicts; each carries what a class predicate needs: the route, which elements differ, whether the
    differences are confined to the live arguments (and what hangs below them), whether the listing is unchanged."""
    from flatland.schema.base import Slot
    fails = []
    if info.get("init") or info.get("target") is None or info.get("raised") is None:
        return fails
    before, after = info["snap_before"], info["snap_after"]
    route = info.get("atomic")
    op = info.get("op")
    target = info["target"]
    live = info.get("live_args") or []
    live_ids = {id(v) for v in live}

    def rows(snap):
        return {(t, r[0]): r for t, tree in enumerate(snap) for r in tree}

    if route is not None:
        if before != after:
            listing_same = [[(r[0], r[1]) for r in tree] for tree in before] == \
                           [[(r[0], r[1]) for r in tree] for tree in after]
            rb, ra = rows(before), rows(after)
            moved = [k for k in rb if k in ra and rb[k] != ra[k]]
            # differences confined to the live arguments and to what hangs below them
            def below_live(row):
                return row[0] in live_ids or any(x in live_ids for x in row[2])
            confined = listing_same and bool(moved) and all(below_live(ra[k]) and below_live(rb[k]) for k in moved)
            new_parent_is_target = bool(live) and all(
                ([p for p in ex.parents(v) if not isinstance(p, Slot)] or [None])[0] is target for v in live
                if any(k[1] == id(v) for k in moved))
            fails.append({"clause": "rejected-changes-nothing",
                          "expected": "a rejected call leaves every element, parent chain and slot name as it was",
                          "observed": {"listing_unchanged": listing_same,
                                       "elements_with_another_parent_chain": sorted({ex.lab_of_id(k[1]) for k in moved}, key=str)},
                          "step": info["i"], "op": op, "route": route, "raised": exc_name(info["raised"]),
                          "listing_unchanged": listing_same, "confined_to_live_arguments": confined,
                          "new_parent_is_target": new_parent_is_target,
                          "target_kind": kind_of_element(target), "live_args": len(live)})
    elif op["op"] in ("extend", "iadd") or (op["op"] == "update_items"
                                             and len({k for k, _ in op["items"]}) == len(op["items"])):
        # (with a repeated key an argument may have been placed and replaced again by a later item)
        now = ex.children(target)
        now_ids = {id(c) for c in now}
        rb, ra = rows(before), rows(after)
        for v in live:
            if any(c is v for c in now):
                continue
            kb = [k for k in rb if k[1] == id(v)]
            # an argument the same call DID place may be an ancestor of this one (aliasing: a pooled container that is
            # still listed elsewhere): its re-parenting legitimately changes the chain above v — only v's own
            # position below that ancestor is the failing call's business
            if any(x in now_ids for k in kb for x in rb[k][2]):
                continue
            if any(k in ra and ra[k][2:] != rb[k][2:] for k in kb):
                fails.append({"clause": "unplaced-argument-untouched",
                              "expected": "an Element argument the failing call did not place keeps its parent chain",
                              "observed": "its parent chain changed", "step": info["i"], "op": op,
                              "raised": exc_name(info["raised"]), "target_kind": kind_of_element(target)})
                break
    return fails


def check_sort_failure(ex, info):
    """Oracle clauses for `seq.sort(...)` on the real code (round m1; shared by C07 / C08 / C09), whether the call
    returned or raised — the interesting case is a sort that raised inside a COMPARISON (`atomic_route` is None):
    CPython leaves the underlying list rearranged, and the sequence must be a consistent sequence in that order.

    (a) `sort-keeps-members`: the members afterwards are a PERMUTATION of the members before — the same element
        objects, none lost, none duplicated (for a rejection route — the key function raised — `rejected-changes-nothing`
        demands the same ORDER as well);
    (b) `sort-slots-named-by-position`: on a List, the slot of the member at position i is named str(i) and the member's
        name path (what fq_name() / flattened_name() / flatten() keys are built from) passes through str(i);
    (c) `sort-member-parents-agree`: every member's visible parent is the sequence, its root is the sequence's root
        and its path is the sequence's path plus itself (through its slot).
    Aliased members (Exec.taint) are exempt, as everywhere."""
    from flatland.schema.base import Slot, Element
    fails = []
    op = info.get("op")
    if info.get("init") or info.get("target") is None or not op or op.get("op") != "sort" or info.get("kind") != "seq":
        return fails
    target = info["target"]
    raised = info.get("raised")

    def fail(clause, expected, observed):
        fails.append({"clause": clause, "expected": expected, "observed": observed, "step": info["i"], "op": op,
                      "raised": exc_name(raised) if raised is not None else None, "route": info.get("atomic"),
                      "target_kind": kind_of_element(target)})

    before = info.get("before_children") or []
    now = ex.children(target)
    if sorted(id(x) for x in before) != sorted(id(x) for x in now) or len({id(x) for x in now}) != len({id(x) for x in before}):
        fail("sort-keeps-members", "the members after sort() are a permutation of the members before",
             {"before": [ex.lab(x) for x in before], "after": [ex.lab(x) for x in now]})
        return fails
    if id(target) in ex.taint or any(id(p) in ex.taint for p in ex.parents(target)):
        return fails            # the sequence itself hangs below an aliased element: only (a)
    is_list = kind_of_element(target) == "list"
    tpath = list(itertools.islice(target.path, CHAIN_BOUND + 1))
    tnames = [p.name for p in tpath if getattr(p, "name", None) is not None]
    for i, m in enumerate(now):
        if not isinstance(m, Element) or id(m) in ex.taint:
            continue
        chain = ex.parents(m)
        if is_list:
            slot = m.parent
            nm = getattr(slot, "name", None)
            if not isinstance(slot, Slot) or nm != str(i):
                fail("sort-slots-named-by-position", {"position": i, "slot_name": str(i)},
                     {"slot_names": [getattr(getattr(x, "parent", None), "name", None) for x in now]})
                break
            names = [p.name for p in itertools.islice(m.path, CHAIN_BOUND + 1) if p.name is not None]
            want = tnames + [str(i)] + ([m.name] if m.name is not None else [])
            if names != want:
                fail("sort-slots-named-by-position", {"name_path": want}, {"name_path": names})
                break
        vis = [p for p in chain if not isinstance(p, Slot)]
        path = list(itertools.islice(m.path, CHAIN_BOUND + 1))
        wpath = tpath + ([m.parent] if is_list else []) + [m]
        if not vis or vis[0] is not target or m.root is not target.root or len(path) != len(wpath) \
                or any(a is not b for a, b in zip(path, wpath)):
            fail("sort-member-parents-agree", "parent = the sequence, root = its root, path = its path + the member",
                 {"parent": ex.lab(vis[0]) if vis else None, "root": ex.lab(m.root), "path": [ex.lab(x) for x in path]})
            break
    return fails


def rejected_placement_reparents(case, failure):
    """class predicate of KF-C08-b (unchanged library): a REJECTED placing call on a sequence has already re-parented
    its live Element argument.  Exactly: clause rejected-changes-nothing; the route is `insert` with an index that is no
    integer (List, Array, MultiValue), item assignment of an ELEMENT onto an Array / MultiValue (index out of range
    or no integer), or a slice assignment that raises (size mismatch of an extended slice, a later item the member
    schema rejects); the listing of every tree is unchanged, the only elements whose parent chain differs are live
    Element arguments of the call and what hangs below them, and their new parent is the rejecting container.
    NOT in the class: `lst[i] = element` on a List (slot-based) — the unchanged code validates the index first."""
    return (failure.get("clause") == "rejected-changes-nothing"
            and failure.get("route") in ("list-insert-badindex", "array-insert-badindex", "array-setitem-element",
                                         "list-setslice", "array-setslice")
            and failure.get("listing_unchanged") is True and failure.get("confined_to_live_arguments") is True
            and failure.get("new_parent_is_target") is True and (failure.get("live_args") or 0) >= 1)


# ------------------------------------------------------------------ generators

NAMES = ["a", "b", "x", "y", "n1", "k"]
UNDECLARED = ["zz", "q", "a_", "ab", ""]
STR_POOL = ["", "a", "b", "abc", " a ", "7", " 12", "-3", "+4", "1_0", "x y", "zz", "0", "007", "1__0", "b ", "B"]
INT_POOL = [0, 1, 2, 3, 5, 7, -1, -3, 10, 12, 100]


class Counter:
    def __init__(self):
        self.n = 0

    def __call__(self):
        self.n += 1
        return self.n


def gen_scalar_raw(rng, kind=None):
    r = rng.random()
    if r < 0.45:
        return rng.choice(INT_POOL)
    if r < 0.9:
        return rng.choice(STR_POOL)
    return None


def gen_schema(rng, cid, depth, name=None, kinds=None, allow_default=True, scalar_only=False):
    """random schema JSON; `cid` is a Counter"""
    if depth <= 0 or scalar_only:
        k = rng.choice(["integer", "string"])
    else:
        k = rng.choice(kinds or ["integer", "string", "list", "array", "multi", "dict", "sparse", "list", "dict"])
    s = {"cid": cid(), "k": k, "name": name, "opt": rng.random() < 0.3, "policy": "subset", "minreq": False,
         "isa": [], "default": None, "subs": []}
    if k in ("list", "array", "multi"):
        if k == "list":
            s["subs"] = [gen_schema(rng, cid, depth - 1, name=rng.choice([None, None, "m"]),
                                    kinds=kinds if kinds and "date" in kinds else None)]
        else:
            s["subs"] = [gen_schema(rng, cid, 0 if rng.random() < 0.8 else depth - 1, name=rng.choice([None, "m"]),
                                    kinds=["integer", "string", "dict"])]
        if allow_default and rng.random() < 0.25:
            if k == "list" and rng.random() < 0.5:
                s["default"] = rng.randint(0, 3)
            else:
                s["default"] = gen_value(rng, s, valid=True)
    elif k == "date":
        # DateYYYYMMDD compound: falsy (Scalar.__bool__) while blank or unparseable, yet it has three members
        s["subs"] = [{"cid": cid(), "k": "integer", "name": nm, "opt": False, "policy": "subset", "minreq": False,
                      "isa": [], "default": None, "subs": []} for nm in ("year", "month", "day")]
    elif k == "joined":
        # JoinedString: falsy while its joined text is empty (no members, or empty members kept by prune_empty=False)
        s["prune"] = rng.random() < 0.4
        s["subs"] = [{"cid": cid(), "k": "string", "name": None, "opt": False, "policy": "subset", "minreq": False,
                      "isa": [], "default": None, "subs": []}]
    elif k in ("dict", "sparse"):
        names = rng.sample(NAMES, rng.randint(1, 3))
        s["subs"] = [gen_schema(rng, cid, depth - 1, name=n, kinds=kinds if kinds and "date" in kinds else None) for n in names]
        s["policy"] = rng.choice(["subset", "subset", "strict", "duck", "none"])
        if k == "sparse":
            s["minreq"] = rng.random() < 0.5
        if allow_default and rng.random() < 0.15:
            s["default"] = gen_value(rng, s, valid=True)
        if rng.random() < 0.15:
            derive_mapping(rng, cid, s)
    else:
        if allow_default and rng.random() < 0.3:
            s["default"] = gen_scalar_raw(rng)
    return s


def gen_value(rng, s, valid=True, depth=3):
    """a raw value (case JSON) for schema `s`; mostly of the right shape"""
    k = s["k"]
    if not valid and rng.random() < 0.25:
        return rng.choice([None, 5, "", "ab", {"l": []}])
    if k in ("integer", "string"):
        return gen_scalar_raw(rng)
    if k == "date":
        return rng.choice(["2024-02-29", "2023-12-01", "1999-01-31", "2023-13-01", "2023-02-30", "", None, "junk", None])
    if k == "joined":
        if rng.random() < 0.5:
            return rng.choice(["a,b", "", "x", ",", "a,,b", " "])
        return {"l": [rng.choice(["", "", "a", "b", " ", "x y"]) for _ in range(rng.choice([0, 1, 1, 2, 3]))]}
    if k in SEQ_KINDS:
        n = rng.choice([0, 1, 2, 2, 3, 4])
        return {"l": [gen_value(rng, s["subs"][0], valid, depth - 1) for _ in range(n)]}
    fields = s["subs"]
    if k in ("dict", "schema") or rng.random() < 0.5:
        chosen = list(fields)
    else:
        chosen = [f for f in fields if rng.random() < 0.6]
    if not valid and rng.random() < 0.5 and chosen:
        chosen = chosen[:-1]
    kvs = [[f["name"], gen_value(rng, f, valid, depth - 1)] for f in chosen]
    if not valid and rng.random() < 0.4:
        kvs.append([rng.choice(UNDECLARED), rng.choice(INT_POOL)])
    rng.shuffle(kvs)
    return {"p" if rng.random() < 0.2 else "d": kvs}


def gen_arg(rng, member, p_elem=0.3, p_pool=0.15, valid=True, cid=None):
    r = rng.random()
    if r < p_pool:
        return {"pool": rng.randint(0, 5), "touch": rng.random() < 0.5}
    v = gen_value(rng, member, valid=valid) if member is not None else gen_scalar_raw(rng)
    if r < p_pool + p_elem:
        a = {"new": v}
        if rng.random() < 0.15:
            a["blank"] = True
        if rng.random() < 0.4:
            a["foreign"] = True      # the element currently belongs to another container
        if rng.random() < 0.5:
            a["touch"] = True        # root / path / parents / fq_name of the argument are read before it is handed over
        return a
    return {"v": v}


def gen_index(rng):
    return rng.choice([0, 0, 1, 1, 2, 3, -1, -1, -2, -3, 4, 5, -5, 7, -8])


def gen_bound(rng):
    return rng.choice([None, None, 0, 1, 2, 3, -1, -2, -3, 4, 6, -6, 10, -10])


def gen_slice(rng):
    step = rng.choice([None, None, None, 1, 1, 2, -1, -1, -2, 3, 0])
    return [gen_bound(rng), gen_bound(rng), step]


SEQ_OPS = ["append", "append", "extend", "iadd", "insert", "insert", "setitem", "setitem", "setslice", "setslice",
           "delitem", "delslice", "pop", "pop", "remove", "reverse", "sort", "set", "set_default",
           "len", "getitem", "getslice", "contains", "index", "count", "clear", "imul", "imul", "observe"]


def flat_keys(rng, s, prefix="", sep="_"):
    """flat keys addressing leaves of schema `s` (one random index per list level)"""
    name = s["name"]
    k = s["k"]
    if k in ("integer", "string", "joined"):
        yield (prefix + name) if name else prefix.rstrip(sep)
    elif k in ("dict", "sparse", "schema", "sparse_schema", "date"):
        p2 = (prefix + name + sep) if name else prefix
        for f in s["subs"]:
            yield from flat_keys(rng, f, p2, sep)
    elif k == "list":
        p2 = (prefix + name + sep) if name else prefix
        for idx in rng.sample([0, 1, 2, 3, 5], rng.randint(1, 3)):
            yield from flat_keys(rng, s["subs"][0], p2 + str(idx) + sep, sep)
    else:  # array / multi
        m = s["subs"][0]
        base = (prefix + name) if name else prefix.rstrip(sep)
        if m["name"]:
            base = (base + sep + m["name"]) if base else m["name"]
        for _ in range(rng.randint(1, 3)):
            yield base


# NATIVE flat values (what `flatten(value=lambda e: e.value)` yields and the library's tests feed to from_flat): ints
# incl. zero and negatives, bools, None; '' and '0' as text for contrast
NATIVE_POOL = [0, 0, 0, False, True, None, "", "0", 1, 2, 7, -1, -3, 10, "a", "12"]


def gen_flat_pairs(rng, s, native=False):
    keys = list(flat_keys(rng, s))
    rng.shuffle(keys)
    keys = keys[:rng.randint(0, 6)]
    pool = NATIVE_POOL if native else STR_POOL
    pairs = [[k, rng.choice(pool)] for k in keys]
    for _ in range(rng.choice([0, 0, 1, 2])):      # junk keys
        pairs.insert(rng.randint(0, len(pairs)), [rng.choice(["", "zz", "0", "a_", "l_x", (s["name"] or "q") + "_9_"]),
                                                  rng.choice(STR_POOL)])
    return pairs


def gen_seq_op(rng, member, valid=True, seq=None):
    name = rng.choice(SEQ_OPS + ["reversed", "imul_bad"] + (["set_flat", "set_flat", "set_mixed"] if seq is not None else []))
    op = {"op": name}
    if name == "imul":
        op["n"] = rng.choice([-1, 0, 1, 2, 2, 3])
    elif name == "imul_bad":
        op["x"] = rng.choice(["float", "str", "none"])
    elif name == "set_mixed":
        # set(iterable) whose items are plain values AND ready-made Elements of the member schema
        op["as"] = [gen_arg(rng, member, p_elem=0.5, p_pool=0.1, valid=valid) for _ in range(rng.choice([1, 2, 3]))]
    elif name == "set_flat":
        op["pairs"] = gen_flat_pairs(rng, seq)
    if name in ("append", "remove", "contains", "index", "count"):
        op["a"] = gen_arg(rng, member, valid=valid) if name == "append" else gen_arg(rng, member, p_pool=0.05, valid=valid)
    elif name in ("extend", "iadd"):
        op["as"] = [gen_arg(rng, member, valid=valid) for _ in range(rng.choice([0, 1, 2, 3]))]
    elif name == "insert":
        op["i"] = gen_index(rng)
        op["a"] = gen_arg(rng, member, valid=valid)
    elif name == "setitem":
        op["i"] = gen_index(rng)
        op["a"] = gen_arg(rng, member, valid=valid)
    elif name == "setslice":
        op["sl"] = gen_slice(rng)
        op["as"] = [gen_arg(rng, member, valid=valid) for _ in range(rng.choice([0, 1, 1, 2, 2, 3]))]
    elif name in ("delitem", "getitem"):
        op["i"] = gen_index(rng)
    elif name in ("delslice", "getslice"):
        op["sl"] = gen_slice(rng)
    elif name == "pop":
        op["i"] = None if rng.random() < 0.4 else gen_index(rng)
    elif name == "sort":
        mk = (member or {}).get("k")
        if mk in ("list", "array"):
            op["key"] = rng.choice([None, "len", "len", "u"])
        elif mk == "dict" and member["subs"] and member["subs"][0]["k"] in ("integer", "string"):
            op["key"] = rng.choice([None, "field", "field", "u"])
            op["field"] = member["subs"][0]["name"]
        else:
            op["key"] = rng.choice([None, "u", "u", "ulen"])
        op["rev"] = rng.random() < 0.4
    elif name == "set":
        fake = {"k": "list", "subs": [member]} if member is not None else None
        op["v"] = gen_value(rng, fake, valid=valid) if fake else {"l": []}
        if not valid and rng.random() < 0.2:
            op["v"] = rng.choice([None, 5])
    return op


MAP_OPS = ["setitem", "setitem", "setitem", "delitem", "pop", "popitem", "clear", "update", "update", "ior",
           "update_items", "update_items", "observe",
           "setdefault", "get", "set", "set", "set_default", "contains", "len"]


GHOST = []      # names declared only on the parent class of a derived mapping class (set per op by gen_map_op)


def gen_key(rng, fields, p_undeclared=0.2):
    if rng.random() < p_undeclared or not fields:
        if GHOST and rng.random() < 0.6:
            return rng.choice(GHOST)
        return rng.choice(UNDECLARED)
    return rng.choice(fields)["name"]


def derive_mapping(rng, cid, s):
    """make mapping schema `s` a class DERIVED from a (mostly already used) parent class with another field list:
    `Parent.of(fields)` for Dict/SparseDict, `class F(Parent): ...` for the declarative kinds"""
    import copy
    subs = s["subs"]

    def scalar(name, kind=None):
        return {"cid": cid(), "k": kind or rng.choice(["integer", "string"]), "name": name, "opt": rng.random() < 0.3,
                "policy": "subset", "minreq": False, "isa": [], "default": None, "subs": []}

    def retyped(f):
        other = {"integer": "string", "string": "integer"}.get(f["k"], "string")
        return scalar(f["name"], other)

    extra = [scalar(n) for n in rng.sample(["zz", "q", "w", "ab"], rng.randint(1, 2))]
    if s["k"] in ("dict", "sparse"):
        r = rng.random()
        if r < 0.4:        # the parent is WIDER: fields dropped in the derived class
            parent = [copy.deepcopy(f) for f in subs] + extra
        elif r < 0.7:      # same names, other types
            parent = [retyped(f) if rng.random() < 0.6 else copy.deepcopy(f) for f in subs] + (extra if rng.random() < 0.5 else [])
        else:              # narrower / disjoint parent: fields added in the derived class
            parent = [copy.deepcopy(f) for f in subs[:rng.randint(0, max(0, len(subs) - 1))]] + (extra if rng.random() < 0.5 else [])
            if not parent:
                parent = extra
        for f in parent:   # fresh class ids for the parent's copies
            for x in walk_schemas(f):
                x["cid"] = cid()
        der = {"how": "of", "parent_subs": parent}
    else:
        j = rng.randint(0, len(subs))          # subs[:j] are inherited as they are, subs[j:] are declared on the subclass
        kept = [copy.deepcopy(f) for f in subs[:j]]
        redecl = [retyped(f) for f in subs[j:] if rng.random() < 0.6]
        parent = kept + redecl
        if not parent:
            return
        for f in parent:
            for x in walk_schemas(f):
                x["cid"] = cid()
        der = {"how": "subclass", "parent_subs": parent, "declared": [f["name"] for f in subs[j:]]}
        if not der["declared"] and rng.random() < 0.5:
            return
    der["use"] = rng.random() < 0.8
    pschema = dict(s, subs=der["parent_subs"], k="sparse" if s["k"] in ("sparse", "sparse_schema") else "dict")
    der["use_value"] = gen_value(rng, pschema, valid=True)
    names = {f["name"] for f in subs}
    der["ghost"] = [f["name"] for f in der["parent_subs"] if f["name"] not in names]
    s["derive"] = der


def _dedupe(kvs):
    """a Python dict literal cannot repeat a key"""
    seen = set()
    return [kv for kv in kvs if not (kv[0] in seen or seen.add(kv[0]))]


def decorate_element_arg(rng, a):
    """variants of a ready-made Element argument of a mapping: an instance of a subclass of the field class
    (renamed and/or with its own `optional`), or an instance of the field class itself carrying
    instance-level `optional=` / `name=` keywords"""
    r = rng.random()
    if r < 0.08:
        a["rename"] = rng.choice(["zz", "q"])
    elif r < 0.14:
        a["sub_optional"] = rng.random() < 0.7
    elif r < 0.17:
        a["rename"] = rng.choice(["zz", "q"])
        a["sub_optional"] = True
    elif r < 0.27:
        a["inst_optional"] = rng.random() < 0.7
    elif r < 0.33:
        a["inst_name"] = rng.choice(["zz", "q"])
    if "rename" in a or "sub_optional" in a:
        a["cid"] = 100000 + rng.randint(0, 10 ** 6)


def gen_map_op(rng, s, valid=True, flat=False):
    fields = s["subs"] if s is not None else []
    GHOST[:] = ((s or {}).get("derive") or {}).get("ghost", [])
    name = rng.choice(MAP_OPS + (["set_flat", "set_flat"] if flat else []))
    op = {"op": name}
    byname = {f["name"]: f for f in fields}
    if name == "setitem":
        k = gen_key(rng, fields)
        op["k"] = k
        f = byname.get(k, fields[0] if fields else None)
        op["a"] = gen_arg(rng, f, p_elem=0.35, p_pool=0.15, valid=valid)
        if "new" in op["a"]:
            decorate_element_arg(rng, op["a"])
    elif name == "update_items":
        # update(dict) / update(**kw) / update(pairs) / |= whose values are ready-made Elements or plain values
        form = rng.choice(["dict", "kw", "pairs", "ior"])
        items = []
        for _ in range(rng.choice([1, 1, 2, 3])):
            k = gen_key(rng, fields, 0.1)
            f = byname.get(k, fields[0] if fields else None)
            a = gen_arg(rng, f, p_elem=0.6, p_pool=0.1, valid=valid)
            if "new" in a:
                decorate_element_arg(rng, a)
            items.append([k, a])
        if form != "pairs":
            items = _dedupe(items)
        op["form"] = form
        op["items"] = items
    elif name in ("delitem", "pop", "get", "contains"):
        op["k"] = gen_key(rng, fields, 0.25)
    elif name == "update":
        kvs = [[gen_key(rng, fields, 0.12), None] for _ in range(rng.choice([0, 1, 2, 2]))]
        for kv in kvs:
            kv[1] = gen_value(rng, byname[kv[0]], valid) if kv[0] in byname else rng.choice(INT_POOL)
        if rng.random() < 0.7:
            r = rng.random()
            if r < 0.6:
                op["pos"] = {"d": _dedupe(kvs)}
            elif r < 0.9:
                op["pos"] = {"p": kvs}
            else:
                op["pos"] = rng.choice([None, 5, "", {"l": []}])
        else:
            seen = set()
            op["kw"] = [kv for kv in kvs if not (kv[0] in seen or seen.add(kv[0]))]
        if rng.random() < 0.2:
            k = gen_key(rng, fields, 0.2)
            op.setdefault("kw", []).append([k, gen_value(rng, byname[k], valid) if k in byname else 1])
            seen = set()
            op["kw"] = [kv for kv in op["kw"] if not (kv[0] in seen or seen.add(kv[0]))]
    elif name == "ior":
        kvs = [[gen_key(rng, fields, 0.15), None] for _ in range(rng.choice([0, 1, 2]))]
        for kv in kvs:
            kv[1] = gen_value(rng, byname[kv[0]], valid) if kv[0] in byname else rng.choice(INT_POOL)
        op["v"] = {"d": _dedupe(kvs)} if rng.random() < 0.8 else rng.choice([None, 5, {"p": kvs}])
    elif name == "set_flat":
        op["pairs"] = gen_flat_pairs(rng, s) if s is not None else []
    elif name == "setdefault":
        k = gen_key(rng, fields)
        op["k"] = k
        op["d"] = gen_value(rng, byname[k], valid) if k in byname else rng.choice(INT_POOL)
    elif name == "set":
        op["v"] = gen_value(rng, s, valid=(valid and rng.random() < 0.7)) if s is not None else {"d": []}
        r = rng.random()
        if r < 0.5:
            op["policy"] = rng.choice(["strict", "subset", "duck", None])
    return op


def walk_schemas(s):
    yield s
    for c in s["subs"]:
        yield from walk_schemas(c)


# ------------------------------------------------------------------ failure / recovery paths (opt-in, round h8)

def gen_live(rng, any_class=False):
    a = {"live": {"tree": rng.choice([0, 0, 1, 1, 1]), "k": rng.randint(0, 7),
                  "where": rng.choice(["any", "any", "other", "other", "same"])}}
    if any_class:
        a["live"]["any"] = True
    if rng.random() < 0.4:
        a["touch"] = True
    return a


def has_failure_paths(case):
    """does the case use the optional fields of round h8 (second tree, live Element arguments, non-integer indexes, a
    failing sort key)?  Such cases are oracle-only: the Lean runners answer `unsupported` for them."""
    if case.get("aux"):
        return True
    for o in case["ops"]:
        if "tt" in o:
            return True
        for part in ("s", "m"):
            op = o.get(part)
            if not op:
                continue
            if "ix" in op or op.get("key") == "raise":
                return True
            for a in ([op["a"]] if "a" in op else []) + list(op.get("as") or []) + [x[1] for x in op.get("items") or []]:
                if isinstance(a, dict) and "live" in a:
                    return True
    return False


def inject_failure_paths(rng, case, schema, any_class=False, p_op=0.5, t_max=7):
    """Rewrite a generated history into one that exercises failure / recovery paths: a second tree of the same class
    kept alive next to the main one, live members handed to placing calls (item / slice assignment, insert, append,
    extend, +=, update / |= / item assignment on mappings), REJECTED calls (out-of-range and non-integer indexes for
    item assignment and insert, undeclared keys, extended-slice size mismatches, failing sort keys) with fresh, pooled
    and live Element arguments — each followed by the full observation and by further successful calls."""
    if rng.random() < 0.75:
        case["aux"] = [{"value": gen_value(rng, schema, valid=True)}]
    ops = case["ops"]
    out = []
    for o in ops:
        if case.get("aux") and rng.random() < 0.35:
            o["tt"] = 1
        sp, mp = o.get("s"), o.get("m")
        if sp is not None and rng.random() < p_op:
            name = sp["op"]
            if name not in ("append", "insert", "setitem", "extend", "iadd", "setslice", "sort"):
                # turn some of the other calls into placing calls: that is where the failure paths are
                if rng.random() < 0.6:
                    name = rng.choice(["setitem", "setitem", "insert", "insert", "append", "setslice", "extend", "iadd"])
                    sp.clear()
                    sp["op"] = name
                    if name in ("setitem", "insert"):
                        sp["i"] = gen_index(rng)
                        sp["a"] = {"v": rng.choice(INT_POOL)}
                    elif name == "append":
                        sp["a"] = {"v": rng.choice(INT_POOL)}
                    elif name == "setslice":
                        sp["sl"] = gen_slice(rng)
                        sp["as"] = [{"v": rng.choice(INT_POOL)} for _ in range(rng.choice([1, 2, 3]))]
                    else:
                        sp["as"] = [{"v": rng.choice(INT_POOL)} for _ in range(rng.choice([1, 2, 3]))]
            if name in ("append", "insert", "setitem"):
                r = rng.random()
                if r < 0.6:
                    sp["a"] = gen_live(rng, any_class and rng.random() < 0.1)
                elif r < 0.75 and "new" not in sp["a"]:
                    sp["a"] = {"new": sp["a"].get("v") if "v" in sp["a"] else None, "blank": "v" not in sp["a"]}
                if name in ("insert", "setitem"):
                    r = rng.random()
                    if r < 0.3:
                        sp["ix"] = rng.choice(["str", "str", "none", "float"])
                    elif r < 0.55 and name == "setitem":
                        sp["i"] = rng.choice([4, 5, 7, 9, -5, -8, -9, 12])
            elif name in ("extend", "iadd", "setslice"):
                items = sp.get("as") or []
                if not items or rng.random() < 0.3:
                    items.append({"v": rng.choice(INT_POOL)})
                for j in range(len(items)):
                    if rng.random() < 0.5:
                        items[j] = gen_live(rng, any_class and rng.random() < 0.1)
                if rng.random() < 0.25:
                    items.append({"v": {"d": [["zz", 1]]}} if rng.random() < 0.5 else {"v": {"l": [{"l": []}]}})  # an item many member schemas reject
                sp["as"] = items
                if name == "setslice" and rng.random() < 0.5:
                    sp["sl"] = [rng.choice([None, 0, 1]), None, rng.choice([2, 2, 3, -1, -2])]   # extended: sizes must match
            elif name == "sort":
                if rng.random() < 0.6:
                    sp["key"] = "raise"
        if mp is not None and rng.random() < p_op:
            name = mp["op"]
            if name == "setitem":
                if rng.random() < 0.6:
                    mp["a"] = gen_live(rng, any_class and rng.random() < 0.1)
                if rng.random() < 0.3:
                    mp["k"] = rng.choice(UNDECLARED)
            elif name == "update_items":
                for it in mp["items"]:
                    if rng.random() < 0.5:
                        it[1] = gen_live(rng, any_class and rng.random() < 0.1)
                if rng.random() < 0.3:
                    mp["items"].insert(rng.randint(0, len(mp["items"])), [rng.choice(UNDECLARED), {"v": 1}])
                    if mp.get("form") != "pairs":
                        mp["items"] = _dedupe(mp["items"])
            elif name in ("setdefault", "delitem", "pop", "get") and rng.random() < 0.4:
                mp["k"] = rng.choice(UNDECLARED)
        out.append(o)
    # recovery: the history goes on with calls that succeed, and everything is read once more
    tail = {"t": rng.randint(0, t_max), "s": {"op": "append", "a": {"v": rng.choice(INT_POOL)}}, "m": {"op": "observe"}}
    if case.get("aux") and rng.random() < 0.5:
        tail["tt"] = 1
    out.append(tail)
    out.append({"t": 0, "s": {"op": "observe"}, "m": {"op": "observe"}})
    case["ops"] = out
    case["nomodel"] = True
    case["why_nomodel"] = "failure paths: live Element arguments / second tree / non-integer index (oracle only)"
    return case


# ------------------------------------------------------------------ sorts whose COMPARISON fails (opt-in, round m1)

MIXED_INT_POOL = [3, 1, 2, 0, 5, 7, -1, 10, 12, None, None, "x", "abc", "", " 4", "1_0"]   # ints / unadaptable texts


def _sf_schema(cid, k, name=None, subs=()):
    return {"cid": cid(), "k": k, "name": name, "opt": False, "policy": "subset", "minreq": False, "isa": [],
            "default": None, "subs": list(subs)}


def _sf_mixed(rng, lo=2, hi=8):
    """2-8 values for Integer members, at least one int and (mostly) at least one value that does not adapt"""
    n = rng.randint(lo, hi)
    vals = [rng.choice(MIXED_INT_POOL) for _ in range(n)]
    if n >= 2 and rng.random() < 0.85:
        i = rng.randrange(n)
        vals[i] = rng.choice([None, "x", "abc"])
        vals[(i + 1 + rng.randrange(n - 1)) % n] = rng.choice([3, 1, 2, 0])
    return vals


def gen_sort_failure_case(rng, root_seq=False):
    """A complete case (C08 / C09 / C10 format) around `seq.sort(key=…)` calls whose COMPARISON fails: Lists (also
    Arrays / MultiValues) of 2-8 members mixing ints and None / unadapted text sorted by `key=lambda e: e.value`
    (TypeError: '<' not supported), by a key object whose `<` raises after k comparisons (`cmp-raise`) or appends to
    the list being sorted (`cmp-mutate`: ValueError: list modified during sort), with and without reverse, on the
    root sequence, on nested Lists and on Lists inside Dicts; every such sort is followed by an observation, an append
    (no renumbering), a renumbering call, and an observation.  Oracle only (`nomodel`): the Lean model's keyed sort
    either sorts or answers `unsupported`."""
    cid = Counter()
    leaf = lambda name=None: _sf_schema(cid, "integer", name)
    shape = rng.choice(["flat", "flat", "flat", "strings", "nested", "nested", "dicts", "dicts"]
                       + ([] if root_seq else ["fields", "fields"]))
    ival = lambda lo=2, hi=8: {"l": _sf_mixed(rng, lo, hi)}
    if shape == "flat":
        kind = rng.choice(["list", "list", "list", "list", "array", "multi"])
        schema = _sf_schema(cid, kind, rng.choice([None, "l", "numbers"]), [leaf(rng.choice([None, "n"]))])
        value, ts = ival(), [0]
    elif shape == "strings":
        schema = _sf_schema(cid, "list", rng.choice([None, "l"]), [_sf_schema(cid, "string", rng.choice([None, "s"]))])
        value, ts = {"l": [rng.choice(STR_POOL + [3, 1]) for _ in range(rng.randint(2, 8))]}, [0]
    elif shape == "nested":
        inner = _sf_schema(cid, rng.choice(["list", "list", "array"]), rng.choice([None, "m"]), [leaf(rng.choice([None, "n"]))])
        schema = _sf_schema(cid, "list", rng.choice([None, "l"]), [inner])
        k = rng.randint(2, 5)
        value = {"l": [ival(0, 5) for _ in range(k)]}
        ts = [0, 0] + list(range(1, k + 1))
    elif shape == "dicts":
        inner = _sf_schema(cid, "list", "n", [leaf(rng.choice([None, "m"]))])
        member = _sf_schema(cid, rng.choice(["dict", "dict", "sparse"]), rng.choice([None, "d"]), [leaf("x"), inner])
        schema = _sf_schema(cid, "list", rng.choice([None, "l"]), [member])
        k = rng.randint(2, 6)
        value = {"l": [{"d": [["x", rng.choice(MIXED_INT_POOL)], ["n", ival(0, 5)]]} for _ in range(k)]}
        ts = [0, 0, 0] + list(range(k + 1, 2 * k + 1))       # containers in queue order: the List, the k Dicts, their k Lists
    else:
        a = _sf_schema(cid, "list", "a", [leaf(rng.choice([None, "n"]))])
        b = _sf_schema(cid, "list", "b", [_sf_schema(cid, "list", None, [leaf()])])
        schema = _sf_schema(cid, "dict", rng.choice([None, "r"]), [a, b, leaf("k")])
        value = {"d": [["a", ival()], ["b", {"l": [ival(0, 4) for _ in range(rng.randint(2, 4))]}], ["k", 1]]}
        ts = [1, 1, 2, 3, 4]
    case = {"schema": schema, "init": {"route": rng.choice(["ctor_value", "ctor_value", "set"]), "value": value}}

    def sort_op():
        key = rng.choice(["value", "value", "value", "cmp-raise", "cmp-raise", "cmp-mutate"])
        op = {"op": "sort", "key": key, "rev": rng.random() < 0.4}
        if key != "value":
            op["after"] = rng.choice([0, 1, 1, 2, 2, 3, 4, 5, 7, 9, 12])
        if key == "cmp-mutate":
            op["v"] = rng.choice(INT_POOL)
        return op

    ops = []
    for _ in range(rng.choice([1, 1, 1, 2, 3])):
        t = rng.choice(ts)
        step = lambda s: ops.append({"t": t, "s": s, "m": {"op": "observe"}})
        if rng.random() < 0.3:
            step({"op": rng.choice(["append", "insert"]), "i": gen_index(rng), "a": {"v": rng.choice(MIXED_INT_POOL)}})
        step(sort_op())
        step({"op": "observe"})
        if rng.random() < 0.3:
            step(sort_op())                      # once more, from the rearranged state
        step({"op": "append", "a": {"v": rng.choice(INT_POOL)}})       # no renumbering happens here
        r = rng.random()
        if r < 0.25:
            step({"op": "insert", "i": rng.choice([0, 1, -1]), "a": {"v": rng.choice(INT_POOL)}})
        elif r < 0.45:
            step({"op": "reverse"})
        elif r < 0.65:
            step({"op": "pop", "i": rng.choice([0, 0, 1, -2])})
        elif r < 0.8:
            step({"op": "delslice", "sl": [None, None, 2]})
        elif r < 0.9:
            step({"op": "sort", "key": "u", "rev": rng.random() < 0.5})
        # else: nothing renumbers — the observation below still sees every name
        step({"op": "observe"})
    case["ops"] = ops
    case["nomodel"] = True
    case["why_nomodel"] = "sort whose comparison fails: the model's keyed sort sorts or answers unsupported (oracle only)"
    return case


def has_sort_failure(case):
    return any((o.get("s") or {}).get("key") in SORT_CMP_FAILS for o in case["ops"])


# ------------------------------------------------------------------ shrinking (shared)

def shrink_history(case):
    import copy
    ops = case["ops"]
    for i in range(len(ops)):
        c = copy.deepcopy(case)
        del c["ops"][i]
        yield c
    # simplify op arguments
    for i, o in enumerate(ops):
        for part in ("s", "m"):
            op = o.get(part)
            if not op:
                continue
            if "as" in op and len(op["as"]) > 0:
                for j in range(len(op["as"])):
                    c = copy.deepcopy(case)
                    del c["ops"][i][part]["as"][j]
                    yield c
            if "items" in op and len(op["items"]) > 1:
                for j in range(len(op["items"])):
                    c = copy.deepcopy(case)
                    del c["ops"][i][part]["items"][j]
                    yield c
            if part == "m" and "s" in o:
                c = copy.deepcopy(case)
                del c["ops"][i]["s"]
                yield c
            if part == "s" and "m" in o:
                c = copy.deepcopy(case)
                del c["ops"][i]["m"]
                yield c
    # failure-path fields: drop the second tree, aim at the main tree, replace a live argument by a fresh element
    if case.get("aux"):
        c = copy.deepcopy(case)
        del c["aux"]
        yield c
        v = case["aux"][0].get("value")
        if isinstance(v, dict) and v.get("l"):
            for j in range(len(v["l"])):
                c = copy.deepcopy(case)
                del c["aux"][0]["value"]["l"][j]
                yield c
    for i, o in enumerate(ops):
        if "tt" in o:
            c = copy.deepcopy(case)
            del c["ops"][i]["tt"]
            yield c
        for part in ("s", "m"):
            op = o.get(part)
            if not op:
                continue
            if isinstance(op.get("a"), dict) and "live" in op["a"]:
                c = copy.deepcopy(case)
                c["ops"][i][part]["a"] = {"new": None, "blank": True}
                yield c
                if op["a"].get("touch"):
                    c = copy.deepcopy(case)
                    del c["ops"][i][part]["a"]["touch"]
                    yield c
    # simplify the initial value
    init = case["init"]
    if init.get("route") != "ctor":
        c = copy.deepcopy(case)
        c["init"] = {"route": "ctor", "value": None}
        yield c
    v = init.get("value")
    if isinstance(v, dict) and "l" in v and v["l"]:
        for j in range(len(v["l"])):
            c = copy.deepcopy(case)
            del c["init"]["value"]["l"][j]
            yield c
    # drop defaults
    for idx, s in enumerate(walk_schemas(case["schema"])):
        if s["default"] is not None:
            c = copy.deepcopy(case)
            list(walk_schemas(c["schema"]))[idx]["default"] = None
            yield c


# ------------------------------------------------------------------ which cases does the model cover?

def mark_unmodelled(prop, cases):
    """Ask the compiled Lean model which of the cases it covers (it answers {"unsupported": true} for paths outside
    the model) and mark the others `nomodel`, so that `has_model` — and the evidence counters — are exact:
    only really compared traces count as validated.  The oracle runs on every case regardless."""
    import os
    from harness import core
    todo = [c for c in cases if not c.get("nomodel")]
    if not todo or not os.path.exists(core.DRIVER):
        return cases
    outs = core.run_model_many(prop, todo)
    for c, o in zip(todo, outs):
        if isinstance(o, dict) and o.get("unsupported"):
            c["nomodel"] = True
            c["why_nomodel"] = "outside the modelled paths"
    return cases


def has_flat(case):
    if case["init"].get("route") in ("from_flat", "set_flat", "from_object"):
        return True
    for o in case["ops"]:
        for part in ("s", "m"):
            if (o.get(part) or {}).get("op") in ("set_flat", "set_mixed", "set_flat_rt"):
                return True
    return False
